pub mod isa;
pub mod llvm;
