pub mod ir;
pub mod spell;
