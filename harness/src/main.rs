//! avra-verif: runtime monitors for properties C01..C18 of no111u3/avra-rs.
//!
//!   avra-verif run <Cxx> [--tier quick|thorough] [--seed N]
//!   avra-verif replay <file>
//!   avra-verif selfcheck            (reference-model self tests used by setup.sh)

mod fw;
mod monitor;

#[global_allocator]
static GLOBAL: monitor::alloc::Counting = monitor::alloc::Counting;
mod gen;
mod props;
mod refmodel;

use fw::{Ctx, Tier};

fn usage() -> ! {
    eprintln!("usage: avra-verif run <Cxx> [--tier quick|thorough] [--seed N] | replay <file> | selfcheck");
    std::process::exit(2);
}

fn main() {
    let args: Vec<String> = std::env::args().collect();
    if args.len() < 2 {
        usage();
    }
    fw::install_quiet_panic_hook();
    match args[1].as_str() {
        "run" => {
            if args.len() < 3 {
                usage();
            }
            let prop = args[2].to_uppercase();
            let mut tier = match std::env::var("VERIF_TIER").as_deref() {
                Ok("thorough") => Tier::Thorough,
                _ => Tier::Quick,
            };
            let mut seed: u64 = std::env::var("VERIF_SEED")
                .ok()
                .and_then(|s| s.trim().parse::<i64>().ok())
                .map(|v| v as u64)
                .unwrap_or(1);
            let mut i = 3;
            while i < args.len() {
                match args[i].as_str() {
                    "--tier" => {
                        i += 1;
                        tier = match args.get(i).map(|s| s.as_str()) {
                            Some("quick") => Tier::Quick,
                            Some("thorough") => Tier::Thorough,
                            _ => usage(),
                        };
                    }
                    "--seed" => {
                        i += 1;
                        seed = args.get(i).and_then(|s| s.parse::<i64>().ok()).map(|v| v as u64).unwrap_or_else(|| usage());
                    }
                    _ => usage(),
                }
                i += 1;
            }
            // a runaway allocation in the code under test must not take the sandbox down: address space cap
            unsafe {
                let lim = libc::rlimit { rlim_cur: 40 << 30, rlim_max: 40 << 30 };
                libc::setrlimit(libc::RLIMIT_AS, &lim);
            }
            let ctx = Ctx::new(&prop, tier, seed);
            let code = props::run(&ctx);
            std::process::exit(code);
        }
        "replay" => {
            if args.len() < 3 {
                usage();
            }
            let text = std::fs::read_to_string(&args[2]).unwrap_or_else(|e| {
                eprintln!("cannot read replay file {}: {}", args[2], e);
                std::process::exit(2)
            });
            let v: serde_json::Value = serde_json::from_str(&text).unwrap_or_else(|e| {
                eprintln!("bad replay file: {}", e);
                std::process::exit(2)
            });
            // a case that only the plain release build showed is replayed by that build
            if v["case"]["harness_profile"].as_str() == Some("plainrelease") && cfg!(debug_assertions) {
                let sibling = std::env::current_exe().ok().and_then(|me| me.parent().and_then(|p| p.parent()).map(|p| p.join("plainrelease").join("avra-verif")));
                let file = v["case"]["leg_replay_file"].as_str().unwrap_or("").to_string();
                match sibling {
                    Some(s) if s.exists() => {
                        let st = std::process::Command::new(s).args(["replay", &file]).env("VERIF_PLAIN_LEG", "1").status();
                        std::process::exit(st.ok().and_then(|s| s.code()).unwrap_or(2));
                    }
                    _ => {
                        eprintln!("the plain release build of the harness is missing (run through ./check)");
                        std::process::exit(2);
                    }
                }
            }
            let prop = v["property"].as_str().unwrap_or("").to_string();
            let mut ctx = Ctx::new(&prop, Tier::Quick, v["seed"].as_u64().unwrap_or(1));
            ctx.replay_mode = true;
            // re-create the reporting thread's history first (see fw::hostile_history)
            fw::HISTORY_OFF.store(true, std::sync::atomic::Ordering::Relaxed);
            if let Some(h) = v["thread_history"].as_array() {
                for i in h.iter().filter_map(|x| x.as_u64()) {
                    fw::run_history_program(i as usize);
                }
            }
            let code = props::replay(&ctx, &v);
            std::process::exit(code);
        }
        "selfcheck" => {
            std::process::exit(props::selfcheck());
        }
        "worker" => {
            std::process::exit(props::worker(&args[2..]));
        }
        "c17-one" => {
            std::process::exit(props::c17::one(&args[2..]));
        }
        "miri-conc" => {
            std::process::exit(props::c16legs::miri_workload(args.get(2).map(|s| s.as_str()).unwrap_or("c17")));
        }
        _ => usage(),
    }
}
