//! C01 — every valid instruction assembles to its exact AVR ISA machine code.
//!
//! Oracle: byte equality with refmodel::isa::encode plus independent decode round trip.
//! Workload: the complete one-word operand space (both tiers), the reduced-core lds/sts
//! space, boundary + random two-word tuples (quick) or the complete two-word spaces (thorough).

use crate::fw::{self, Ctx, Outcome, Rng, Tier};
use crate::gen::spell;
use crate::refmodel::isa::{self, Core, Form, Opk};
use serde_json::{json, Value};
use std::collections::BTreeMap;
use std::sync::atomic::{AtomicU64, Ordering};
use std::sync::Mutex;

const BATCH: u64 = 4096;
pub const REL_ORG: u32 = 4096;

enum Tuples {
    Range(u64, u64),
    List(Vec<Vec<i64>>),
}

struct Job {
    form: usize,
    tuples: Tuples,
}

pub fn header(form: &Form) -> String {
    let mut h = String::new();
    if form.core == Core::Reduced {
        h.push_str(".device ATtiny20\n");
    }
    if form.ops.iter().any(|o| matches!(o, Opk::Rel { .. })) {
        h.push_str(&format!(".org {}\n", REL_ORG));
    }
    h
}

fn header_pad(form: &Form) -> usize {
    if form.ops.iter().any(|o| matches!(o, Opk::Rel { .. })) {
        REL_ORG as usize * 2
    } else {
        0
    }
}

/// One instruction line with randomly chosen equivalent spellings.
pub fn line_text(form: &Form, vals: &[i64], rng: &mut Rng) -> String {
    let mut s = String::new();
    s.push_str(spell::blanks(rng));
    s.push_str(&spell::case(form.mn, rng));
    for (i, v) in vals.iter().enumerate() {
        if i == 0 {
            s.push_str(spell::blanks1(rng));
        } else {
            s.push_str(spell::blanks(rng));
            s.push(',');
            s.push_str(spell::blanks(rng));
        }
        match form.ops[i] {
            Opk::Reg { .. } => s.push_str(&spell::reg(*v, rng)),
            Opk::Imm { .. } | Opk::ImmCom { .. } | Opk::Addr8l { .. } => {
                // one number in twelve is written as the character that has this code (controls, blanks and
                // Latin-1 included - a character literal is a number like any other)
                match char::from_u32(*v as u32) {
                    Some(c) if *v >= 1 && *v <= 255 && c != '\n' && c != '\r' && c != '\'' && rng.chance(1, 12) => s.push_str(&format!("'{}'", c)),
                    _ => s.push_str(&spell::num(*v, rng)),
                }
            }
            Opk::Rel { .. } => {
                let t = *v + 1;
                let pc = spell::case("pc", rng);
                let sp = spell::blanks(rng);
                if t >= 0 {
                    s.push_str(&format!("{}{}+{}{}", pc, sp, sp, spell::num(t, rng)));
                } else {
                    s.push_str(&format!("{}{}-{}{}", pc, sp, sp, spell::num(-t, rng)));
                }
            }
            Opk::Index(ix) => s.push_str(&spell::case(ix.text(), rng)),
            Opk::Disp { reg, .. } => {
                s.push_str(&spell::case(&reg.to_string(), rng));
                s.push('+');
                match char::from_u32(*v as u32) {
                    Some(c) if *v >= 1 && c != '\n' && c != '\r' && c != '\'' && rng.chance(1, 12) => s.push_str(&format!("'{}'", c)),
                    _ => s.push_str(&spell::num(*v, rng)),
                }
            }
        }
    }
    s
}

struct Shared {
    first_words: Vec<AtomicU64>, // bitmap of 65536 bits
    per_mn: Mutex<BTreeMap<String, u64>>,
    radix: Mutex<BTreeMap<String, u64>>,
}

fn check_line(ctx: &Ctx, form: &Form, vals: &[i64], text: &str) {
    let src = format!("{}{}\n", header(form), text);
    let out = fw::build_str(&src);
    let exp_words = isa::encode(form, vals);
    let mut expect = vec![0u8; header_pad(form)];
    expect.extend(isa::words_to_bytes(&exp_words));
    let replay = json!({"source": src, "form": form.name, "vals": vals, "expect_code": fw::hex(&expect[header_pad(form)..], 64),
        "pad": header_pad(form), "observed": out.brief()});
    match &out {
        Outcome::Ok(b) => {
            if b.code == expect {
                return;
            }
            let aspect = if b.code.len() != expect.len() { "len" } else { "bytes" };
            let got = &b.code[header_pad(form).min(b.code.len())..];
            ctx.violation(
                format!("enc/{}/{}", form.name, aspect),
                format!("`{}` assembled to {} but the ISA encoding is {}", text.trim(), fw::hex(got, 16), fw::hex(&isa::words_to_bytes(&exp_words), 16)),
                replay,
            );
        }
        Outcome::Err(e) => ctx.violation(
            format!("enc/{}/rejected", form.name),
            format!("ISA-legal `{}` was rejected: {}", text.trim(), fw::clip(e, 160)),
            replay,
        ),
        Outcome::Panic(p) => ctx.violation(
            format!("enc/{}/panic", form.name),
            format!("ISA-legal `{}` panicked: {}", text.trim(), fw::clip(p, 160)),
            replay,
        ),
    }
}

fn run_job(ctx: &Ctx, sh: &Shared, job_index: u64, job: &Job) {
    let forms = isa::forms();
    let form = &forms[job.form];
    let mut rng = Rng::for_case(ctx.seed, 0xC01, job_index);
    let tuples: Vec<Vec<i64>> = match &job.tuples {
        Tuples::Range(start, n) => (*start..*start + *n).map(|i| form.tuple_at(i)).collect(),
        Tuples::List(l) => l.clone(),
    };
    let mut src = header(form);
    let mut expect = vec![0u8; header_pad(form)];
    let mut texts = Vec::with_capacity(tuples.len());
    for vals in &tuples {
        debug_assert!(form.legal(vals));
        let t = line_text(form, vals, &mut rng);
        src.push_str(&t);
        src.push('\n');
        texts.push(t);
        let w = isa::encode(form, vals);
        sh.first_words[(w[0] >> 6) as usize].fetch_or(1u64 << (w[0] & 63), Ordering::Relaxed);
        expect.extend(isa::words_to_bytes(&w));
    }
    ctx.eval(tuples.len() as u64);
    *sh.per_mn.lock().unwrap().entry(form.name.clone()).or_insert(0) += tuples.len() as u64;
    // every fourth batch reaches the assembler as a file: blank lines in front, LF or CRLF, no line end behind
    // the last instruction
    let as_file = job_index % 4 == 3;
    let out = if as_file {
        let mut t = format!("{}{}", ["", "\n", " \n\t\n"][(job_index / 4 % 3) as usize], src);
        if job_index / 12 % 2 == 1 {
            t = t.replace('\n', "\r\n");
        }
        while t.ends_with('\n') || t.ends_with('\r') {
            t.pop();
        }
        ctx.count("batches_built_as_files", 1);
        let o = fw::build_main_with_part_bytes(t.as_bytes(), b"");
        if !matches!(&o, Outcome::Ok(b) if b.code == expect) && matches!(fw::build_str(&src), Outcome::Ok(b) if b.code == expect) {
            ctx.violation(
                format!("enc/{}/batch-as-file", form.name),
                format!("{} lines of `{}` assemble right as one text but not as a file (blank lines in front, no final line end): {}", tuples.len(), form.mn, fw::clip(&format!("{:?}", o.brief()), 160)),
                json!({"file_bytes_hex": fw::hex(t.as_bytes(), 1 << 22), "form": form.name, "as_file": true, "expect_code": fw::hex(&expect, 1 << 22)}),
            );
            return;
        }
        o
    } else {
        fw::build_str(&src)
    };
    let ok = matches!(&out, Outcome::Ok(b) if b.code == expect);
    if ok {
        // independent decode of what was really emitted (one-word forms; two-word sampled)
        if let Outcome::Ok(b) = &out {
            let pad = header_pad(form);
            let wpi = form.words();
            let stride = if wpi == 1 || tuples.len() <= 64 { 1 } else { 61 };
            let mut i = 0;
            while i < tuples.len() {
                let off = pad + i * wpi * 2;
                let ws: Vec<u16> = (0..wpi)
                    .map(|k| u16::from_le_bytes([b.code[off + 2 * k], b.code[off + 2 * k + 1]]))
                    .collect();
                if let Err(e) = isa::check_decode(form, &tuples[i], &ws) {
                    ctx.violation(
                        format!("enc/{}/decode", form.name),
                        format!("`{}`: {}", texts[i].trim(), e),
                        json!({"source": format!("{}{}\n", header(form), texts[i]), "form": form.name, "vals": tuples[i]}),
                    );
                }
                i += stride;
            }
            if ctx.want_sample() && job_index % 7 == 0 {
                let k = rng.usize(tuples.len());
                let off = pad + k * wpi * 2;
                ctx.sample(json!({"line": texts[k], "device": if form.core == Core::Reduced {"ATtiny20"} else {"none"},
                    "emitted": fw::hex(&b.code[off..off + wpi * 2], 8), "batch_lines": tuples.len()}));
            }
        }
        return;
    }
    // bisect by running each line alone
    for (vals, text) in tuples.iter().zip(&texts) {
        check_line(ctx, form, vals, text);
    }
    let _ = &sh.radix;
}

fn two_word_sample(form: &Form, rng: &mut Rng, nrand: usize) -> Vec<Vec<i64>> {
    // every register x {walking one, walking zero, boundaries} + random addresses
    let (ai, hi) = form
        .ops
        .iter()
        .enumerate()
        .find_map(|(i, o)| match o {
            Opk::Imm { hi, .. } if *hi > 255 => Some((i, *hi)),
            _ => None,
        })
        .unwrap();
    let mut addrs = vec![0, 1, 2, hi, hi - 1, hi / 2, hi / 2 + 1, 0xff, 0x100, 0xffff.min(hi), 0x10000.min(hi), 0x1ffff.min(hi), 0x20000.min(hi)];
    let mut b = 1i64;
    while b <= hi {
        addrs.push(b);
        addrs.push(hi ^ b);
        addrs.push(b - 1);
        b <<= 1;
    }
    for _ in 0..nrand {
        addrs.push(rng.range(0, hi));
    }
    let mut out = vec![];
    let regs: Vec<i64> = if form.ops.len() == 2 { form.ops[1 - ai].domain() } else { vec![0] };
    for (ri, r) in regs.iter().enumerate() {
        for (k, a) in addrs.iter().enumerate() {
            // random addresses are spread over registers instead of multiplied by them
            if k >= addrs.len() - nrand && (k % regs.len()) != ri {
                continue;
            }
            let mut v = vec![0i64; form.ops.len()];
            v[ai] = *a;
            if form.ops.len() == 2 {
                v[1 - ai] = *r;
            }
            out.push(v);
        }
    }
    out
}

pub fn run(ctx: &Ctx) -> i32 {
    // the reference model must be self-consistent before its verdicts mean anything
    match isa::selfcheck() {
        Ok(n) => ctx.put("isa_model_selfcheck_tuples", json!(n)),
        Err(e) => {
            println!("HARNESS-FAILURE property=C01 {}", e);
            return 2;
        }
    }
    let forms = isa::forms();
    let mut jobs: Vec<Job> = vec![];
    let mut rng = Rng::for_case(ctx.seed, 0xC01_0000, 0);
    let mut complete = vec![];
    let mut sampled = vec![];
    for (fi, form) in forms.iter().enumerate() {
        let space = form.space();
        let full = form.words() == 1 || ctx.tier == Tier::Thorough;
        if full {
            complete.push(json!({"form": form.name, "tuples": space}));
            let mut s = 0;
            while s < space {
                let n = BATCH.min(space - s);
                jobs.push(Job { form: fi, tuples: Tuples::Range(s, n) });
                s += n;
            }
        } else {
            let list = two_word_sample(form, &mut rng, 4096);
            sampled.push(json!({"form": form.name, "tuples": list.len(), "of": space}));
            for chunk in list.chunks(BATCH as usize) {
                jobs.push(Job { form: fi, tuples: Tuples::List(chunk.to_vec()) });
            }
        }
    }
    // high-address slice: the same forms again behind `.org 0x12345`, where address arithmetic done in a
    // 16-bit type would wrap (label-free, so only the encoder's use of the current address matters)
    let mut high: Vec<(usize, Vec<Vec<i64>>)> = vec![];
    for (fi, form) in forms.iter().enumerate() {
        if form.core == Core::Reduced {
            continue; // ATtiny20 has 1 Ki words of flash
        }
        let space = form.space();
        let mut ts = vec![form.tuple_at(0), form.tuple_at(space - 1)];
        for _ in 0..46 {
            ts.push(form.tuple_at(rng.below(space)));
        }
        high.push((fi, ts));
    }
    fw::par_items(&high, |i, (fi, ts)| {
        let form = &forms[*fi];
        let mut r = Rng::for_case(ctx.seed, 0xC01_A, i as u64);
        let org = 0x12345usize;
        let mut src = format!(".org 0x{:x}\n", org);
        let mut expect = vec![0u8; org * 2];
        let mut texts = vec![];
        for vals in ts {
            let t = line_text(form, vals, &mut r);
            src.push_str(&t);
            src.push('\n');
            texts.push(t);
            expect.extend(isa::words_to_bytes(&isa::encode(form, vals)));
        }
        ctx.eval(ts.len() as u64);
        let out = fw::build_str(&src);
        let ok = matches!(&out, Outcome::Ok(b) if b.code == expect);
        if !ok {
            // attribute to the first differing line
            let which = match &out {
                Outcome::Ok(b) => (0..ts.len()).find(|k| {
                    let w = form.words() * 2;
                    let off = org * 2 + k * w;
                    b.code.get(off..off + w) != expect.get(off..off + w)
                }),
                _ => None,
            };
            let k = which.unwrap_or(0);
            ctx.violation(
                format!("enc/{}/high-address", form.name),
                format!("`{}` at word address 0x{:x}+: {}", texts[k].trim(), org, fw::clip(&format!("{:?}", out.brief()), 160)),
                json!({"source": format!(".org 0x{:x}\n{}\n", org, texts[k]), "form": form.name, "vals": ts[k], "high_address": org}),
            );
        }
    });
    ctx.put("high_address_slice_forms", json!(high.len()));
    // last-word slice: every form as the very last instruction the flash of a part has room for (its last one or
    // two words), on the smallest part that has the form and on a large one
    {
        let table = crate::refmodel::devices::table();
        let mut n = 0u64;
        for form in forms.iter() {
            let mut devs: Vec<&(String, avra_lib::device::Device)> = table
                .iter()
                .filter(|(_, d)| crate::refmodel::devices::forbidding_flag(d, &form.name).is_none() && (form.core == Core::Reduced) == crate::refmodel::devices::is_reduced(d) || (form.core == Core::Any && crate::refmodel::devices::forbidding_flag(d, &form.name).is_none()))
                .collect();
            devs.sort_by_key(|(n, d)| (d.flash_size, n.clone()));
            let picks: Vec<&(String, avra_lib::device::Device)> = match devs.len() {
                0 => vec![],
                1 => vec![devs[0]],
                k => vec![devs[0], devs[k - 1]],
            };
            let mut r = Rng::for_case(ctx.seed, 0xC01_D, fw::hash_str(&form.name));
            for (name, dev) in picks {
                for vals in [form.tuple_at(0), form.tuple_at(form.space() - 1), form.tuple_at(r.below(form.space()))] {
                    let mut vals = vals;
                    for (i, o) in form.ops.iter().enumerate() {
                        if let Opk::Rel { .. } = o {
                            vals[i] = vals[i].clamp(-64, 63);
                        }
                    }
                    let w = isa::encode(form, &vals);
                    let at = dev.flash_size as usize - w.len();
                    let text = line_text(form, &vals, &mut r);
                    let src = format!(".device {}\n.org {}\n{}\n", name, at, text);
                    let out = fw::build_str(&src);
                    ctx.eval(1);
                    n += 1;
                    let ok = matches!(&out, Outcome::Ok(b) if b.code.len() == dev.flash_size as usize * 2 && b.code[at * 2..] == isa::words_to_bytes(&w)[..] && b.code[..at * 2].iter().all(|x| *x == 0));
                    if !ok {
                        ctx.violation(
                            format!("enc/{}/last-words-of-flash", form.name),
                            format!("`{}` in the last {} word(s) of {} ({} words): {}", text.trim(), w.len(), name, dev.flash_size, fw::clip(&format!("{:?}", out.kind()), 120)),
                            json!({"source": src, "form": form.name, "vals": vals, "high_address": at, "device_line": true}),
                        );
                    }
                }
            }
        }
        ctx.put("last_word_slice_builds", json!(n));
    }
    // operand-path slice: the same encodings when the operands arrive through a .def alias, an .equ
    // symbol, a forward label / .set variable, or as arguments of a macro (text spliced and re-parsed)
    let ctxwork: Vec<usize> = (0..forms.len()).collect();
    fw::par_items(&ctxwork, |_, fi| {
        let form = &forms[*fi];
        if form.ops.is_empty() {
            return;
        }
        let mut r = Rng::for_case(ctx.seed, 0xC01_B, *fi as u64);
        let space = form.space();
        for round in 0..8u64 {
            let vals = if round == 0 { form.tuple_at(0) } else if round == 1 { form.tuple_at(space - 1) } else { form.tuple_at(r.below(space)) };
            let mut pre = header(form);
            let mut direct: Vec<String> = vec![];
            let mut indirect: Vec<String> = vec![];
            // every other round the definitions that count are written inside a data or EEPROM segment,
            // replacing stale ones made before: symbol directives work the same in every segment
            let elsewhere = round % 2 == 1;
            if elsewhere {
                for (i, v) in vals.iter().enumerate() {
                    match form.ops[i] {
                        Opk::Reg { .. } => pre.push_str(&format!(".def al_{} = r{}\n", i, (*v + 1) % 32)),
                        Opk::Imm { .. } | Opk::ImmCom { .. } | Opk::Addr8l { .. } => pre.push_str(&format!(".set sym_{} = {}\n", i, *v ^ 1)),
                        _ => {}
                    }
                }
                pre.push_str(if round % 4 == 1 { ".dseg\n" } else { ".eseg\n" });
                for (i, _) in vals.iter().enumerate() {
                    if let Opk::Reg { .. } = form.ops[i] {
                        pre.push_str(&format!(".undef al_{}\n", i));
                    }
                }
            }
            for (i, v) in vals.iter().enumerate() {
                match form.ops[i] {
                    Opk::Imm { .. } | Opk::ImmCom { .. } | Opk::Addr8l { .. } if elsewhere => {
                        pre.push_str(&format!(".set sym_{} = {} - 1\n.set sym_{} = sym_{} + 1\n", i, v, i, i));
                        indirect.push(format!("Sym_{}", i));
                        direct.push(format!("{}", v));
                    }
                    Opk::Reg { .. } => {
                        pre.push_str(&format!(".def al_{} = r{}\n", i, v));
                        indirect.push(if r.chance(1, 2) { format!("al_{}", i) } else { format!("AL_{}", i) });
                        direct.push(format!("r{}", v));
                    }
                    Opk::Imm { .. } | Opk::ImmCom { .. } | Opk::Addr8l { .. } => {
                        if r.chance(1, 2) {
                            pre.push_str(&format!(".equ sym_{} = {}\n", i, v));
                        } else {
                            pre.push_str(&format!(".set sym_{} = {} - 1\n.set sym_{} = sym_{} + 1\n", i, v, i, i));
                        }
                        indirect.push(format!("Sym_{}", i));
                        direct.push(format!("{}", v));
                    }
                    Opk::Rel { .. } => {
                        let t = *v + 1;
                        let e = if t >= 0 { format!("pc+{}", t) } else { format!("pc-{}", -t) };
                        indirect.push(e.clone());
                        direct.push(e);
                    }
                    Opk::Index(ix) => {
                        indirect.push(ix.text().to_string());
                        direct.push(ix.text().to_string());
                    }
                    Opk::Disp { reg, .. } => {
                        pre.push_str(&format!(".equ dsp_{} = {}\n", i, v));
                        indirect.push(format!("{}+dsp_{}", reg, i));
                        direct.push(format!("{}+{}", reg, v));
                    }
                }
            }
            if elsewhere {
                pre.push_str(".cseg\n");
            }
            // the macro-call line writes every number as a computed expression of the same value whose grouping
            // matters: an argument is text that is rendered and read again
            if round >= 2 {
                for (i, v) in vals.iter().enumerate() {
                    if matches!(form.ops[i], Opk::Imm { .. } | Opk::ImmCom { .. } | Opk::Addr8l { .. }) && *v >= 0 {
                        direct[i] = match r.below(10) {
                            0 => format!("{}-(10-4)", v + 6),
                            1 => format!("{}/(8/4)", v * 2),
                            2 => format!("{}*(3/3)", v),
                            3 => format!("{}-(1+2)", v + 3),
                            4 => format!("({})", v),
                            5 => format!("{}*(7/4)", v),
                            6 => format!("{}/(9/3)", v * 3),
                            7 => format!("{}-(5%5)", v),
                            8 => format!("{}>>(2>>1)", v * 2),
                            _ => format!("{}|(0&7)", v),
                        };
                    }
                }
            }
            // data in front of the instructions, sized by its bytes: strings whose byte count is not their
            // character count, or that hold what looks like an escape
            let mut data: Vec<u8> = vec![];
            if round % 4 >= 2 {
                let t = crate::gen::ir::hostile_string(&mut r, false);
                pre.push_str(&format!(".db \"{}\"\n", t));
                data.extend(t.as_bytes());
                if data.len() % 2 == 1 {
                    data.push(0);
                }
            }
            let params: Vec<String> = (0..vals.len()).map(|i| format!("@{}", i)).collect();
            let src = format!(
                "{}.macro enc_mac\n\t{} {}\n.endm\n\t{} {}\n\tenc_mac {}\n\tEnc_Mac {}\n",
                pre,
                form.mn,
                params.join(", "),
                form.mn,
                indirect.join(", "),
                direct.join(", "),
                indirect.join(", ")
            );
            let w = isa::words_to_bytes(&isa::encode(form, &vals));
            let mut expect = vec![0u8; header_pad(form)];
            expect.extend(&data);
            for _ in 0..3 {
                expect.extend(&w);
            }
            let out = fw::build_str(&src);
            ctx.eval(3);
            if !matches!(&out, Outcome::Ok(b) if b.code == expect) {
                ctx.violation(
                    format!("enc/{}/operand-path", form.name),
                    format!("`{} {}` written through aliases/symbols/macro arguments: {}", form.mn, direct.join(", "), fw::clip(&format!("{:?}", out.brief()), 200)),
                    json!({"source": src, "form": form.name, "vals": vals, "operand_path": true, "expect_code": fw::hex(&expect[header_pad(form)..], 64)}),
                );
            }
        }
    });
    let sh = Shared {
        first_words: (0..1024).map(|_| AtomicU64::new(0)).collect(),
        per_mn: Mutex::new(BTreeMap::new()),
        radix: Mutex::new(BTreeMap::new()),
    };
    // shuffled: consecutive builds on one thread then mix devices and forms (state surviving from one
    // build to the next on the same thread would otherwise only meet its own kind)
    rng.shuffle(&mut jobs);
    fw::par_items(&jobs, |i, job| run_job(ctx, &sh, i as u64, job));

    // interleaving slice: one thread, single-line builds in random order, so that builds for the reduced
    // core (`.device ATtiny20`) and builds without a device follow each other directly - a device-dependent
    // decision remembered from the previous build would show here
    {
        let mut r = Rng::for_case(ctx.seed, 0xC01_C, 0);
        let rc: Vec<usize> = (0..forms.len()).filter(|i| forms[*i].core == Core::Reduced).collect();
        let full: Vec<usize> = (0..forms.len()).filter(|i| forms[*i].core == Core::Full).collect();
        for k in 0..3000u64 {
            let fi = match k % 4 {
                0 => *r.pick(&rc),
                1 => *r.pick(&full),
                _ => r.usize(forms.len()),
            };
            let form = &forms[fi];
            let vals = form.tuple_at(r.below(form.space()));
            let text = line_text(form, &vals, &mut r);
            ctx.eval(1);
            check_line(ctx, form, &vals, &text);
        }
        ctx.put("interleaving_slice_builds", json!(3000));
    }
    // letter-case twins: two lines that differ only in letter case - of the mnemonic and the registers, where
    // it means nothing, and of a character literal, where it is another number - one after the other in one
    // build and in two builds that follow each other on one thread
    {
        let mut r = Rng::for_case(ctx.seed, 0xC01_D, 0);
        let render = |form: &Form, vals: &[i64], at: usize, ch: char, upper: bool| -> String {
            let mut ops: Vec<String> = vec![];
            for (i, v) in vals.iter().enumerate() {
                let t = if i == at {
                    match form.ops[i] {
                        Opk::Disp { reg, .. } => format!("{}+'{}'", reg, ch),
                        _ => format!("'{}'", ch),
                    }
                } else {
                    match form.ops[i] {
                        Opk::Reg { .. } => format!("r{}", v),
                        Opk::Rel { .. } => {
                            if *v + 1 >= 0 {
                                format!("pc+{}", v + 1)
                            } else {
                                format!("pc-{}", -(v + 1))
                            }
                        }
                        Opk::Index(ix) => ix.text().to_string(),
                        Opk::Disp { reg, .. } => format!("{}+{}", reg, v),
                        _ => format!("{}", v),
                    }
                };
                ops.push(if upper && i != at { t.to_uppercase() } else { t });
            }
            let mn = if upper { form.mn.to_uppercase() } else { form.mn.to_string() };
            format!("\t{} {}", mn, ops.join(", "))
        };
        let mut twins = 0u64;
        for form in forms.iter() {
            for at in 0..form.ops.len() {
                if !matches!(form.ops[at], Opk::Imm { .. } | Opk::ImmCom { .. } | Opk::Addr8l { .. } | Opk::Disp { .. }) {
                    continue;
                }
                for k in 0..26u8 {
                    let (up, lo) = ((b'A' + k) as char, (b'a' + k) as char);
                    let mut vu = form.tuple_at(r.below(form.space()));
                    vu[at] = up as i64;
                    let mut vl = vu.clone();
                    vl[at] = lo as i64;
                    if !form.legal(&vu) || !form.legal(&vl) {
                        continue;
                    }
                    let first_upper = r.chance(1, 2);
                    let (ta, tb) = if first_upper { (render(form, &vu, at, up, false), render(form, &vl, at, lo, true)) } else { (render(form, &vl, at, lo, false), render(form, &vu, at, up, true)) };
                    let (va, vb) = if first_upper { (&vu, &vl) } else { (&vl, &vu) };
                    // two builds, one after the other
                    ctx.eval(2);
                    check_line(ctx, form, va, &ta);
                    check_line(ctx, form, vb, &tb);
                    // one build
                    if form.ops.iter().any(|o| matches!(o, Opk::Rel { .. })) {
                        continue;
                    }
                    let src = format!("{}{}\n{}\n", header(form), tb, ta);
                    let mut expect = vec![0u8; header_pad(form)];
                    expect.extend(isa::words_to_bytes(&isa::encode(form, vb)));
                    expect.extend(isa::words_to_bytes(&isa::encode(form, va)));
                    let out = fw::build_str(&src);
                    ctx.eval(1);
                    twins += 1;
                    let ok = matches!(&out, Outcome::Ok(b) if b.code == expect);
                    if !ok {
                        ctx.violation(
                            format!("enc/{}/letter-case-twins-in-one-build", form.name),
                            format!("`{}` then `{}`: expected {}, observed {}", tb.trim(), ta.trim(), fw::hex(&expect[header_pad(form)..], 16), fw::clip(&format!("{:?}", out.brief()), 120)),
                            json!({"source": src, "twins": true, "expect_code_whole": fw::hex(&expect, 4096), "observed": out.brief()}),
                        );
                    }
                }
            }
        }
        ctx.put("letter_case_twin_pairs", json!(twins));
    }
    let distinct_first: u64 = sh.first_words.iter().map(|w| w.load(Ordering::Relaxed).count_ones() as u64).sum();
    ctx.distinct_extra.store(distinct_first, Ordering::Relaxed);
    ctx.exhaustive.store(true, Ordering::Relaxed);
    ctx.put("complete_spaces", json!(complete));
    ctx.put("sampled_spaces", json!(sampled));
    ctx.put("forms", json!(forms.len()));
    ctx.put("mnemonics", json!(isa::mnemonics().len()));
    ctx.put("tuples_per_form", json!(*sh.per_mn.lock().unwrap()));
    ctx.put("distinct_first_words_of_65536", json!(distinct_first));
    crate::refmodel::llvm::crosscheck(ctx, ctx.tier == Tier::Thorough);
    fw::finish(
        ctx,
        "every ISA-legal operand tuple of every supported instruction form is assembled (batches of 4096 lines, random radix/case/blank spelling, one number in twelve as the character literal with that code; every fourth batch as a file with blank lines in front, LF or CRLF and no final line end) and compared byte-for-byte with the reference encoder and re-decoded by an independent decoder; plus a high-address slice (48 tuples per form behind .org 0x12345) an interleaving slice (3000 single-line builds on one thread alternating between the reduced core, no device and random forms) a last-word slice (every form in the last one or two words of the flash of the smallest and the largest part that has it) and an operand-path slice (8 tuples per form written through .def aliases, .equ/.set symbols and macro arguments, the macro arguments also as computed expressions with right-grouped operands, half of them behind a `.db` string whose byte count differs from its character count or that holds backslash sequences); `exhaustive` refers to the spaces listed under complete_spaces; distinct_nontrivial = distinct first instruction words emitted (bitmap over 65536)",
        &[
            "refmodel/isa.rs is a faithful transcription of the AVR Instruction Set Manual (self-checked decode∘encode, cross-checked against llvm-mc-14 where available)",
            "relative operands are written as pc±k at word address 4096; label-based targets belong to C03",
        ],
    )
}

pub fn replay(ctx: &Ctx, case: &Value) -> i32 {
    if case["as_file"].as_bool() == Some(true) {
        let hexs = case["file_bytes_hex"].as_str().unwrap_or("");
        let bytes: Vec<u8> = (0..hexs.len() / 2).filter_map(|i| u8::from_str_radix(&hexs[2 * i..2 * i + 2], 16).ok()).collect();
        let out = fw::build_main_with_part_bytes(&bytes, b"");
        ctx.eval(1);
        ctx.distinct(1);
        ctx.distinct(2);
        if !matches!(&out, Outcome::Ok(b) if Some(fw::hex(&b.code, 1 << 22).as_str()) == case["expect_code"].as_str()) {
            ctx.violation("enc/replay", "the batch built as a file still deviates".to_string(), case.clone());
        }
        return fw::finish(ctx, "replay", &[]);
    }
    if case["twins"].as_bool() == Some(true) {
        let out = fw::build_str(case["source"].as_str().unwrap_or(""));
        ctx.eval(1);
        ctx.distinct(1);
        ctx.distinct(2);
        if !matches!(&out, Outcome::Ok(b) if Some(fw::hex(&b.code, 4096).as_str()) == case["expect_code_whole"].as_str()) {
            ctx.violation("enc/replay", "the two lines in one build still deviate".to_string(), case.clone());
        }
        return fw::finish(ctx, "replay", &[]);
    }
    let form = isa::form(case["form"].as_str().unwrap_or(""));
    let vals: Vec<i64> = case["vals"].as_array().map(|a| a.iter().filter_map(|x| x.as_i64()).collect()).unwrap_or_default();
    let src = case["source"].as_str().unwrap_or("");
    let text = src.lines().last().unwrap_or("");
    ctx.eval(1);
    if case["operand_path"].as_bool() == Some(true) {
        let out = fw::build_str(src);
        let pad = header_pad(form);
        let ok = matches!(&out, Outcome::Ok(b) if b.code.len() >= pad && Some(fw::hex(&b.code[pad..], 64).as_str()) == case["expect_code"].as_str());
        if !ok {
            ctx.violation(format!("enc/{}/operand-path", form.name), "replayed case still deviates".to_string(), case.clone());
        }
    } else if let Some(org) = case["high_address"].as_u64() {
        let out = fw::build_str(src);
        let mut expect = vec![0u8; org as usize * 2];
        expect.extend(isa::words_to_bytes(&isa::encode(form, &vals)));
        if !matches!(&out, Outcome::Ok(b) if b.code == expect) {
            ctx.violation(format!("enc/{}/high-address", form.name), "replayed case still deviates".to_string(), case.clone());
        }
    } else {
        check_line(ctx, form, &vals, text);
    }
    ctx.distinct(1);
    ctx.distinct(2);
    fw::finish(ctx, "replay", &[])
}
