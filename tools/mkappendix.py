#!/usr/bin/env python3
"""Regenerates the generated parts of DESIGN.md: §7 fix list, appendix A (false alarms, from
NOTES-false-alarms.md) and appendix B (seeded changes x checks, from seeded/*/meta.json and
selftest/RESULTS.jsonl), and selftest/RESULTS.md."""
import glob, json, os, re, subprocess
ROOT = os.path.dirname(os.path.dirname(os.path.abspath(__file__)))
d = open(f"{ROOT}/DESIGN.md").read()
MARK = "\n<!-- GENERATED APPENDICES BELOW (tools/mkappendix.py) -->\n"
if MARK in d:
    d = d[:d.index(MARK)]
d = d.rstrip() + "\n" + MARK

# --- fix list in §7
fixes = subprocess.run(["git", "-C", "/repo", "log", "--reverse", "--format=%h %s"], capture_output=True, text=True).stdout.splitlines()
fixes = [f for f in fixes if f.split(" ", 1)[1].startswith("fix:")]
table = "\n".join("| `%s` | %s |" % (f.split(" ", 1)[0], f.split(" ", 1)[1][5:]) for f in fixes)
d = re.sub(r"\*\*Repaired \(\d+ `fix:` commits, in order\):\*\*\n\n\| commit \| defect \|\n\|---\|---\|\n(?:\|.*\|\n)+",
           "**Repaired (%d `fix:` commits, in order):**\n\n| commit | defect |\n|---|---|\n%s\n" % (len(fixes), table), d)

# --- open findings in §7 (from KNOWN_FINDINGS.txt)
opens = []
for l in open(f"{ROOT}/KNOWN_FINDINGS.txt"):
    m = re.match(r"open: property=(\S+) sig=(\S+) witness=(\S+) (.*)", l.strip())
    if m:
        opens.append(m.groups())
otable = "\n".join("| %s | `%s` | `%s` | %s |" % (a, b, c, t.replace("|", "\\|")) for a, b, c, t in opens)
d = re.sub(r"\*\*Open known findings \(\d+; listed in KNOWN_FINDINGS.txt with witness files under findings/\):\*\*\n\n(?:\|.*\|?\n)+",
           "**Open known findings (%d; listed in KNOWN_FINDINGS.txt with witness files under findings/):**\n\n| property | signature | witness | what fails, and why it is recorded rather than repaired |\n|---|---|---|---|\n%s\n" % (len(opens), otable), d)

# --- appendix A
notes = open(f"{ROOT}/NOTES-false-alarms.md").read()
notes = notes.split("\n", 1)[1] if notes.startswith("#") else notes
d += "\n---------------------------------------------------------------------------------------\n\n## Appendix A. Corrections of the machinery (false alarms found while bringing the monitors up)\n\nNone of these was ever listed as a known finding; in each case the code under test was right and the check was wrong.\n" + notes.strip() + "\n"

# --- appendix B
res = []
if os.path.exists(f"{ROOT}/selftest/RESULTS.jsonl"):
    latest = {}
    for l in open(f"{ROOT}/selftest/RESULTS.jsonl"):
        r = json.loads(l)
        latest[r.get("mutant") or r.get("benign")] = r
    res = list(latest.values())
d += "\n---------------------------------------------------------------------------------------\n\n## Appendix B. Seeded changes and which checks catch them\n\n"
d += "### B.1 Changes written by independent sub-agents (`/verif/seeded/<id>/`)\n\nEach agent saw only the text of one property and a scratch worktree. Every claim was re-confirmed by `selftest/confirm_seeded.py` (patch applies to the current tree; unedited suite 67/67 green with it; the agent's demo fails with it and passes without), then the property's quick check was run against the patched scratch copy. \"strengthened\" = the check as it stood missed the change and was extended (generically, not for this input) until it caught it.\n\n| id | property | change (needs, to manifest) | caught by (first signatures) | note |\n|---|---|---|---|---|\n"
notes_strength = {
 "agent11-C01": "strengthened: missed at first; letter-case twins - for every form and every letter, two lines that differ only in the letter case of the mnemonic and registers (which means nothing) and of a character-literal operand (which is another number), in one build and in two builds that follow each other on one thread",
 "agent11-C02": "strengthened: missed at first; `.byte` with a size that is not a plain number (through .equ, .set - assigned once, twice, again later -, a sum, parentheses, a function, a product, an .equ defined later) in .eseg and .dseg between two labels whose distance the code reads: laid out properly, refused, or nothing reserved anywhere (the listed finding) - labels and bytes that disagree with each other are another signature",
 "agent11-C03": "strengthened: missed at first; filler mix 100 - the program begins with `.device ATtiny20` and the words between branch and target hold the one-word lds / sts of the reduced core",
 "agent11-C04": "caught as the check stood (registers through .def aliases on the reduced core)",
 "agent11-C05": "strengthened: missed at first; a history program that defines the names the monitors' own programs use (with other values, each worked out at length) and ends because the evaluation budget of the whole build runs out in the middle of an expression over them; C05 builds it directly in front of twelve symbol expressions per run",
 "agent11-C06": "strengthened: missed at first; sibling data lines - equal up to a character some scanner stops at (`;` `//` `/*` `:` `,` `@0` `#` `=` ... inside a string or character literal) or equal but for letter case / blanks inside a literal, in one build (each line also following itself) and in builds that follow each other, flash and EEPROM",
 "agent11-C07": "caught as the check stood (one path rewritten with shrinking images, added after round 9)",
 "agent11-C08": "strengthened: missed at first; 260 and 70000 (thorough up to 140000) complete chains of twelve shapes one after the other, also inside a macro body, against the program with the unselected lines deleted",
 "agent11-C09": "strengthened: missed at first; 66000 and 140000 (thorough up to 1050000) calls in one source (one-line body with parameter, two-line body, wrapper calling two others, two macros in turn with data, calls between segment switches) against the lines written out",
 "agent11-C10": "strengthened: missed at first; an undefined name in an operand that cannot change the value (18 shapes: `0 && x`, `1 || x`, `x * 0`, `x - x`, `low(0 && x)` ...) in .dw / ldi / .set / .if / .db must fail the build",
 "agent11-C11": "strengthened: missed at first; the file that lists search directories is itself reached through one or two files that do nothing but include the next one",
 "agent11-C12": "caught as the check stood (reservations of 2^32 + k units in isolated workers)",
 "agent11-C13": "strengthened: missed at first; the second `.device` line of the must-fail programs also sits in an included file (alone, or among the .equ lines of a part file)",
 "agent11-C14": "strengthened: missed at first; meaningless lines in volume - 130 / 2000 comment-only, blank and whitespace-only lines inside a macro body called 34000 / 2200 times, 1.2 million of them between the lines of a program, 900000 in unassembled text",
 "agent11-C15": "strengthened: missed at first; new fault kind: a line holding only a character the language gives no meaning to (NBSP, form feed, vertical tab, U+3000, U+2028, NEL, zero-width space), alone or in front of a comment",
 "agent11-C16": "strengthened: missed at first; nesting ladders behind strings and character literals that end in, or hold, a backslash, a backslash-quote, a doubled quote or comment openers (ten prefixes)",
 "agent11-C17": "caught as the check stood (failing programs whose unknown name begins several known names, built in child processes and on many threads)",
 "agent11-C18": "caught as the check stood (write faults on /dev/full for images of every size)",
 "agent1-C02": "strengthened: C02's strings were ASCII only; non-ASCII strings added (C06 caught it as it stood)",
 "agent1-C03": "strengthened: far targets (±2^k ± small, pc-relative and labels via .org) added to C03",
 "agent1-C04": "strengthened: complete register x register / boundary cross product for two-operand forms added to C04",
 "agent1-C12": "strengthened: usages of 2^32+k etc. added to C12, run in isolated workers (the patched code goes on to allocate them)",
 "agent1-C13": "strengthened: whole-program sequences per device added to C13 (one-instruction sweep missed a verdict cached per mnemonic)",
 "agent1-C15": "strengthened: undefined names in operands that cannot change the value (0 && x, 1 || x, 0 * x) added to C15 (C05 caught it as it stood)",
 "agent1-C16": "strengthened: sizes >= 2^32 whose low bits look harmless added to C16's structured workload",
 "agent1-C17": "strengthened: failing programs with well-filled tables added to C17's pool (error text enumerating a hash table)",
 "agent2-C01": "strengthened: instruction streams interleaving different forms (state carried from one instruction to the next) added to C01; C17 also caught it",
 "agent2-C02": "strengthened: the same programs with runs of lines moved into macros (via-macro variants) added to C02",
 "agent2-C03": "strengthened: relative branches inside macro bodies (called several times at different addresses) added to C03",
 "agent2-C04": "strengthened: operand-range cases repeated under every device of the table (device sweep) added to C04",
 "agent2-C05": "strengthened: every expression case also evaluated as a macro argument and inside a macro body in C05",
 "agent2-C06": "strengthened: data directives reached through macro expansion added to C06",
 "agent2-C07": "strengthened: images whose records repeat the same length pattern several times in a row added to C07",
 "agent2-C08": "strengthened: conditional chains hosted in macro bodies added to C08; C09 also caught it",
 "agent2-C09": "strengthened: macros whose bodies carry state (.set counters, .def/.undef, conditionals on arguments), called repeatedly, added to C09",
 "agent2-C10": "caught as the check stood",
 "agent2-C11": "strengthened on reading the change's description, before the first evaluation: after the missing-file build the file is put back and the same tree rebuilt on the same thread",
 "agent2-C12": "strengthened: missed at first (exit 0); C12 now also selects each device from a called macro, a macro called by a macro, a taken .if and the .else of an untaken .ifdef",
 "agent2-C13": "strengthened on reading the change's description, before the first evaluation: non-empty data/EEPROM segments placed before the code under test in C13's sequences",
 "agent2-C14": "strengthened on reading the change's description, before the first evaluation: macro bodies with lines that differ only in the letter case of a string or character literal (C14 base programs and C09 templates)",
 "agent2-C15": "caught as the check stood (duplicate inserted in another segment than the first definition); an explicit step appending the duplicate behind .org/.dseg/.eseg/.cseg added afterwards for margin",
 "agent2-C16": "strengthened on reading the change's description, before the first evaluation: self- and mutually recursive macros whose recursive call sits behind a segment switch or .org",
 "agent2-C17": "caught as the check stood",
 "agent2-C18": "strengthened: sources whose images exceed 1 MiB added to C18 (and C07)",
 "agent3-C01": "caught as the check stood (high-address and operand-path slices)",
 "agent3-C02": "caught as the check stood (via-macro variants)",
 "agent3-C03": "caught as the check stood",
 "agent3-C04": "strengthened: missed at first; every register / cross-product / kind-confusion line now also with registers through .def aliases and numbers through .equ symbols, and as a macro body with the operands as arguments",
 "agent3-C05": "caught as the check stood (macro-argument context)",
 "agent3-C06": "caught as the check stood",
 "agent3-C07": "strengthened: caught at first only through EEPROM images over 64 KiB; declared memory sizes now vary per image and every device is written with both memories filled to the last byte",
 "agent3-C08": "strengthened: missed at first; every program is built once more with unreferenced labels in front of its conditional directives (also those of nested chains in unselected branches)",
 "agent3-C09": "caught as the check stood",
 "agent3-C10": "caught as the check stood (mutant: .set line deleted)",
 "agent3-C11": "strengthened: missed at first; include names written as ./name, dir/name, ./dir/name, ../dir/name under every search rule, plus the rule 'path as written from the working directory'",
 "agent3-C12": "caught as the check stood (zero-capacity memories)",
 "agent3-C13": "caught as the check stood (forbidden form after allowed instructions incl. the same mnemonic)",
 "agent3-C14": "strengthened: missed at first; comment texts now contain /*, */, @0, quotes, backslashes, non-ASCII, directive look-alikes",
 "agent3-C15": "strengthened: missed at first; every single-line fault kind and .message/.warning lines also inside macro bodies behind blank and comment-only lines",
 "agent3-C16": "strengthened: caught at first by one random mutation only; multi-byte / zero-width / control characters next to every special character in every lexical position, at top level and inside called macro bodies; dictionary lines also inside macro bodies and conditional branches (this also found a genuine panic, fixed in 7410e14)",
 "agent3-C17": "strengthened: missed at first; builds ending at the assembler's own resource limits added to C17's pool; generic 'hostile history' (fw.rs) runs such builds before every 16th in-process build of every monitor",
 "agent3-C18": "caught as the check stood (demo.sh adapted to run in the tree it is started in)",
 "agent4-C01": "strengthened: missed by C01 at first (C10 caught it as it stood); C01's operand-path slice now also writes the definitions that count inside .dseg/.eseg, replacing stale ones",
 "agent4-C02": "caught as the check stood",
 "agent4-C03": "strengthened: missed at first; the target as macro parameter with 0-2 instructions in front of the branch inside the body, at both limits and one beyond",
 "agent4-C04": "strengthened: missed at first; malformed literals ('AB', '10', '', unterminated, `1 2`) among the operand-kind confusions",
 "agent4-C05": "strengthened: missed at first; the argument combined with an operator on the line of a nested call (`inner 2 * @0`, `inner 0 - @0`)",
 "agent4-C06": "caught as the check stood",
 "agent4-C07": "strengthened: missed at first; half of the images hold whole records of 0xFF / 0x00 / ':' / CR / LF at the start, the end and around every 64 KiB boundary, or are erased flash with one programmed byte",
 "agent4-C08": "strengthened: missed at first; macros with an optional last parameter (unselected branches name parameters the call does not pass, or hold garbage around an @n)",
 "agent4-C09": "strengthened: missed by C09 at first (C02 caught it as it stood); C09 now builds 'placing bodies' (.org as first / middle / last body line in all three segments, nested, caller going on behind the call) against the program written out",
 "agent4-C11": "strengthened: missed at first; half of the trees hold a file that is included two or three times and guards parts of itself (.ifndef G / .define G / ... / .else / ... / .endif, or a guarded head followed by unguarded lines)",
 "agent4-C12": "strengthened: missed at first; `.equ` definitions of the part files' symbol names (SRAM_SIZE, E2END, FLASHEND ... in mixed case) with much smaller / larger values behind the .device line",
 "agent4-C13": "strengthened: missed at first; every kind of inert line (.csegsize 10/12/14/16, #pragma, unused definitions, unselected .device, other segments with content) between .device and a forbidden form, per device",
 "agent4-C14": "caught as the check stood",
 "agent4-C15": "caught as the check stood",
 "agent4-C16": "strengthened: missed at first; symbol cycles and doubling ladders with every round passing through each function, unary operator, parentheses, comparison",
 "agent4-C17": "strengthened: missed at first; failing programs whose unknown name begins several known names (functions, mnemonics, directives, devices, symbols) added to the pool",
 "agent4-C18": "caught as the check stood",
 "agent5-C01": "caught as the check stood (operand-path slice with definitions inside .dseg, added after round 4)",
 "agent5-C02": "strengthened: missed at first; once per device-less program a forward .org gap of 0xffff..0x2ffff words in flash",
 "agent5-C03": "strengthened: missed at first; rjmp/rcall/brne near either end of the flash of one device per power-of-two flash size with the target near the other end (a wrapped displacement would fit), by label and by number, plus in-range controls there",
 "agent5-C04": "strengthened: missed at first (needs >= 8 operands on a line); operand counts arity+2 .. arity+257 (a count kept in a bit mask or a narrow integer wraps at 8, 16, 32, 64, 256). In the monitors' build the change panics, in the plain release leg it mis-assembles: both reported",
 "agent5-C05": "strengthened: missed at first; every parse-time expression also stands as an .if condition (branch chosen by value != 0; expressions that must fail - also in an operand that cannot change the value - must fail there too)",
 "agent5-C06": "strengthened: missed at first; character literals beyond Latin-1 (two-, three- and four-byte code points) as data operands: the value is the code point, which fits the element or does not",
 "agent5-C07": "caught as the check stood",
 "agent5-C08": "strengthened: missed at first; per device up to four programs with instructions the device lacks standing in unselected branches only (top level, macro body, body of a macro called by a macro)",
 "agent5-C09": "strengthened: missed at first; must-fail probes for an omitted argument wherever the use sits (forwarded to an inner macro, .byte in a data/EEPROM segment body, a definition nobody reads, the selected branch, an origin, a condition) and undefined macros called from bodies and data segments",
 "agent5-C10": "strengthened: missed by C10 at first (C08 needed the same extension); references to names that stand only in unassembled text - a label in an unselected branch, labels in front of the directives of a chain nested in it, `.else` after a taken branch - must fail",
 "agent5-C11": "strengthened: missed at first; base programs now hold .org in all three segments, in the data and EEPROM segment behind a first item, so that a cut leaves the included file in another segment than it began in and the includer goes on with .org",
 "agent5-C12": "strengthened: missed by C12 at first (C02 caught it as it stood: backward .org accepted); new fill method 'full, then .org back to the start, then more' for RAM and EEPROM (capacity + 1 must fail however the step back is treated)",
 "agent5-C13": "strengthened: invisible in the monitors' build (a debug_assert! with a side effect); every monitor now ends with a quick-size leg of itself built with the plain release profile (overflow checks and debug assertions off), which reports under plain-release-build/*",
 "agent5-C14": "strengthened: missed at first; every third base program ends in reservations sized by a function call or a sum (what they reserve is an open C02 finding, but it must not depend on the spelling)",
 "agent5-C15": "caught as the check stood (dead-operand fault kinds)",
 "agent5-C16": "caught as the check stood (character adjacency, added after round 3)",
 "agent5-C17": "strengthened: missed at first; failing builds with several files open (two files including each other, a cycle entered from outside, a failing line four files deep) added to the pool",
 "agent5-C18": "caught as the check stood",
 "agent6-C01": "strengthened: missed at first; half of the operand-path cases stand behind a `.db` string whose byte count is not its character count (multi-byte characters) or that holds backslash sequences (shared pool gen/ir.rs HOSTILE_STRINGS)",
 "agent6-C02": "strengthened: missed at first; the `.db` strings of the layout programs also draw from HOSTILE_STRINGS (`a\\x41b`, `23\\xDFC`, a trailing backslash, colons, comment openers)",
 "agent6-C03": "strengthened: missed at first; rjmp/rcall/brne at the last and first words of every flash size of the table and of the 4 Mi-word default with the target on the other side of the edge (d = 0, 1, largest that fits, one more; as pc±k, as a number, through an .equ)",
 "agent6-C04": "strengthened: missed at first; every boundary number also written as a computed expression of the same value - 12 shapes, the complement `~k` among them - directly and through a macro argument",
 "agent6-C05": "strengthened: missed at first; every case also reaches its `.dq` through an `.equ` and a `.set` symbol and with offsets `name+a-b`",
 "agent6-C06": "strengthened: missed at first; `.db` lines with strings from HOSTILE_STRINGS inside macros that take arguments (the line is re-read after substitution), against the same line written directly and the bytes computed by hand",
 "agent6-C07": "caught as the check stood",
 "agent6-C08": "strengthened: missed at first; a third of the conditional directive lines (selected, skipped, nested in skipped text) carry a trailing comment with a colon, a quote, a directive name or a backslash; conditions compare the character literals ':' ';' '\"' '#'",
 "agent6-C09": "strengthened: the omitted-argument probe list now covers the places where a line still reads well when the parameter vanishes (only operand of .db/.dw/.dd, pasted into a label or symbol, only argument of an inner call, lpm/elpm/spm)",
 "agent6-C10": "strengthened: missed at first; programs now hold `.org` pieces in .dseg/.eseg that hold nothing but .set/.def/.undef lines, followed by code that uses those names and a later return to that segment without an origin",
 "agent6-C11": "strengthened: missed at first; files hold macros that are defined and never called whose body contains `.exit` (stored text, not lines of the file)",
 "agent6-C12": "caught as the check stood (device selected inside a nested macro)",
 "agent6-C13": "strengthened: missed at first; the whole-program sequences select their device in one of 7 ways (the line itself, body of a macro / nested macro / macro taking the name as argument, selected branch)",
 "agent6-C14": "strengthened: missed at first; the symbol programs use lds/sts with the bare name of an EEPROM label (letter case of the reference is then varied by the respelling)",
 "agent6-C15": "strengthened: missed at first (build_str only before); every message program is also built from a main file plus an included file, both beginning with 0-3 blank lines: every message arrives in source order with the line number of the file it stands in",
 "agent6-C16": "caught as the check stood (doubling ladders through functions)",
 "agent6-C17": "strengthened: missed at first; 4 (thorough 16) threads build four big programs at the same time (600 calls of a 512-line macro with 31 arguments, an 18-rung .equ ladder, 20000 symbols, 100 nested macros) against the same builds done alone: a budget or counter shared by the builds of a process only shows when big builds overlap",
 "agent6-C18": "strengthened: missed at first; new source placement LINK - the path given with -s is a symbolic link to a file in another directory, with a different include of the same name next to the link's target",
 "agent7-C01": "strengthened: missed by C01 at first (C05 caught it); macro arguments in the operand-path slice are computed expressions whose grouping matters (`v+6-(10-4)`, `2v/(8/4)`, `v*(7/4)`)",
 "agent7-C02": "strengthened: missed at first; in the via-macro variants the `.device` line itself may move into a macro (the part is then only known once macros are expanded)",
 "agent7-C03": "strengthened: missed at first; the branch as the last line of a file (label with a one-character-shorter namesake, two-digit pc offset) with and without a final line end, LF and CRLF, and in files holding non-UTF-8 bytes or a byte order mark (refused or built right)",
 "agent7-C04": "strengthened: the right-grouped shapes of the computed-expression paths (`a-(b-c)`, `a/(b/c)`, `a>>(b>>c)`, `a-(b+c)`) through a macro argument",
 "agent7-C05": "strengthened: missed at first; character literals of every code 1..0x24f and of 18 wide ones (controls, every kind of blank, wide characters) alone, in a sum and in a comparison",
 "agent7-C06": "strengthened: missed at first; literals of 2^63 and more in every radix reaching .db/.dw/.dd directly, through .equ, through a macro argument and inside an expression (must fail)",
 "agent7-C07": "caught as the check stood (per-device pipeline writes both files for parts without EEPROM)",
 "agent7-C08": "strengthened: missed at first; `.exit` lines (also `#exit`, with a label, with a comment) among the hostile content of unselected branches",
 "agent7-C09": "strengthened: missed at first; every valid macro program once more with a random run of its top-level lines moved into an included file (calls before their definition across the file boundary) built through build_file",
 "agent7-C10": "strengthened: missed at first; a third of the programs select ATmega128 and a quarter of the aliases bear the names part files give to the pointer halves (xl..zh) on arbitrary registers",
 "agent7-C11": "strengthened: missed at first; one program in three holds 470 comment lines of multi-byte characters (140 KB), so that every block boundary of a reader falls into a character",
 "agent7-C12": "strengthened: missed at first; flash of every part up to 9000 words filled to capacity-1 / capacity / capacity+1 by nop, lds, sts and rjmp coming out of nested macro calls (lds/sts count one word on the reduced core)",
 "agent7-C13": "strengthened: missed at first; a third of the must-fail sequences name the part a second time (same part, another part, through a macro) - that alone fails the build and never un-selects the part",
 "agent7-C14": "caught after the comment pool got texts ending in a backslash",
 "agent7-C15": "strengthened: missed at first; every fault kind once more in a file that begins with blank lines and in an included file that begins with blank lines (the error names the line counted in its file)",
 "agent7-C16": "caught as the check stood (sizes of 2^32 and more)",
 "agent7-C17": "strengthened: missed at first; the pool holds programs that define one name several times in different spellings (macro redefined in another letter case, under .ifdef, three times; .set/.def/#define in several spellings)",
 "agent10-C01": "caught as the check stood (the location counter in mixed letter case in the relative forms)",
 "agent10-C02": "strengthened before it was confirmed: half of the backward-`.org` negatives have only a label behind the origin, a look at another segment, and the item arriving later without an origin of its own",
 "agent10-C03": "strengthened before it was confirmed: every far-case target once more as a difference with pc on the right (`t + 2 - pc` at word 1 names the address `pc + t`), against the build of the plain spelling",
 "agent10-C04": "strengthened before it was confirmed: two more computed shapes, `lwrd(v)` and `HWRD(v << 16)`, which leave the value as it is",
 "agent10-C05": "strengthened before it was confirmed: a label behind code, pc, .equ and .set symbols plus / minus / times a number that takes the result out of 64 bits (must fail, on either side of the operator)",
 "agent10-C06": "strengthened before it was confirmed: -2^63 (only reachable as a computed value: `1 << 63`, `~0x7fff...`, `-9223372036854775807 - 1`, through an .equ) in .db/.dw/.dd (must fail) and .dq (stored)",
 "agent10-C07": "caught as the check stood (one object patched in place, same lengths, other contents, images of 64 KiB and more)",
 "agent10-C08": "strengthened before it was confirmed: 100 to 70000 conditional blocks open at once inside skipped text, four kinds of opener, lines between the inner `.endif`s, `.else` of every third inner block, the outer `.else` behind them",
 "agent10-C09": "strengthened before it was confirmed: three probes of parameters that are only mentioned in a `;`, `//` or `/* */` comment of the body and not supplied by the call (props/variants.rs' respelling caught it as well)",
 "agent10-C10": "strengthened before it was confirmed: under a selected part a quarter of the code labels bear names the part files use for their figures (ramend, flashend, sram_start, e2end, pagesize ...)",
 "agent10-C11": "strengthened before it was confirmed: chains whose taken branch is followed by `.elif` arms (and an `.else`), which the splitter may leave as the last lines of a file",
 "agent10-C12": "strengthened before it was confirmed: every name one grade letter, one digit or one prefix away from a table name that is not itself in the table (about 900), directly and as a macro argument: unknown",
 "agent10-C13": "strengthened before it was confirmed: programs of nothing but lacking instructions, 2 to 65536 of them on the 64 Ki-word parts",
 "agent10-C14": "strengthened before it was confirmed: for every third program an `.ifdef` / `.ifndef` / `#ifdef` / `#ifndef` on one of its `.equ` / `.set` names or labels in four spellings: whatever such a test means, it means the same in every letter case",
 "agent10-C15": "strengthened before it was confirmed: the same `.message` / `.warning` 2 to 1000 times in a row (macro called again, line repeated, macro with an argument in between, file included again): every one is in the list with its line",
 "agent10-C16": "caught as the check stood (character adjacency: multi-byte characters behind `@` in macro bodies called with arguments, added after round 3)",
 "agent10-C17": "strengthened before it was confirmed: seven file programs that include a part file naming a part the table lacks but several table names begin (ATmega88PA, ATmega168PA, ...) and use what differs between the candidates",
 "agent10-C18": "strengthened before it was confirmed: sources whose EEPROM (and flash) data looks erased - aligned runs of sixteen 0xFF bytes - through every option set",
 "agent9-C01": "strengthened before it was confirmed: one number in twelve of the instruction sweep is written as the character literal with that code (controls, blanks and Latin-1 included)",
 "agent9-C02": "strengthened: missed at first; on a third of the excursions the other segment gets an origin as well and is left again at once, so that two origins of different segments wait for their first item at the same time",
 "agent9-C03": "strengthened: branch targets named like a #define that was ended again by #undef / .undef in the same or another letter case: the build fails, or the branch reaches the label - never the 0 of the #define",
 "agent9-C04": "strengthened: missed at first; seven instructions each used twice with one symbol that is in range at the first use and out of range at the second (reads pc directly, through one or two other .equ symbols, through one defined later, inside a function; or a .set assigned again): must fail",
 "agent9-C05": "caught as the check stood (functions over the boundary grid: exp2(2^32))",
 "agent9-C06": "strengthened before it was confirmed: the data-in-.dseg fault also as directives that hold nothing (`.db \"\"`, `.db \"\", \"\"`, bare `.db` / `.dw` / `.dd` / `.dq`, with and without a label)",
 "agent9-C07": "caught as the check stood (alternating writers on one path) and by the new shrinking-rewrites leg (one path rewritten 12 times with images that shrink and grow)",
 "agent9-C08": "caught as the check stood (optional parameters in unselected branches, added after round 5)",
 "agent9-C09": "caught by props/variants.rs (program as a file without a final line end)",
 "agent9-C10": "caught as the check stood (duplicate of a data / EEPROM label in the code segment)",
 "agent9-C11": "strengthened before it was confirmed: four fixed trees with a file that is included again while its first inclusion is still open (itself two and three times, once and again from the main file, through another file), ended by conditions on symbols",
 "agent9-C12": "strengthened: missed at first; second selections where both come out of macro expansions (one selector macro called twice, nested board macros, same part twice), first or second through a macro, in two taken branches",
 "agent9-C13": "strengthened: missed at first; every forbidden form that has an allowed sibling of the same mnemonic also out of a macro whose body line is the mnemonic with its operands as parameters, after 1-3 calls with the sibling's operands",
 "agent9-C14": "caught as the check stood (radix respelling of .equ values)",
 "agent9-C15": "strengthened before it was confirmed: six fault kinds also with names of a thousand and more characters",
 "agent9-C16": "strengthened: missed at first (the argument of the first version of the case did not parse); macro body lines that grow past 64 KiB and hold 2-, 3- and 4-byte characters at six alignments",
 "agent9-C17": "caught as the check stood (.set in several spellings, added after round 7)",
 "agent9-C18": "strengthened before it was confirmed: the tool under a file size limit (signal ignored) with images of 80 KB to 1 MiB: a write that stops half way is a failure, never status 0 with a truncated file",
 "agent8-C01": "strengthened: last-word slice - every form in the last one or two words of the flash of the smallest and the largest part that has it",
 "agent8-C02": "strengthened: missed at first; a device-less program that has one gap of more than 64 Ki words often gets a second and a third, sized after the image that exists already (its length, half of it, one and a half times it)",
 "agent8-C03": "strengthened: missed at first; targets written as sums and products of literals that do not fit 64 bits but would lie next to the instruction modulo 2^64 - on the line, through .equ (before and behind the use), through .set, as macro argument, as offset to pc (must fail)",
 "agent8-C04": "strengthened: missed at first; every must-reject line of the respelled subset once more with what makes it unencodable behind a mid-line block comment (`0 /* base */ + 64`, `r1 /* rest */ , r2`): refused one way or the other, never assembled from what stands in front of the comment",
 "agent8-C05": "caught as the check stood (character literals of every code 1..0x24f, added after round 7)",
 "agent8-C06": "strengthened: missed at first; positions of code, data and EEPROM labels around 0xff/0x100, 0xffff/0x10000 and at 0x1f000 as operands of .db/.dw/.dd (bare, other case, in a sum, in parentheses, minus one; table before and behind the label; no device, ATmega2560, ATmega128)",
 "agent8-C07": "caught as the check stood (per-device pipeline: full ATmega128 / ATmega2560 images)",
 "agent8-C08": "strengthened: missed at first; one conditional directive line in seven is indented by 90-290 blanks or tabs, every fifth label in front of a directive is 180 characters long",
 "agent8-C09": "strengthened: missed at first; four probes of macros that are entered again while they are being expanded, with the very same arguments, behind #define guards (mutual, self, ring of three) and counting down through an .equ",
 "agent8-C10": "strengthened: missed at first; one program in three begins with `.set` lines that read pc (and a `.def`), followed by `.org`; half of those once more as `.org A` / `.set m = pc` / `.org B`",
 "agent8-C11": "strengthened: missed at first; a third of the plain `.include` lines carry a label on the same line (in the flattened program it stands on its own line in front of the pasted lines), all referenced from a table at the end of the main file",
 "agent8-C12": "caught as the check stood (flash filled by instructions out of macro calls, added after round 7)",
 "agent8-C13": "strengthened: missed at first; every other line of the device x form sweep, a third of the lines of the allowed programs and half of the forbidden lines of the must-fail programs carry a label on the same line",
 "agent8-C14": "caught as the check stood (comment texts with `@0` on `.endm` lines)",
 "agent8-C15": "strengthened: missed at first; new fault kind: a label of the program (defined before or behind the line) in `.if` / `.org`, where it has no value yet - the line named must be the directive's",
 "agent8-C16": "caught as the check stood (recursion behind segment switches, added after round 2)",
 "agent8-C17": "strengthened: missed at first; pool programs that `.undef` / `#undef` a name that is #defined or .def-ed in several spellings",
 "agent8-C18": "strengthened before it was confirmed: output names that look alike but are two files (letter case, trailing blank, composed vs decomposed é, `x/same.hex` vs `same.hex`) must both be written",
 "agent7-C18": "strengthened: missed at first; failing sources whose own texts say `warning:` / `info: ... 0 errors` (.error text, name of a missing include, an undefined symbol named warning) and a building source whose messages say `Failed to` / `error:`",
}
for f in sorted(glob.glob(f"{ROOT}/seeded/*/meta.json")):
    m = json.load(open(f))
    sid = f.split("/")[-2]
    checks = m.get("my_checks", {})
    caught = "; ".join("%s exit %s: %s" % (k, v.get("exit"), ", ".join(v.get("signatures", [])[:2])) for k, v in checks.items())
    summ = (m.get("summary", "")[:170] + "…").replace("\n", " ").replace("|", "/")
    need = (m.get("needs_to_manifest", "")[:150] + "…").replace("\n", " ").replace("|", "/")
    d += f"| {sid} | {m.get('property')} | {summ} **Needs:** {need} | {caught} | {notes_strength.get(sid, m.get('strengthened_note', ''))} |\n"
d += "\nNot kept: the fourth-round change for C10 made `pc` evaluate to 0 inside `.dseg` (`.dseg` / `.set base = pc`). Its demo was confirmed, but what `pc` means in a data segment is stated neither by C10 nor by the AVR assembler manual (PC is the program memory counter there), and the pinned tree itself does not advance `pc` past `.byte` in `.dseg`; a check for it would demand more than the property states, so the change was not kept as a C10 break. Baseline observations that the fourth-round agents recorded are in the `baseline_observations` of `seeded/agent4-*/meta.json`; section 7 says what became of each.\n"
d += "\n### B.2 Own seeded breaks (`selftest/mutants.py run`) and benign edits (`selftest/mutants.py benign`)\n\n| mutant | property | edit | suite green | result | first signatures |\n|---|---|---|---|---|---|\n"
for r in res:
    if "mutant" in r:
        d += f"| {r['mutant']} | {r['property']} | {r['what']} | {r.get('suite_green')} | {r['status'][:60]} | {', '.join(r.get('signatures', [])[:2])} |\n"
d += "\nEdits the existing suite already catches are not valid seeded breaks and are listed only for completeness. Benign edits (all quick checks must stay silent):\n\n| edit | what | result |\n|---|---|---|\n"
for r in res:
    if "benign" in r:
        d += f"| {r['benign']} | {r['what']} | {r['status']} {json.dumps(r.get('alarms')) if r.get('alarms') else ''} |\n"
open(f"{ROOT}/DESIGN.md", "w").write(d)
# RESULTS.md
with open(f"{ROOT}/selftest/RESULTS.md", "w") as o:
    det = sum(1 for r in res if r.get("status") == "DETECTED"); mis = sum(1 for r in res if r.get("status") == "MISSED")
    o.write(f"# Self-test results\n\nOwn mutants: {det} detected, {mis} missed, {sum(1 for r in res if 'mutant' in r and r.get('suite_green') is False)} discarded (existing suite catches them). Benign edits: {sum(1 for r in res if r.get('status')=='SILENT')} silent, {sum(1 for r in res if r.get('status')=='FALSE-ALARM')} false alarms.\nSub-agent seeded changes kept: {len(glob.glob(ROOT+'/seeded/*/meta.json'))}. Details: DESIGN.md appendix B; raw records: RESULTS.jsonl.\n")
print("DESIGN.md appendices regenerated;", len(fixes), "fix commits")
