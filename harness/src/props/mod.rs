//! One module per property: workload + oracle + evidence.

use crate::fw::{self, Ctx};
use crate::refmodel::isa;
use serde_json::Value;

pub mod c01;
pub mod c02;
pub mod c03;
pub mod c04;
pub mod c05;
pub mod c06;
pub mod c07;
pub mod c08;
pub mod c09;
pub mod c10;
pub mod c11;
pub mod c12;
pub mod c13;
pub mod c14;
pub mod c15;
pub mod c16;
pub mod c16legs;
pub mod c17;
pub mod c18;
pub mod variants;

/// generator entry points shared with C14
pub fn c06gen(rng: &mut crate::fw::Rng) -> Vec<crate::gen::ir::Node> {
    c06::gen_nodes(rng)
}
pub fn c08gen(rng: &mut crate::fw::Rng) -> Vec<crate::gen::ir::Node> {
    c08::random_nodes(rng)
}

pub fn run(ctx: &Ctx) -> i32 {
    fw::start_watchdog(&ctx.prop, match ctx.tier { fw::Tier::Quick => 1500, fw::Tier::Thorough => 6 * 3600 });
    match ctx.prop.as_str() {
        "C01" => c01::run(ctx),
        "C02" => c02::run(ctx),
        "C03" => c03::run(ctx),
        "C04" => c04::run(ctx),
        "C05" => c05::run(ctx),
        "C06" => c06::run(ctx),
        "C07" => c07::run(ctx),
        "C08" => c08::run(ctx),
        "C09" => c09::run(ctx),
        "C10" => c10::run(ctx),
        "C11" => c11::run(ctx),
        "C12" => c12::run(ctx),
        "C13" => c13::run(ctx),
        "C14" => c14::run(ctx),
        "C15" => c15::run(ctx),
        "C16" => c16::run(ctx),
        "C17" => c17::run(ctx),
        "C18" => c18::run(ctx),
        other => {
            eprintln!("unknown property {}", other);
            2
        }
    }
}

/// Re-run exactly the recorded case through the same oracle; exit 1 if it still violates.
pub fn replay(ctx: &Ctx, v: &Value) -> i32 {
    let case = &v["case"];
    match ctx.prop.as_str() {
        "C01" => c01::replay(ctx, case),
        "C02" => c02::replay(ctx, case),
        "C03" => c03::replay(ctx, case),
        "C04" => c04::replay(ctx, case),
        "C05" => c05::replay(ctx, case),
        "C06" => c06::replay(ctx, case),
        "C07" => c07::replay(ctx, case),
        "C08" => c08::replay(ctx, case),
        "C09" => c09::replay(ctx, case),
        "C10" => c10::replay(ctx, case),
        "C11" => c11::replay(ctx, case),
        "C12" => c12::replay(ctx, case),
        "C13" => c13::replay(ctx, case),
        "C14" => c14::replay(ctx, case),
        "C15" => c15::replay(ctx, case),
        "C16" => c16::replay(ctx, case),
        "C17" => c17::replay(ctx, case),
        "C18" => c18::replay(ctx, case),
        other => {
            eprintln!("unknown property {}", other);
            2
        }
    }
}

pub fn selfcheck() -> i32 {
    match isa::selfcheck() {
        Ok(n) => println!("isa selfcheck: decode(encode(x)) canonical for {} tuples", n),
        Err(e) => {
            println!("HARNESS-FAILURE {}", e);
            return 2;
        }
    }
    match crate::refmodel::expr::selfcheck() {
        Ok(n) => println!("expr model selfcheck: {} pinned render/eval cases", n),
        Err(e) => {
            println!("HARNESS-FAILURE {}", e);
            return 2;
        }
    }
    match crate::refmodel::ihex::selfcheck() {
        Ok(n) => println!("ihex reader selfcheck: {} hand-made files classified correctly", n),
        Err(e) => {
            println!("HARNESS-FAILURE {}", e);
            return 2;
        }
    }
    0
}

pub fn worker(args: &[String]) -> i32 {
    crate::monitor::worker::worker_main(args)
}
