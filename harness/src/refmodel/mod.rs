pub mod devices;
pub mod isa;
pub mod llvm;
