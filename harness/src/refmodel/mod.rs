pub mod devices;
pub mod expr;
pub mod ihex;
pub mod isa;
pub mod llvm;
