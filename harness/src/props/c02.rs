//! C02 — label values and .org positions equal where the bytes really land.
//!
//! Random layout programs (interleaved segments, both instruction lengths, odd/even .db, word
//! data, reservations, forward .org, several devices). Oracle (a): full equality of both images,
//! RAM extent and sizes with the reference layout; labels are made visible through `.dd label`
//! tables. Oracle (b): hook trace — every pass-1 size equals the pass-2 emission, every label
//! event equals the reference label value (also for labels nobody references).

use crate::fw::{self, Ctx, Outcome, Rng};
use crate::gen::ir::{self, DataOp, Names, Node, Opnd, Seg};
use crate::refmodel::expr::E;
use crate::refmodel::layout::{self, FailKind, RefErr, RefOut};
use avra_lib::parser::SegmentType;
use avra_lib::verif::{self, Event};
use serde_json::{json, Value};

pub struct Gen<'a> {
    pub rng: &'a mut Rng,
    pub names: Names,
    pub uid: u32,
    pub device: Option<&'static str>,
    pub reduced: bool,
    pub has_jmp: bool,
    pub has_eeprom: bool,
    pub ram_budget: u32,
    pub labels: Vec<String>,
}

pub const DEVICES: [(Option<&str>, bool, bool, bool, u32); 7] = [
    (None, false, true, true, 4000),
    (Some("ATmega8"), false, false, true, 900),
    (Some("ATmega128"), false, true, true, 3000),
    (Some("ATmega1280"), false, true, true, 6000),
    (Some("ATtiny20"), true, false, false, 100),
    (Some("ATmega48"), false, false, true, 400),
    (Some("ATmega16"), false, true, true, 900),
];

impl<'a> Gen<'a> {
    pub fn new(rng: &'a mut Rng) -> Gen<'a> {
        let d = DEVICES[rng.usize(DEVICES.len())];
        Gen { rng, names: Names::new(), uid: 0, device: d.0, reduced: d.1, has_jmp: d.2, has_eeprom: d.3, ram_budget: d.4, labels: vec![] }
    }
    fn next_uid(&mut self) -> u32 {
        self.uid += 1;
        self.uid
    }
    fn maybe_label(&mut self) -> Option<String> {
        if self.rng.chance(1, 3) {
            let l = self.names.fresh("lbl", self.rng);
            self.labels.push(l.clone());
            Some(l)
        } else {
            None
        }
    }
    fn lit(&mut self, v: i64) -> E {
        E::Lit(v, if self.rng.chance(1, 3) { 1 } else { 0 })
    }
    /// one emitting item for the given segment, contents derived from a unique id
    pub fn item(&mut self, seg: Seg) -> Node {
        let id = self.next_uid() as i64;
        let label = self.maybe_label();
        match seg {
            Seg::Code => match self.rng.below(10) {
                0 | 1 => Node::Instr { label, form: crate::refmodel::isa::form_index("ldi"), ops: vec![Opnd::Reg(16 + (id % 16) as u8), Opnd::Expr(self.lit(id % 256))] },
                2 => {
                    // two-word instruction (one-word form on the reduced core)
                    if self.reduced {
                        Node::Instr { label, form: crate::refmodel::isa::form_index("lds:rc"), ops: vec![Opnd::Reg(16 + (id % 16) as u8), Opnd::Expr(self.lit(0x40 + id % 128))] }
                    } else if self.rng.chance(1, 2) {
                        Node::Instr { label, form: crate::refmodel::isa::form_index("lds"), ops: vec![Opnd::Reg((id % 32) as u8), Opnd::Expr(self.lit(0x100 + id))] }
                    } else {
                        Node::Instr { label, form: crate::refmodel::isa::form_index("sts"), ops: vec![Opnd::Expr(self.lit(0x200 + id)), Opnd::Reg((id % 32) as u8)] }
                    }
                }
                3 => {
                    if self.has_jmp {
                        let f = if self.rng.chance(1, 2) { "jmp" } else { "call" };
                        Node::Instr { label, form: crate::refmodel::isa::form_index(f), ops: vec![Opnd::Expr(self.lit(0x1000 + id))] }
                    } else {
                        Node::Instr { label, form: crate::refmodel::isa::form_index("mov"), ops: vec![Opnd::Reg((id % 32) as u8), Opnd::Reg(((id / 32) % 32) as u8)] }
                    }
                }
                4 | 5 => {
                    // .db with odd or even byte count, sometimes with a string
                    let n = 1 + self.rng.below(6) as i64;
                    let mut ops: Vec<DataOp> = (0..n).map(|k| DataOp::E(self.lit((id * 7 + k) % 256))).collect();
                    if self.rng.chance(1, 3) {
                        let mut s: String = (0..1 + self.rng.below(5)).map(|k| (b'a' + ((id + k as i64) % 26) as u8) as char).collect();
                        // strings whose byte count differs from their character count
                        if self.rng.chance(1, 3) {
                            let at = self.rng.usize(s.len() + 1);
                            s.insert_str(at, *self.rng.pick(&["µ", "é", "°", "日本", "ß", "€"]));
                        } else if self.rng.chance(1, 2) {
                            // what a careless reader of strings would take for an escape, a comment, a label
                            let at = self.rng.usize(s.len() + 1);
                            s.insert_str(at, crate::gen::ir::hostile_string(&mut self.rng, true));
                        }
                        let pos = self.rng.usize(ops.len() + 1);
                        ops.insert(pos, DataOp::S(s));
                    }
                    Node::Data { label, width: 1, ops }
                }
                6 => Node::Data { label, width: 2, ops: (0..1 + self.rng.below(3) as i64).map(|k| DataOp::E(self.lit((id * 257 + k) % 65536))).collect() },
                7 => Node::Data { label, width: 4, ops: (0..1 + self.rng.below(2) as i64).map(|k| DataOp::E(self.lit(id * 65537 + k))).collect() },
                8 => Node::Data { label, width: 8, ops: vec![DataOp::E(self.lit(id * 4294967311))] },
                _ => {
                    // label table entry: the value of some label (any segment), forward references included
                    self.label_ref(label)
                }
            },
            Seg::Eeprom => match self.rng.below(7) {
                0 | 1 => {
                    let n = 1 + self.rng.below(5) as i64;
                    Node::Data { label, width: 1, ops: (0..n).map(|k| DataOp::E(self.lit((id * 11 + k) % 256))).collect() }
                }
                2 => Node::Data { label, width: 2, ops: vec![DataOp::E(self.lit((id * 259) % 65536))] },
                3 => Node::Data { label, width: 4, ops: vec![DataOp::E(self.lit(id * 65539))] },
                4 => Node::Data { label, width: 8, ops: vec![DataOp::E(self.lit(id * 4294967357))] },
                5 => Node::Reserve { label, n: self.lit(1 + id % 9) },
                _ => self.label_ref(label),
            },
            Seg::Data => {
                let n = 1 + self.rng.below(12) as i64;
                Node::Reserve { label, n: self.lit(n) }
            }
        }
    }
    fn label_ref(&mut self, label: Option<String>) -> Node {
        // placeholder symbol, patched after generation to a label that exists (forward refs allowed)
        Node::Data { label, width: 4, ops: vec![DataOp::E(E::Sym("@@label".to_string()))] }
    }
}

fn patch_label_refs(nodes: &mut [Node], labels: &[String], rng: &mut Rng) {
    for n in nodes.iter_mut() {
        if let Node::Data { ops, .. } = n {
            for o in ops.iter_mut() {
                if let DataOp::E(E::Sym(s)) = o {
                    if s == "@@label" {
                        if labels.is_empty() {
                            *o = DataOp::E(E::Lit(0x5a5a, 0));
                        } else {
                            let l = rng.pick(labels).clone();
                            *o = DataOp::E(E::Sym(crate::gen::spell::case(&l, rng)));
                        }
                    }
                }
            }
        }
    }
}

pub struct Prog {
    pub nodes: Vec<Node>,
    pub negative: Option<&'static str>,
}

/// A layout program. Tracks approximate counters so that `.org` operands are forward.
pub fn gen_program(rng: &mut Rng, max_items: usize) -> Prog {
    let mut g = Gen::new(rng);
    let mut nodes = vec![Node::Comment("C02 layout program".into())];
    if let Some(d) = g.device {
        nodes.push(Node::Device(d.to_string()));
    }
    let ram_start: u32 = match g.device {
        None => 0x60,
        Some(d) => avra_lib::device::DEVICES[d].ram_start,
    };
    // counters mirrored from the IR the same way the reference does (sizes only)
    let mut cnt = [0u32, ram_start, 0u32];
    let idx = |s: Seg| match s {
        Seg::Code => 0,
        Seg::Data => 1,
        Seg::Eeprom => 2,
    };
    let mut seg = Seg::Code;
    let n_items = 1 + g.rng.usize(max_items);
    let mut ram_used = 0u32;
    let negative = if g.rng.chance(1, 12) { Some("org-backward") } else { None };
    let mut neg_done = false;
    let mut big_gaps = 0u32;
    let mut waiting = [false; 3];
    for i in 0..n_items {
        // segment switch
        if g.rng.chance(1, 4) {
            let mut choices = vec![Seg::Code, Seg::Data];
            if g.has_eeprom {
                choices.push(Seg::Eeprom);
            }
            seg = *g.rng.pick(&choices);
            nodes.push(Node::Seg(seg));
        }
        if seg == Seg::Data && ram_used + 12 > g.ram_budget {
            seg = Seg::Code;
            nodes.push(Node::Seg(seg));
        }
        // forward .org (always directly followed by an item of the same segment)
        if g.rng.chance(1, 6) {
            let cur = cnt[idx(seg)];
            let gap = match g.rng.below(5) {
                0 => 0, // .org to the current position
                1 => 1,
                // now and then a gap of more than 64 Ki words in flash (no device: 4 Mi words) - once per program
                2 if seg == Seg::Code && g.device.is_none() && big_gaps < 3 && g.rng.chance(1, if big_gaps == 0 { 6 } else { 2 }) => {
                    // (a program that has one such gap often gets a second and a third: gaps behind an image that
                    // is long already, of its length, half of it, one and a half times it)
                    big_gaps += 1;
                    let long = if big_gaps > 1 && cur > 0x10000 { *g.rng.pick(&[cur, cur / 2, cur - 0x10000, cur + cur / 2, 0x10000]) } else { 0 };
                    (*g.rng.pick(&[0xffffu32, 0x10000, 0x10001, 0x18000, 0x20000, 0x2ffff])).max(long.min(0x80000)) + g.rng.below(3) as u32
                }
                _ => 1 + g.rng.below(if seg == Seg::Data { 6 } else { 40 }) as u32,
            };
            let target = cur + gap;
            if target != 0 && !(seg == Seg::Data && ram_used + gap + 12 > g.ram_budget) {
                if negative.is_some() && !neg_done && cur > 2 && i > n_items / 2 && !waiting[idx(seg)] {
                    // .org below the current position (but above zero): must be an error
                    let back = 1 + g.rng.below((cur - 1).min(20) as u64) as u32;
                    let t = cur - back;
                    if t > 0 && !(seg == Seg::Data && t < ram_start) || (seg == Seg::Data && t > 0) {
                        nodes.push(Node::Org(g.lit(t as i64)));
                        neg_done = true;
                        // (half of the time only a label stands behind the backward origin, something else is looked at,
                        // and the item arrives later, without an origin of its own: refused all the same)
                        if g.rng.chance(1, 2) {
                            let l = g.names.fresh("lbl", g.rng);
                            nodes.push(Node::Label(l));
                            let other = if seg == Seg::Code { Seg::Data } else { Seg::Code };
                            nodes.push(Node::Seg(other));
                            let it = g.item(other);
                            nodes.push(it);
                            nodes.push(Node::Seg(seg));
                        }
                        let it = g.item(seg);
                        nodes.push(it);
                        break;
                    }
                } else {
                    nodes.push(Node::Org(g.lit(target as i64)));
                    cnt[idx(seg)] = target;
                    if seg == Seg::Data {
                        ram_used += gap;
                    }
                    // sometimes the assembler looks at another segment before the first item arrives at the
                    // new origin: the origin is that of this segment, and it waits
                    if g.rng.chance(1, 3) {
                        let other = *g.rng.pick(&[Seg::Code, Seg::Data, Seg::Eeprom]);
                        nodes.push(Node::Seg(other));
                        if g.rng.chance(1, 2) {
                            let l = g.names.fresh("lbl", g.rng);
                            g.labels.push(l.clone());
                            nodes.push(Node::Label(l));
                        }
                        // now and then the other segment gets an origin as well and is left again at once: two
                        // origins of different segments wait for their first item at the same time
                        if other != seg && !(other == Seg::Eeprom && !g.has_eeprom) && g.rng.chance(1, 3) {
                            let ocur = cnt[idx(other)];
                            let ogap = 1 + g.rng.below(if other == Seg::Data { 4 } else { 30 }) as u32;
                            if !(other == Seg::Data && ram_used + ogap + 12 > g.ram_budget) {
                                nodes.push(Node::Org(g.lit((ocur + ogap) as i64)));
                                cnt[idx(other)] = ocur + ogap;
                                waiting[idx(other)] = true;
                                if other == Seg::Data {
                                    ram_used += ogap;
                                }
                            }
                        }
                        if g.rng.chance(1, 3) {
                            nodes.push(Node::Seg(*g.rng.pick(&[Seg::Code, Seg::Data, Seg::Eeprom])));
                        }
                        nodes.push(Node::Seg(seg));
                    }
                }
            }
        }
        // sometimes a label on its own line
        if g.rng.chance(1, 8) {
            let l = g.names.fresh("lbl", g.rng);
            g.labels.push(l.clone());
            nodes.push(Node::Label(l));
        }
        let it = g.item(seg);
        // mirror the size
        let size = match &it {
            Node::Instr { form, .. } => crate::refmodel::isa::forms()[*form].words() as u32,
            Node::Data { width, ops, .. } => {
                let n: usize = ops.iter().map(|o| match o { DataOp::E(_) => *width as usize, DataOp::S(s) => s.len() }).sum();
                if seg == Seg::Code { ((n + 1) / 2) as u32 } else { n as u32 }
            }
            Node::Reserve { n: E::Lit(v, _), .. } => *v as u32,
            _ => 0,
        };
        cnt[idx(seg)] += size;
        waiting[idx(seg)] = false;
        if seg == Seg::Data {
            ram_used += size;
        }
        nodes.push(it);
    }
    // an origin made on an excursion gets its item in the end (what an origin means behind which nothing is ever
    // placed is not stated anywhere)
    if negative.is_none() || !neg_done {
        for s2 in [Seg::Code, Seg::Data, Seg::Eeprom] {
            if waiting[idx(s2)] {
                nodes.push(Node::Seg(s2));
                let it = g.item(s2);
                nodes.push(it);
            }
        }
    }
    let labels = g.labels.clone();
    patch_label_refs(&mut nodes, &labels, g.rng);
    Prog { nodes, negative: if neg_done { negative } else { None } }
}

fn seg_of(t: SegmentType) -> Seg {
    match t {
        SegmentType::Code => Seg::Code,
        SegmentType::Data => Seg::Data,
        SegmentType::Eeprom => Seg::Eeprom,
    }
}

/// Hook-trace oracle: pass-1 sizes vs pass-2 emissions; label events vs reference label values.
pub fn check_trace(events: &[Event], reference: Option<&RefOut>) -> Result<(usize, usize), String> {
    let mut sized = vec![];
    let mut emitted = vec![];
    let mut labels = vec![];
    for e in events {
        match e {
            Event::Sized { line, num, seg, addr, size } => sized.push((*line, *num, seg_of(*seg), *addr, *size)),
            Event::Emitted { line, num, seg, addr, nbytes, advance } => emitted.push((*line, *num, seg_of(*seg), *addr, *nbytes, *advance)),
            Event::Label { name, seg, addr, .. } => labels.push((name.clone(), seg_of(*seg), *addr)),
            _ => {}
        }
    }
    // every item that pass 1 sized in flash/EEPROM must be emitted by pass 2 at the same address with the same size
    let sized_ce: Vec<_> = sized.iter().filter(|s| s.2 != Seg::Data).collect();
    if sized_ce.len() != emitted.len() {
        return Err(format!("pass 1 sized {} flash/EEPROM items but pass 2 emitted {}", sized_ce.len(), emitted.len()));
    }
    for (s, e) in sized_ce.iter().zip(&emitted) {
        if (s.0, s.1, s.2) != (e.0, e.1, e.2) {
            return Err(format!("pass 1 and pass 2 disagree on item order: line {} vs line {}", s.0, e.0));
        }
        if s.3 != e.3 {
            return Err(format!("item at line {}: pass 1 placed it at {} but pass 2 emitted it at {}", s.0, s.3, e.3));
        }
        if s.4 != e.5 {
            return Err(format!("item at line {}: pass 1 reserved {} units, pass 2 advanced {}", s.0, s.4, e.5));
        }
        let unit = if s.2 == Seg::Code { 2 } else { 1 };
        if e.4 != (e.5 as usize) * unit {
            return Err(format!("item at line {}: emitted {} bytes but advanced {} units", s.0, e.4, e.5));
        }
    }
    if let Some(r) = reference {
        for (name, seg, addr) in &labels {
            match r.labels.get(&name.to_lowercase()) {
                Some((rs, ra)) => {
                    if rs != seg || ra != addr {
                        return Err(format!("label {} bound to {:?}:{} but the reference layout puts it at {:?}:{}", name, seg, addr, rs, ra));
                    }
                }
                None => return Err(format!("label {} bound but unknown to the reference", name)),
            }
        }
        if labels.len() != r.labels.len() {
            return Err(format!("{} label events, reference has {} labels", labels.len(), r.labels.len()));
        }
    }
    Ok((emitted.len(), labels.len()))
}

fn first_bad_item(r: &RefOut, code: &[u8], eeprom: &[u8], nodes: &[Node]) -> String {
    for (_, line, seg, addr, n) in &r.placed {
        let (img, refimg, off) = match seg {
            Seg::Code => (code, &r.code, *addr as usize * 2),
            Seg::Eeprom => (eeprom, &r.eeprom, *addr as usize),
            Seg::Data => continue,
        };
        let want = &refimg[off..off + n];
        let got = img.get(off..off + n);
        if got != Some(want) {
            let kind = node_kind_at_line(nodes, *line);
            return format!("{}/{}", seg.directive().trim_start_matches('.'), kind);
        }
    }
    "tail".to_string()
}

pub fn node_kind_at_line(nodes: &[Node], line: usize) -> String {
    // canonical printing: one line per primitive node (C02 programs have no compound nodes)
    match nodes.get(line - 1) {
        Some(Node::Instr { form, .. }) => format!("instr{}w", crate::refmodel::isa::forms()[*form].words()),
        Some(Node::Data { width, ops, .. }) => {
            let n: usize = ops.iter().map(|o| match o { DataOp::E(_) => *width as usize, DataOp::S(s) => s.len() }).sum();
            let is_ref = ops.iter().any(|o| matches!(o, DataOp::E(E::Sym(_))));
            if is_ref {
                "label-table".to_string()
            } else {
                match width {
                    1 => format!("db-{}", if n % 2 == 1 { "odd" } else { "even" }),
                    2 => "dw".into(),
                    4 => "dd".into(),
                    _ => "dq".into(),
                }
            }
        }
        Some(Node::Reserve { .. }) => "byte".into(),
        _ => "other".into(),
    }
}

pub fn check_program(ctx: &Ctx, nodes: &[Node], tag: &str) {
    let src = ir::print_canonical(nodes);
    let files = layout::single(nodes.to_vec());
    let reference = layout::assemble(&files);
    fw::hook_enable(verif::LAYOUT);
    let _ = verif::take();
    let out = fw::build_str(&src);
    let events = verif::take();
    fw::hook_enable(0);
    ctx.eval(1);
    let replay = |extra: Value| json!({"source": src, "tag": tag, "detail": extra, "observed": out.brief()});
    match (&reference, &out) {
        (Err(RefErr::Indeterminate(w)), _) => {
            ctx.count("reference_undecided", 1);
            let _ = w;
        }
        (_, Outcome::Panic(p)) => ctx.violation("layout/panic", format!("layout program panicked: {}", fw::clip(p, 160)), replay(json!(null))),
        (Ok(r), Outcome::Ok(b)) => {
            ctx.count("valid_programs_compared", 1);
            if b.code != r.code || b.eeprom != r.eeprom {
                let kind = first_bad_item(r, &b.code, &b.eeprom, nodes);
                ctx.violation(
                    format!("layout/image/{}", kind),
                    format!("image differs from the reference layout (first misplaced item: {}; code {} vs {} bytes, eeprom {} vs {} bytes)", kind, b.code.len(), r.code.len(), b.eeprom.len(), r.eeprom.len()),
                    replay(json!({"expect_code": fw::hex(&r.code, 4096), "expect_eeprom": fw::hex(&r.eeprom, 4096)})),
                );
            } else if b.ram_filling != r.ram_filling {
                ctx.violation("layout/ram-extent", format!("ram_filling {} but the data segment extends over {} bytes", b.ram_filling, r.ram_filling), replay(json!(null)));
            } else if (b.flash_size, b.eeprom_size, b.ram_size) != (r.flash_words, r.eeprom_size, r.ram_size) {
                ctx.violation("layout/sizes", "reported sizes differ from the selected device's".to_string(), replay(json!(null)));
            }
            match check_trace(&events, Some(r)) {
                Ok((items, labels)) => {
                    ctx.count("trace_items_checked", items as u64);
                    ctx.count("trace_labels_checked", labels as u64);
                }
                Err(e) => ctx.violation("layout/trace", format!("pass-1/pass-2 trace: {}", e), replay(json!(null))),
            }
            if b.code == r.code && b.eeprom == r.eeprom && b.ram_filling == r.ram_filling {
                crate::props::variants::check_one(ctx, nodes, b, &mut Rng::for_case(fw::hash_str(&src), 0x7A80, 0), "layout");
            }
        }
        (Ok(_), Outcome::Err(e)) => ctx.violation("layout/valid-program-rejected", format!("valid layout program rejected: {}", fw::clip(e, 160)), replay(json!(null))),
        (Err(RefErr::Fail(f)), Outcome::Ok(_)) => {
            let k = match &f.kind {
                FailKind::Overlap => "org-backward".to_string(),
                other => format!("{:?}", other).split('(').next().unwrap_or("").to_lowercase(),
            };
            ctx.violation(format!("layout/{}/accepted", k), format!("program that must fail ({:?} at line {}) was assembled", f.kind, f.line), replay(json!(null)));
        }
        (Err(RefErr::Fail(_)), Outcome::Err(_)) => ctx.count("negative_programs_rejected", 1),
    }
}

/// The same program with runs of its lines moved into argument-less macros must give the same images.
pub fn check_wrapped(ctx: &Ctx, nodes: &[Node], rng: &mut Rng, prefix: &str) {
    let wrapped = ir::wrap_in_macros(nodes, rng, 3);
    if wrapped == nodes {
        return;
    }
    let reference = layout::assemble(&layout::single(nodes.to_vec()));
    let Ok(r) = reference else { return };
    let src = ir::print_canonical(&wrapped);
    let out = fw::build_str(&src);
    ctx.eval(1);
    ctx.count("programs_rebuilt_with_runs_moved_into_macros", 1);
    // what does the first macro body start / end with? (signature)
    let shape = wrapped
        .iter()
        .find_map(|n| if let Node::MacroDef { body, .. } = n { Some(body) } else { None })
        .map(|b| {
            let first = match b.first() {
                Some(Node::Org(_)) => "starts-with-org",
                Some(Node::Seg(_)) => "starts-with-segment-switch",
                _ => "plain-start",
            };
            let last = match b.last() {
                Some(Node::Seg(_)) => "ends-with-segment-switch",
                Some(Node::Org(_)) => "ends-with-org",
                _ => "plain-end",
            };
            format!("{}+{}", first, last)
        })
        .unwrap_or_default();
    let ok = matches!(&out, Outcome::Ok(b) if b.code == r.code && b.eeprom == r.eeprom && b.ram_filling == r.ram_filling);
    if !ok {
        ctx.violation(
            format!("{}/via-macro/{}", prefix, shape),
            format!("program with runs of lines moved into macros differs from the same program written out: {}", fw::clip(&format!("{:?}", out.brief()), 200)),
            json!({"source": src, "tag": "valid", "detail": {"expect_code": fw::hex(&r.code, 4096), "expect_eeprom": fw::hex(&r.eeprom, 4096)}, "plain": ir::print_canonical(nodes)}),
        );
    }
}

/// Probes for behaviours the pre-survey flagged (each has its own signature).
fn probes(ctx: &Ctx) {
    // `.org 0` after code: cannot make the next item land at 0 -> must be an error like any backward .org
    let p1 = vec![Node::instr("nop", vec![]), Node::instr("nop", vec![]), Node::Org(E::Lit(0, 0)), Node::instr("ldi", vec![Opnd::Reg(16), Opnd::Expr(E::Lit(1, 0))])];
    let src = ir::print_canonical(&p1);
    let out = fw::build_str(&src);
    ctx.eval(1);
    if out.is_ok() {
        ctx.violation("layout/org/zero-after-code", "`.org 0` after two instructions is silently ignored (the next item lands at 2, not 0, and no error is raised)", json!({"source": src, "observed": out.brief()}));
    }
    // non-literal operands of .org / .byte
    for (sig, nodes) in [
        ("layout/org/non-literal", vec![Node::Equ("where".into(), E::Lit(8, 0)), Node::Org(E::Sym("where".into())), Node::instr("nop", vec![])]),
        ("layout/org/non-literal", vec![Node::Org(E::bin(crate::refmodel::expr::Bin::Add, E::Lit(4, 0), E::Lit(4, 0))), Node::instr("nop", vec![])]),
        (
            "layout/byte/non-literal",
            vec![Node::Equ("size".into(), E::Lit(5, 0)), Node::Seg(Seg::Data), Node::Reserve { label: Some("v1".into()), n: E::Sym("size".into()) }, Node::Reserve { label: Some("v2".into()), n: E::Lit(1, 0) }, Node::Seg(Seg::Code), Node::Data { label: None, width: 4, ops: vec![DataOp::E(E::Sym("v2".into()))] }],
        ),
        (
            "layout/org/leaks-across-segment-switch",
            vec![Node::Seg(Seg::Data), Node::Org(E::Lit(0x100, 0)), Node::Reserve { label: Some("v1".into()), n: E::Lit(1, 0) }, Node::Seg(Seg::Eeprom), Node::Org(E::Lit(0x10, 0)), Node::Data { label: None, width: 1, ops: vec![DataOp::E(E::Lit(1, 0))] }, Node::Seg(Seg::Code), Node::instr("nop", vec![])],
        ),
    ] {
        let src = ir::print_canonical(&nodes);
        let reference = layout::assemble(&layout::single(nodes.clone()));
        let out = fw::build_str(&src);
        ctx.eval(1);
        let ok = match (&reference, &out) {
            (Ok(r), Outcome::Ok(b)) => b.code == r.code && b.eeprom == r.eeprom && b.ram_filling == r.ram_filling,
            _ => false,
        };
        if !ok {
            let exp = reference.as_ref().map(|r| (fw::hex(&r.code, 64), r.ram_filling)).ok();
            ctx.violation(sig, format!("expected {:?}, observed {:?}", exp, out.brief()), json!({"source": src, "observed": out.brief()}));
        }
    }
    // a label on the `.org` line itself: the item that follows it lands at the new origin, and that is its value
    for (name, src, at, want) in [
        ("cseg", "\tnop\nlab: .org 0x4\n\tnop\n\t.dw lab\n", 10usize, 4u16),
        ("cseg-other-case-and-forward", "\t.dw LAB\n\tnop\nlab:\t.ORG 6\n\tnop\n".replace(".ORG", ".org").leak() as &str, 0, 6),
        ("eseg", ".eseg\n\t.db 1\ne: .org 5\n\t.db 2\n.cseg\n\t.dw e\n", 0, 5),
        ("dseg", ".dseg\n\t.byte 3\nd: .org 0x70\n\t.byte 1\n.cseg\n\t.dw d\n", 0, 0x70),
        ("in-macro-body", ".macro place\n\tnop\n@0: .org @1\n\tnop\n.endm\n\tplace here, 8\n\t.dw here\n", 18, 8),
        ("behind-an-empty-origin", ".org 2\nlab: .org 9\n\tnop\n\t.dw lab\n", 20, 9),
    ] {
        let out = fw::build_str(src);
        ctx.eval(1);
        ctx.count("label_on_org_line_probes", 1);
        let ok = matches!(&out, Outcome::Ok(b) if b.code.get(at..at + 2) == Some(&want.to_le_bytes()[..]));
        if !ok {
            ctx.violation(format!("layout/label-on-org-line/{}", name), format!("the label on the `.org` line should be 0x{:x}, where the next item lands: {}", want, fw::clip(&format!("{:?}", out.brief()), 160)), json!({"source": src, "label_on_org_line": true, "at": at, "want": want, "observed": out.brief()}));
        }
    }
    // `.org N` immediately followed by a segment switch must not leak N into the other segment
    let src = ".dseg\n.org 0x100\n.cseg\nldi r16, 1\n";
    let out = fw::build_str(src);
    ctx.eval(1);
    match &out {
        Outcome::Ok(b) if b.code == vec![0x01, 0xe0] => {}
        _ => ctx.violation("layout/org/leaks-across-segment-switch", "`.dseg/.org 0x100/.cseg` moves the code origin to 0x100".to_string(), json!({"source": src, "observed": out.brief()})),
    }
}

/// `.byte` with a size that is not a plain number, in both memories that can reserve. What the pinned tree
/// does (nothing reserved, nothing said - the listed finding) is told apart from a layout whose labels and
/// bytes disagree with each other, which is another failure.
fn byte_size_probes(ctx: &Ctx) {
    let sizes: Vec<(&str, &str, &str, &str)> = vec![
        // (name, definitions in front, size text, lines behind everything)
        ("equ", ".equ width = 3", "width", ""),
        ("set", ".set width = 3", "width", ""),
        ("set-assigned-twice", ".set width = 1\n.set width = 3", "width", ""),
        ("set-assigned-again-later", ".set width = 3", "width", ".set width = 5"),
        ("sum", "", "1+2", ""),
        ("parentheses", "", "(3)", ""),
        ("function", "", "low(3)", ""),
        ("product-of-equ", ".equ unit = 1", "3*unit", ""),
        ("equ-defined-later", "", "later", ".equ later = 3"),
    ];
    for (name, defs, size, tail) in sizes.iter() {
        for seg in [Seg::Eeprom, Seg::Data] {
            let marker = if seg == Seg::Eeprom { "mark: .db 0xa5" } else { "mark: .byte 1" };
            let src = format!(".dw mark - pad\n{}\n{}\npad: .byte {}\n{}\n{}\n", defs, seg.directive(), size, marker, tail);
            let out = fw::build_str(&src);
            ctx.eval(1);
            ctx.count("byte_size_probes", 1);
            let segname = seg.directive().trim_start_matches('.').to_string();
            let want_eeprom: Vec<u8> = if seg == Seg::Eeprom { vec![0, 0, 0, 0xa5] } else { vec![] };
            let replay = json!({"source": src, "byte_size_probe": name, "segment": segname, "observed": out.brief(), "detail": {"expect_code": fw::hex(&[3, 0], 4096), "expect_eeprom": fw::hex(&want_eeprom, 4096)}});
            match &out {
                // refusing what it cannot lay out is not a wrong layout
                Outcome::Err(_) => ctx.count("byte_size_probes_refused", 1),
                Outcome::Panic(p) => ctx.violation(format!("layout/byte/non-literal/panic/{}", segname), fw::clip(p, 160), replay),
                Outcome::Ok(b) => {
                    let (proper, nothing) = if seg == Seg::Eeprom {
                        (b.code == vec![3, 0] && b.eeprom == vec![0, 0, 0, 0xa5], b.code == vec![0, 0] && b.eeprom == vec![0xa5])
                    } else {
                        (b.code == vec![3, 0] && b.ram_filling == 4, b.code == vec![0, 0] && b.ram_filling == 1)
                    };
                    if proper {
                    } else if nothing {
                        ctx.violation("layout/byte/non-literal", format!("`.byte {}` ({}, {}) reserves nothing and raises no error", size, name, segname), replay);
                    } else {
                        ctx.violation(
                            format!("layout/byte/non-literal/label-and-image-disagree/{}", segname),
                            format!("`.byte {}` ({}, {}): the distance between the labels around it is {:?}, the memory holds {}", size, name, segname, b.code, if seg == Seg::Eeprom { fw::hex(&b.eeprom, 16) } else { format!("{} bytes", b.ram_filling) }),
                            replay,
                        );
                    }
                }
            }
        }
    }
}

pub fn run(ctx: &Ctx) -> i32 {
    byte_size_probes(ctx);
    let n = ctx.tier.pick(4_000u64, 3_000_000u64);
    fw::par_for(n, 64, |i| {
        let mut rng = Rng::for_case(ctx.seed, 0xC02, i);
        let p = gen_program(&mut rng, 60);
        ctx.distinct(skeleton_hash(&p.nodes));
        if i < 3 {
            ctx.sample(json!({"program": ir::print_canonical(&p.nodes).lines().collect::<Vec<_>>(), "negative": p.negative}));
        }
        check_program(ctx, &p.nodes, p.negative.unwrap_or("valid"));
        if p.negative.is_none() && i % 2 == 0 {
            check_wrapped(ctx, &p.nodes, &mut rng, "layout");
        }
    });
    probes(ctx);
    fw::finish(
        ctx,
        "random layout programs: 1-60 items over arbitrarily interleaved .cseg/.dseg/.eseg blocks, one/two-word instructions, .db with odd/even counts and strings, .dw/.dd/.dq, .byte in RAM and EEPROM, own-line and inline labels, `.dd label` tables referencing labels of all segments (forward and backward), forward `.org` (incl. to the current position), devices with RAM start 0x60/0x100/0x200/0x40 (reduced core) and none; 1 in 12 programs carries a backward `.org` (must fail); every second valid program is rebuilt with up to three runs of its lines moved into argument-less macros (bodies that start with .org or a segment switch, end with a segment switch, definition before or after the call) and must give the same images; plus fixed probes for `.org 0`, non-literal .org/.byte operands and .org directly before a segment switch; every valid program once more in one randomly chosen setting that means nothing (as a file beginning with blank lines / CRLF / no final line end; a run of top-level lines in an included file; inside a selected branch; followed by .exit and unread text; preceded by unused definitions; respelled; branch and included file at once) with the same images, sizes, RAM extent and message texts required (props/variants.rs; counters variants:*); distinct_nontrivial = distinct program skeletons (sequence of node kinds, segments and sizes)",
        &[
            "refmodel/layout.rs + isa.rs; device figures read from DEVICES (C12 checks them against vendor data)",
            "every generated .org is directly followed by an item of the same segment (what a pending .org means across a segment switch is not specified; probed separately)",
        ],
    )
}

pub fn skeleton_hash(nodes: &[Node]) -> u64 {
    let mut s = String::new();
    for n in nodes {
        s.push_str(&match n {
            Node::Seg(x) => format!("S{:?}", x),
            Node::Org(_) => "O".into(),
            Node::Label(_) => "L".into(),
            Node::Instr { form, label, .. } => format!("I{}{}", form, label.is_some() as u8),
            Node::Data { width, ops, label } => format!("D{}x{}{}", width, ops.len(), label.is_some() as u8),
            Node::Reserve { .. } => "R".into(),
            Node::Device(d) => format!("V{}", d),
            other => format!("{:?}", std::mem::discriminant(other)),
        });
    }
    fw::hash_str(&s)
}

pub fn replay(ctx: &Ctx, case: &Value) -> i32 {
    if case.get("variant").is_some() {
        return crate::props::variants::replay(ctx, case);
    }
    if case["label_on_org_line"].as_bool() == Some(true) {
        let out = fw::build_str(case["source"].as_str().unwrap_or(""));
        ctx.eval(1);
        ctx.distinct(1);
        ctx.distinct(2);
        let (at, want) = (case["at"].as_u64().unwrap_or(0) as usize, case["want"].as_u64().unwrap_or(0) as u16);
        if !matches!(&out, Outcome::Ok(b) if b.code.get(at..at + 2) == Some(&want.to_le_bytes()[..])) {
            ctx.violation("layout/replay", "the label on the .org line still has another value", case.clone());
        }
        return fw::finish(ctx, "replay", &[]);
    }
    // the stored program text is re-built and compared with the stored reference images
    let src = case["source"].as_str().unwrap_or("");
    let out = fw::build_str(src);
    ctx.eval(1);
    ctx.distinct(1);
    ctx.distinct(2);
    let d = &case["detail"];
    let still = match (&out, d["expect_code"].as_str()) {
        (Outcome::Ok(b), Some(ec)) => fw::hex(&b.code, 4096) != ec || Some(fw::hex(&b.eeprom, 4096).as_str()) != d["expect_eeprom"].as_str(),
        (Outcome::Ok(_), None) => case["tag"].as_str().map(|t| t != "valid").unwrap_or(true),
        (Outcome::Err(_), _) => case["tag"].as_str() == Some("valid"),
        (Outcome::Panic(_), _) => true,
    };
    if still {
        ctx.violation("layout/replay", "replayed case still deviates", case.clone());
    }
    fw::finish(ctx, "replay", &[])
}
