//! C06 — data directives emit exactly the bytes written, little-endian, exact width.
//!
//! Programs of .db/.dw/.dd/.dq lines in flash and EEPROM with operand lists mixing expressions,
//! symbols and strings; boundary values of every width; `.byte n` in EEPROM between data;
//! negatives: a value that does not fit, a string in a word directive, data in the data segment.

use crate::fw::{self, Ctx, Outcome, Rng};
use crate::gen::ir::{self, DataOp, Names, Node, Seg};
use crate::props::c02;
use crate::refmodel::expr::{self, Expected, E};
use crate::refmodel::layout::{self, FailKind, RefErr};
use avra_lib::verif;
use serde_json::{json, Value};

const STRINGS: [&str; 30] = [
    "", "a", "ab", "abc", "Hello, World", "semi;colon", "a,b", "// not a comment", "/* nor this */", "it's", "  lead and trail  ", "ünïcödé", "日本", "tab\there", "#define", ".db 1",
    "é", "éé", "€", "a\\x41b", "23\\xDFC", "\\x4", "\\n\\t\\0", "back\\", "c:\\avr\\", "a:b", "x\u{a0}y", "'", ",", "😀",
];

fn boundary(width: u8, rng: &mut Rng) -> (i64, bool) {
    // (value, fits)
    let (lo, hi): (i128, i128) = match width {
        1 => (-128, 255),
        2 => (-32768, 65535),
        4 => (-(1 << 31), (1 << 32) - 1),
        _ => (i64::MIN as i128, i64::MAX as i128),
    };
    let cands: Vec<i128> = vec![lo, lo + 1, hi, hi - 1, 0, -1, 1, lo - 1, hi + 1, lo - 2, hi + 2, hi / 2, hi / 2 + 1, lo * 2, hi * 2 + 1];
    loop {
        let v = *rng.pick(&cands);
        if v < i64::MIN as i128 || v > i64::MAX as i128 {
            continue;
        }
        return (v as i64, v >= lo && v <= hi);
    }
}

struct Built {
    nodes: Vec<Node>,
    fault: Option<&'static str>,
}

fn value_expr(rng: &mut Rng, width: u8, syms: &[(String, i64)], want_fit: bool) -> Option<E> {
    for _ in 0..30 {
        let e = match rng.below(7) {
            // a character literal: ASCII, Latin-1, and code points that need two, three or four bytes in
            // the source - its value is the code point, which fits the element or does not
            6 => {
                let cp = *rng.pick(&[0x41i64, 0x7e, 0xe9, 0xff, 0x100, 0x17f, 0x20ac, 0xffff, 0x10000, 0x1f600, 0x10ffff]);
                E::Lit(cp, 5)
            }
            0 | 1 => {
                let (v, f) = boundary(width, rng);
                if f != want_fit {
                    continue;
                }
                E::lit(v)
            }
            2 if !syms.is_empty() => {
                let (n, _) = rng.pick(syms).clone();
                E::Sym(crate::gen::spell::case(&n, rng))
            }
            3 => {
                let names: Vec<String> = syms.iter().map(|s| s.0.clone()).collect();
                expr::rand_tree(rng, 3, &names, false)
            }
            _ => {
                let (v, f) = boundary(width, rng);
                if f != want_fit {
                    continue;
                }
                // the same value, computed
                match rng.below(3) {
                    0 if v > i64::MIN + 5 && v < i64::MAX - 5 => E::bin(expr::Bin::Add, E::lit(v - 3), E::lit(3)),
                    1 if v >= 0 && width <= 2 => E::Func("lwrd", Box::new(E::lit(v))),
                    _ => E::Paren(Box::new(E::lit(v))),
                }
            }
        };
        let mut env = expr::Env::new();
        for (n, v) in syms {
            env.insert(n.to_lowercase(), *v);
        }
        match expr::eval(&e, &env, 0) {
            Some(Expected::Value(v)) => {
                if layout::fits(width, v) == want_fit {
                    return Some(e);
                }
            }
            _ => continue,
        }
    }
    None
}

fn gen(rng: &mut Rng) -> Built {
    let mut names = Names::new();
    let mut nodes = vec![Node::Comment("C06 data program".into())];
    // a few .equ symbols (values usable in every width)
    let mut syms: Vec<(String, i64)> = vec![];
    for _ in 0..rng.below(4) {
        let n = names.fresh("eq", rng);
        let v = rng.range(0, 255);
        nodes.push(Node::Equ(n.clone(), E::lit(v)));
        syms.push((n, v));
    }
    let fault: Option<&'static str> = match rng.below(9) {
        0 => Some("value-does-not-fit"),
        1 => Some("string-in-word"),
        2 => Some("data-in-dseg"),
        _ => None,
    };
    let n_lines = 1 + rng.usize(10);
    let fault_line = rng.usize(n_lines);
    let mut seg = Seg::Code;
    for li in 0..n_lines {
        if rng.chance(1, 4) {
            seg = if rng.chance(1, 2) { Seg::Code } else { Seg::Eeprom };
            nodes.push(Node::Seg(seg));
        }
        let faulty = fault.is_some() && li == fault_line;
        if faulty && fault == Some("data-in-dseg") {
            nodes.push(Node::Seg(Seg::Data));
            // (also directives that hold nothing: they are in the wrong segment all the same)
            let (width, ops) = match rng.below(6) {
                0 => (1u8, vec![DataOp::S(String::new())]),
                1 => (1, vec![DataOp::S(String::new()), DataOp::S(String::new())]),
                2 => (*rng.pick(&[1u8, 2, 4, 8]), vec![]),
                _ => (*rng.pick(&[1u8, 2, 4, 8]), vec![DataOp::E(E::lit(1))]),
            };
            let label = if rng.chance(1, 3) { Some(names.fresh("lbl", rng)) } else { None };
            nodes.push(Node::Data { label, width, ops });
            break;
        }
        if seg == Seg::Eeprom && rng.chance(1, 6) {
            nodes.push(Node::Reserve { label: None, n: E::lit(1 + rng.below(5) as i64) });
            continue;
        }
        let width = *rng.pick(&[1u8, 1, 1, 2, 2, 4, 8]);
        let label = if rng.chance(1, 4) { Some(names.fresh("lbl", rng)) } else { None };
        let n_ops = match rng.below(8) {
            0 => 0,
            1 | 2 => 1,
            3 => 12,
            _ => 1 + rng.usize(6),
        };
        let mut ops = vec![];
        for _ in 0..n_ops {
            if width == 1 && rng.chance(1, 4) {
                ops.push(DataOp::S(rng.pick(&STRINGS).to_string()));
            } else if let Some(e) = value_expr(rng, width, &syms, true) {
                ops.push(DataOp::E(e));
            }
        }
        if faulty {
            match fault {
                Some("value-does-not-fit") => {
                    let w = if width == 8 { *rng.pick(&[1u8, 2, 4]) } else { width };
                    if let Some(e) = value_expr(rng, w, &syms, false) {
                        let mut ops2 = if w == width { ops.clone() } else { vec![] };
                        let pos = rng.usize(ops2.len() + 1);
                        ops2.insert(pos, DataOp::E(e));
                        nodes.push(Node::Data { label, width: w, ops: ops2 });
                        continue;
                    }
                }
                Some("string-in-word") => {
                    let w = *rng.pick(&[2u8, 4, 8]);
                    let mut ops2: Vec<DataOp> = (0..rng.below(3)).filter_map(|_| value_expr(rng, w, &syms, true).map(DataOp::E)).collect();
                    let pos = rng.usize(ops2.len() + 1);
                    ops2.insert(pos, DataOp::S(rng.pick(&STRINGS[1..]).to_string()));
                    nodes.push(Node::Data { label, width: w, ops: ops2 });
                    continue;
                }
                _ => {}
            }
        }
        nodes.push(Node::Data { label, width, ops });
    }
    Built { nodes, fault }
}

pub fn gen_nodes(rng: &mut Rng) -> Vec<Node> {
    gen(rng).nodes
}

fn dir_name(w: u8) -> &'static str {
    match w {
        1 => "db",
        2 => "dw",
        4 => "dd",
        _ => "dq",
    }
}

fn check(ctx: &Ctx, b: &Built) {
    let src = ir::print_canonical(&b.nodes);
    let reference = layout::assemble(&layout::single(b.nodes.clone()));
    fw::hook_enable(verif::LAYOUT);
    let _ = verif::take();
    let out = fw::build_str(&src);
    let events = verif::take();
    fw::hook_enable(0);
    ctx.eval(1);
    let replay = |d: Value| json!({"source": src, "fault": b.fault, "detail": d, "observed": out.brief()});
    match (&reference, &out) {
        (Err(RefErr::Indeterminate(_)), _) => ctx.count("reference_undecided", 1),
        (_, Outcome::Panic(p)) => ctx.violation("data/panic", format!("data program panicked: {}", fw::clip(p, 160)), replay(json!(null))),
        (Ok(r), Outcome::Ok(o)) => {
            ctx.count("valid_programs_compared", 1);
            if o.code != r.code || o.eeprom != r.eeprom {
                // attribute to the first data line whose bytes differ
                let mut sig = "data/image/tail".to_string();
                for (_, line, seg, addr, n) in &r.placed {
                    let (img, refimg, off) = match seg {
                        Seg::Code => (&o.code, &r.code, *addr as usize * 2),
                        Seg::Eeprom => (&o.eeprom, &r.eeprom, *addr as usize),
                        Seg::Data => continue,
                    };
                    if img.get(off..off + n) != Some(&refimg[off..off + n]) {
                        let kind = c02::node_kind_at_line(&b.nodes, *line);
                        sig = format!("data/image/{}/{}", seg.directive().trim_start_matches('.'), kind);
                        break;
                    }
                }
                ctx.violation(sig, format!("data bytes differ from the reference: code {} vs {}, eeprom {} vs {}", fw::hex(&o.code, 48), fw::hex(&r.code, 48), fw::hex(&o.eeprom, 48), fw::hex(&r.eeprom, 48)),
                    replay(json!({"expect_code": fw::hex(&r.code, 4096), "expect_eeprom": fw::hex(&r.eeprom, 4096)})));
            }
            match c02::check_trace(&events, Some(r)) {
                Ok((items, _)) => ctx.count("trace_items_checked", items as u64),
                Err(e) => ctx.violation("data/trace", format!("pass-1/pass-2 trace: {}", e), replay(json!(null))),
            }
            if o.code == r.code && o.eeprom == r.eeprom {
                crate::props::variants::check_one(ctx, &b.nodes, o, &mut Rng::for_case(fw::hash_str(&src), 0x7A80, 0), "data");
            }
        }
        (Ok(_), Outcome::Err(e)) => {
            ctx.violation("data/fitting-values-rejected", format!("valid data program rejected: {}", fw::clip(e, 160)), replay(json!(null)));
        }
        (Err(RefErr::Fail(f)), Outcome::Ok(_)) => {
            let what = match &f.kind {
                FailKind::Range => {
                    // which width?
                    let w = match b.nodes.get(f.line - 1) {
                        Some(Node::Data { width, .. }) => dir_name(*width),
                        _ => "?",
                    };
                    format!("out-of-range-accepted/{}", w)
                }
                FailKind::StringInWord => "string-in-word-accepted".to_string(),
                FailKind::WrongSegment => "data-in-dseg-accepted".to_string(),
                other => format!("{:?}-accepted", other).to_lowercase(),
            };
            ctx.violation(format!("data/{}", what), format!("program that must fail ({:?} at line {}) was assembled", f.kind, f.line), replay(json!(null)));
        }
        (Err(RefErr::Fail(_)), Outcome::Err(_)) => ctx.count("negative_programs_rejected", 1),
    }
}

/// every width x every boundary value, alone, in both segments (complete grid)
fn grid(ctx: &Ctx) {
    for seg in [Seg::Code, Seg::Eeprom] {
        for width in [1u8, 2, 4, 8] {
            let (lo, hi): (i128, i128) = match width {
                1 => (-128, 255),
                2 => (-32768, 65535),
                4 => (-(1 << 31), (1 << 32) - 1),
                _ => (i64::MIN as i128, i64::MAX as i128),
            };
            for v in [lo - 2, lo - 1, lo, lo + 1, -1, 0, 1, hi - 1, hi, hi + 1, hi + 2] {
                if v < i64::MIN as i128 || v > i64::MAX as i128 {
                    continue;
                }
                let nodes = vec![Node::Comment("grid".into()), Node::Seg(seg), Node::Data { label: None, width, ops: vec![DataOp::E(E::lit(v as i64))] }];
                ctx.distinct(fw::hash_str(&format!("grid{:?}{}{}", seg, width, v)));
                check(ctx, &Built { nodes, fault: if v < lo || v > hi { Some("value-does-not-fit") } else { None } });
            }
        }
    }
}

/// Numbers of 2^63 and more cannot be written down as a value at all: whichever radix, however they reach
/// a `.db`/`.dw`/`.dd` operand, they do not fit and the build must fail (`.dq` is left out: whether
/// 0xFFFFFFFFFFFFFFFF fits eight bytes is a matter of reading).
fn beyond_i64(ctx: &Ctx) {
    let texts = [
        "0xFFFFFFFFFFFFFFFF", "$FFFFFFFFFFFFFFFF", "0xffffffffffffff80", "0xFFFFFFFFFFFF8000", "$ffffffff80000000", "0x8000000000000000", "0x80000000000000FF",
        "0b1111111111111111111111111111111111111111111111111111111111111111", "0b1111111111111111111111111111111111111111111111111111111110000000",
        "18446744073709551615", "18446744073709551488", "9223372036854775808", "01777777777777777777777", "0x10000000000000000", "0x1FFFFFFFFFFFFFFFF",
    ];
    let mut n = 0u64;
    for seg in [Seg::Code, Seg::Eeprom] {
        for dir in [".db", ".dw", ".dd"] {
            for t in texts {
                for route in 0..4 {
                    let body = match route {
                        0 => format!("{} {}\n", dir, t),
                        1 => format!(".equ big = {}\n{} big\n", t, dir),
                        2 => format!(".macro put\n{} @0\n.endm\nput {}\n", dir, t),
                        _ => format!("{} 1, {} & 0xff00 | {}, 2\n", dir, t, t),
                    };
                    let src = format!("{}\n{}", seg.directive(), body);
                    let out = fw::build_str(&src);
                    ctx.eval(1);
                    n += 1;
                    let sig = format!("data/out-of-range-accepted/{}/literal-beyond-i64", dir.trim_start_matches('.'));
                    match &out {
                        Outcome::Err(_) => {}
                        Outcome::Ok(_) => ctx.violation(sig, format!("`{}` with {} (not representable, does not fit) was assembled", dir, t), json!({"source": src, "beyond_i64": true, "observed": out.brief()})),
                        Outcome::Panic(p) => ctx.violation("data/panic", format!("`{} {}` panicked: {}", dir, t, fw::clip(p, 120)), json!({"source": src, "beyond_i64": true})),
                    }
                }
            }
        }
    }
    ctx.put("beyond_i64_literal_builds", json!(n));
}

/// The most negative 64-bit number cannot be written as a literal, only worked out (`1 << 63`, `~0x7fff...`,
/// `-9223372036854775807 - 1`): it fits `.dq` and nothing narrower.
fn most_negative_value(ctx: &Ctx) {
    let mut n = 0u64;
    for seg in [Seg::Code, Seg::Eeprom] {
        for (dir, width) in [(".db", 1usize), (".dw", 2), (".dd", 4), (".dq", 8)] {
            for text in ["1 << 63", "~0x7fffffffffffffff", "-9223372036854775807 - 1", "(-9223372036854775807 - 1) + 0", "most_negative", "MOST_NEGATIVE | 0"] {
                for tail in ["", ", 1"] {
                    let src = format!(".equ most_negative = -9223372036854775807 - 1\n{}\n\t{} {}{}\n", seg.directive(), dir, text, tail);
                    let out = fw::build_str(&src);
                    ctx.eval(1);
                    n += 1;
                    let fits = width == 8;
                    let ok = match &out {
                        Outcome::Panic(_) => false,
                        Outcome::Err(_) => !fits,
                        Outcome::Ok(o) => {
                            let img = if seg == Seg::Code { &o.code } else { &o.eeprom };
                            fits && img.get(..8) == Some(&i64::MIN.to_le_bytes()[..])
                        }
                    };
                    if !ok {
                        ctx.violation(
                            format!("data/{}/{}/most-negative-value", if fits { "fitting-values-rejected-or-wrong" } else { "out-of-range-accepted" }, dir.trim_start_matches('.')),
                            format!("`{} {}` (-2^63, {}): {}", dir, text, if fits { "fits" } else { "does not fit" }, fw::clip(&format!("{:?}", out.brief()), 120)),
                            json!({"source": src, "beyond_i64": !fits, "macro_arguments": fits, "segment": seg.directive(), "expect_image": if fits { Some(fw::hex(&{ let mut b = i64::MIN.to_le_bytes().to_vec(); if !tail.is_empty() { b.extend(1i64.to_le_bytes()); } b }, 64)) } else { None }, "observed": out.brief()}),
                        );
                    }
                }
            }
        }
    }
    ctx.put("most_negative_value_builds", json!(n));
}

/// Labels are numbers like any other: the position of a label that does not fit the element fails the build,
/// one that fits is stored - a bare name, a name in an expression, in every segment, with and without a device.
fn label_values(ctx: &Ctx) {
    let mut n = 0u64;
    for dev in ["", ".device ATmega2560\n", ".device ATmega128\n"] {
        for (org, seg_open, def, seg_close) in [
            (0x10000i64, "", "far:\tnop\n", ""),
            (0xffff, "", "far:\tnop\n", ""),
            (0x1f000, "", "far:\tnop\n", ""),
            (0x100, "", "far:\tnop\n", ""),
            (0xff, "", "far:\tnop\n", ""),
            (0x300, ".dseg\n", "far:\t.byte 1\n", ".cseg\n"),
            (0x100, ".eseg\n", "far:\t.db 1\n", ".cseg\n"),
            (0xff, ".eseg\n", "far:\t.db 1\n", ".cseg\n"),
        ] {
            if dev.contains("ATmega128\n") && org >= 0xffff {
                continue;
            }
            for (dir, width) in [(".db", 1u32), (".dw", 2), (".dd", 4)] {
                for (how, operand, value) in [("bare", "far".to_string(), org), ("other-case", "FAR".to_string(), org), ("in-sum", "far + 0".to_string(), org), ("in-parentheses", "(Far)".to_string(), org), ("minus-one", "far - 1".to_string(), org - 1)] {
                    for forward in [false, true] {
                        let place = format!("{}.org 0x{:x}\n{}{}", seg_open, org, def, seg_close);
                        let table = format!("table:\t{} {}{}\n", dir, operand, if width == 1 { ", 0" } else { "" });
                        let src = if forward { format!("{}{}{}", dev, table, place) } else { format!("{}{}.org 0x{:x}\n{}", dev, place, org + 0x10, table) };
                        let fits = value >= 0 && (value as u64) < (1u64 << (8 * width));
                        let out = fw::build_str(&src);
                        ctx.eval(1);
                        n += 1;
                        let at = if forward { 0 } else { (org + 0x10) as usize * 2 };
                        let ok = match &out {
                            Outcome::Panic(_) => false,
                            Outcome::Err(_) => !fits,
                            Outcome::Ok(o) => fits && o.code.get(at..at + width as usize).map(|b| b.iter().enumerate().all(|(i, x)| *x == (value >> (8 * i)) as u8)).unwrap_or(false),
                        };
                        // (in the forward variant the table stands at 0 and a code label at `org` lies behind it)
                        if !ok {
                            ctx.violation(
                                format!("data/{}/{}/label-value/{}", if fits { "fitting-values-rejected-or-wrong" } else { "out-of-range-accepted" }, dir.trim_start_matches('.'), how),
                                format!("`{} {}` with far = 0x{:x} ({}): {}", dir, operand, org, if fits { "fits" } else { "does not fit" }, fw::clip(&format!("{:?}", out.brief()), 120)),
                                json!({"source": src, "label_value": true, "fits": fits, "at": at, "width": width, "value": value, "observed": out.brief()}),
                            );
                        }
                    }
                }
            }
        }
    }
    ctx.put("label_value_builds", json!(n));
}

/// Data lines that begin alike: equal up to a character that some scanner of the assembler stops at (inside a
/// string or a character literal, where it means nothing), or equal but for letter case or blanks inside a
/// literal. Each line yields its own bytes, in one build and in builds that follow each other.
fn sibling_lines(ctx: &Ctx) {
    let mut rng = Rng::for_case(ctx.seed, 0xC06_B, 0);
    let mut groups: Vec<Vec<(String, Vec<u8>)>> = vec![];
    let s = |x: &str| x.as_bytes().to_vec();
    for t in [";", "//", "/*", "*/", ":", ",", "@0", "@", "#", "=", "(", ")", "'", ".", " ; ", "$", "0x"] {
        groups.push(vec![(format!(".db \"a{}b\"", t), s(&format!("a{}b", t))), (format!(".db \"a{}c\"", t), s(&format!("a{}c", t))), (format!(".db \"a{}\", 7", t), { let mut v = s(&format!("a{}", t)); v.push(7); v })]);
        groups.push(vec![(format!(".db 1, \"{}\", 2", t), { let mut v = vec![1]; v.extend(s(t)); v.push(2); v }), (format!(".db 1, \"{}\", 3, 4", t), { let mut v = vec![1]; v.extend(s(t)); v.extend([3, 4]); v })]);
    }
    for c in [';', ':', ',', '#', '=', '/', '"', '@', '(', '.', ' ', '*'] {
        groups.push(vec![(format!(".db '{}', 0x12", c), vec![c as u8, 0x12]), (format!(".db '{}', 0x56", c), vec![c as u8, 0x56]), (format!(".db '{}'", c), vec![c as u8])]);
        groups.push(vec![(format!(".dw '{}', 0x1234", c), vec![c as u8, 0, 0x34, 0x12]), (format!(".dw '{}', 0x5678", c), vec![c as u8, 0, 0x78, 0x56])]);
    }
    groups.push(vec![(".db \"Ab\"".into(), s("Ab")), (".db \"aB\"".into(), s("aB")), (".db \"ab\"".into(), s("ab")), (".db \"AB\"".into(), s("AB"))]);
    groups.push(vec![(".db 'A'".into(), s("A")), (".db 'a'".into(), s("a")), (".dw 'Q', 'q'".into(), vec![b'Q', 0, b'q', 0]), (".dw 'q', 'Q'".into(), vec![b'q', 0, b'Q', 0])]);
    groups.push(vec![(".db \"a b\"".into(), s("a b")), (".db \"a  b\"".into(), s("a  b")), (".db \"a\tb\"".into(), s("a\tb")), (".db \"ab\"".into(), s("ab")), (".db \"a b \"".into(), s("a b "))]);
    groups.push(vec![(".db ' '".into(), s(" ")), (".db '\t'".into(), s("\t")), (".db \" \"".into(), s(" ")), (".db \"  \"".into(), s("  "))]);
    let mut n = 0u64;
    for g in groups.iter() {
        for seg in [Seg::Code, Seg::Eeprom] {
            let mut order: Vec<usize> = (0..g.len()).collect();
            rng.shuffle(&mut order);
            let image = |lines: &[usize]| -> Vec<u8> {
                let mut v = vec![];
                for i in lines {
                    v.extend(&g[*i].1);
                    if seg == Seg::Code && v.len() % 2 == 1 {
                        v.push(0);
                    }
                }
                v
            };
            // one build with all of them (twice over, so that every line also follows itself), then one build per line
            let mut all = order.clone();
            all.extend(order.iter().rev());
            let mut plans: Vec<Vec<usize>> = vec![all];
            plans.extend(order.iter().map(|i| vec![*i]));
            for plan in plans {
                let src = format!("{}\n{}\n", seg.directive(), plan.iter().map(|i| g[*i].0.clone()).collect::<Vec<_>>().join("\n"));
                let expect = image(&plan);
                let out = fw::build_str(&src);
                ctx.eval(1);
                n += 1;
                let img = match &out {
                    Outcome::Ok(o) => Some(if seg == Seg::Code { o.code.clone() } else { o.eeprom.clone() }),
                    _ => None,
                };
                if img.as_deref() != Some(&expect[..]) {
                    ctx.violation(
                        format!("data/image/{}/sibling-lines/{}", seg.directive().trim_start_matches('.'), if plan.len() > 1 { "in-one-build" } else { "in-builds-that-follow-each-other" }),
                        format!("`{}` gave {} instead of {}", plan.iter().map(|i| g[*i].0.clone()).collect::<Vec<_>>().join(" / "), fw::clip(&format!("{:?}", out.brief()), 120), fw::hex(&expect, 48)),
                        json!({"source": src, "macro_arguments": true, "segment": seg.directive(), "expect_image": fw::hex(&expect, 4096), "observed": out.brief()}),
                    );
                }
            }
        }
    }
    ctx.put("sibling_line_builds", json!(n));
}

/// Data lines inside macros that take arguments: the argument text is spliced into the line and the line is
/// read again, which must leave the strings on that line byte for byte as written.
fn through_macro_arguments(ctx: &Ctx) {
    let mut rng = Rng::for_case(ctx.seed, 0xC06_A, 0);
    let n = ctx.tier.pick(600u64, 20_000u64);
    for i in 0..n {
        let seg = if i % 2 == 0 { Seg::Code } else { Seg::Eeprom };
        let s = if rng.chance(1, 2) { *rng.pick(&STRINGS[1..]) } else { ir::hostile_string(&mut rng, true) };
        let a = rng.range(0, 255);
        let b = rng.range(0, 255);
        let shape = rng.below(4);
        let (body, call, direct) = match shape {
            0 => (format!(".db @0, \"{}\", @1", s), format!("put {}, {}", a, b), format!(".db {}, \"{}\", {}", a, s, b)),
            1 => (format!(".db \"{}\", @0", s), format!("put {}", a), format!(".db \"{}\", {}", s, a)),
            2 => (format!(".db @1, \"{}\", \"{}\", @0", s, s), format!("put {}, {}", a, b), format!(".db {}, \"{}\", \"{}\", {}", b, s, s, a)),
            _ => (format!(".db \"{}\" ; @0 is not used here", s), format!("put {}", a), format!(".db \"{}\"", s)),
        };
        let tail = ".dw 0xbeef\nafter: .db low(after), high(after)\n";
        let via = format!(".macro put\n{}\n.endm\n{}\n{}\n{}", body, seg.directive(), call, tail);
        let plain = format!("{}\n{}\n{}", seg.directive(), direct, tail);
        let mut bytes: Vec<u8> = vec![];
        match shape {
            0 => { bytes.push(a as u8); bytes.extend(s.as_bytes()); bytes.push(b as u8); }
            1 => { bytes.extend(s.as_bytes()); bytes.push(a as u8); }
            2 => { bytes.push(b as u8); bytes.extend(s.as_bytes()); bytes.extend(s.as_bytes()); bytes.push(a as u8); }
            _ => bytes.extend(s.as_bytes()),
        }
        if seg == Seg::Code && bytes.len() % 2 == 1 {
            bytes.push(0);
        }
        bytes.extend([0xef, 0xbe]);
        let at = if seg == Seg::Code { bytes.len() / 2 } else { bytes.len() };
        bytes.extend([(at & 0xff) as u8, (at >> 8) as u8]);
        ctx.distinct(fw::hash_str(&via));
        for (route, src) in [("in-macro-with-arguments", &via), ("direct", &plain)] {
            let out = fw::build_str(src);
            ctx.eval(1);
            let img = match &out {
                Outcome::Ok(o) => Some(if seg == Seg::Code { o.code.clone() } else { o.eeprom.clone() }),
                _ => None,
            };
            if img.as_deref() != Some(&bytes[..]) {
                ctx.violation(
                    format!("data/image/{}/string/{}", seg.directive().trim_start_matches('.'), route),
                    format!("`{}` ({}) gave {} instead of {}", direct, route, fw::clip(&format!("{:?}", out.brief()), 120), fw::hex(&bytes, 48)),
                    json!({"source": src, "macro_arguments": true, "segment": seg.directive(), "expect_image": fw::hex(&bytes, 4096), "observed": out.brief()}),
                );
            }
        }
    }
    ctx.put("string_lines_through_macro_arguments", json!(n));
}

pub fn run(ctx: &Ctx) -> i32 {
    grid(ctx);
    beyond_i64(ctx);
    most_negative_value(ctx);
    label_values(ctx);
    through_macro_arguments(ctx);
    sibling_lines(ctx);
    let n = ctx.tier.pick(5_000u64, 5_000_000u64);
    fw::par_for(n, 64, |i| {
        let mut rng = Rng::for_case(ctx.seed, 0xC06, i);
        let b = gen(&mut rng);
        ctx.distinct(fw::hash_str(&ir::print_canonical(&b.nodes)));
        if i < 4 {
            ctx.sample(json!({"program": ir::print_canonical(&b.nodes).lines().collect::<Vec<_>>(), "fault": b.fault}));
        }
        check(ctx, &b);
        if b.fault.is_none() && i % 2 == 1 {
            c02::check_wrapped(ctx, &b.nodes, &mut rng, "data");
        }
    });
    fw::finish(
        ctx,
        "programs of 1-10 .db/.dw/.dd/.dq lines in flash and EEPROM, 0-12 operands each mixing boundary literals, computed values, .equ symbols, random expressions and strings (empty, punctuation that looks like comments, non-ASCII UTF-8), `.byte n` between EEPROM data; one in three programs carries exactly one fault (value that does not fit its width, string in a word directive, data directive in .dseg); plus the complete width x boundary-value grid in both segments; every second valid program again with runs of its lines moved into argument-less macros (same images required); the positions of code, data and EEPROM labels around 0xff/0x100, 0xffff/0x10000 and at 0x1f000 as operands of .db/.dw/.dd (bare name, other letter case, in a sum, in parentheses, minus one; table before and behind the label; no device, ATmega2560, ATmega128): stored when they fit, an error when not; 360 must-fail builds with literals of 2^63 and more in every radix reaching .db/.dw/.dd directly, through .equ, through a macro argument and inside an expression; 600 (thorough 20000) .db lines with hostile strings (multi-byte characters, backslash sequences, colons, comment openers) inside macros that take arguments, against the same line written directly and the bytes computed by hand; every valid program once more in one randomly chosen setting that means nothing (as a file beginning with blank lines / CRLF / no final line end; a run of top-level lines in an included file; inside a selected branch; followed by .exit and unread text; preceded by unused definitions; respelled; branch and included file at once) with the same images, sizes, RAM extent and message texts required (props/variants.rs; counters variants:*); distinct_nontrivial = distinct program texts",
        &["refmodel/layout.rs data rules; fits = signed or unsigned representation of the width"],
    )
}

pub fn replay(ctx: &Ctx, case: &Value) -> i32 {
    if case.get("variant").is_some() {
        return crate::props::variants::replay(ctx, case);
    }
    if case["label_value"].as_bool() == Some(true) {
        let out = fw::build_str(case["source"].as_str().unwrap_or(""));
        ctx.eval(1);
        ctx.distinct(1);
        ctx.distinct(2);
        let (fits, at, width, value) = (case["fits"].as_bool().unwrap_or(false), case["at"].as_u64().unwrap_or(0) as usize, case["width"].as_u64().unwrap_or(1) as usize, case["value"].as_i64().unwrap_or(0));
        let ok = match &out {
            Outcome::Panic(_) => false,
            Outcome::Err(_) => !fits,
            Outcome::Ok(o) => fits && o.code.get(at..at + width).map(|b| b.iter().enumerate().all(|(i, x)| *x == (value >> (8 * i)) as u8)).unwrap_or(false),
        };
        if !ok {
            ctx.violation("data/replay", "replayed case still deviates", case.clone());
        }
        return fw::finish(ctx, "replay", &[]);
    }
    if case["beyond_i64"].as_bool() == Some(true) || case["macro_arguments"].as_bool() == Some(true) {
        let out = fw::build_str(case["source"].as_str().unwrap_or(""));
        ctx.eval(1);
        ctx.distinct(1);
        ctx.distinct(2);
        let bad = match (&out, case["expect_image"].as_str()) {
            (Outcome::Panic(_), _) => true,
            (Outcome::Ok(_), None) => true,
            (Outcome::Err(_), None) => false,
            (Outcome::Ok(o), Some(h)) => fw::hex(if case["segment"].as_str() == Some(".cseg") { &o.code } else { &o.eeprom }, 4096) != h,
            (Outcome::Err(_), Some(_)) => true,
        };
        if bad {
            ctx.violation("data/replay", "replayed case still deviates", case.clone());
        }
        return fw::finish(ctx, "replay", &[]);
    }
    let src = case["source"].as_str().unwrap_or("");
    let out = fw::build_str(src);
    ctx.eval(1);
    ctx.distinct(1);
    ctx.distinct(2);
    let d = &case["detail"];
    let faulty = case["fault"].is_string();
    let still = match (&out, d["expect_code"].as_str()) {
        (Outcome::Ok(b), Some(ec)) => fw::hex(&b.code, 4096) != ec || Some(fw::hex(&b.eeprom, 4096).as_str()) != d["expect_eeprom"].as_str(),
        (Outcome::Ok(_), None) => faulty,
        (Outcome::Err(_), _) => !faulty,
        (Outcome::Panic(_), _) => true,
    };
    if still {
        ctx.violation("data/replay", "replayed case still deviates", case.clone());
    }
    fw::finish(ctx, "replay", &[])
}
