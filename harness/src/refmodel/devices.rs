//! Device-side reference data: (a) the four `#pragma AVRPART MEMORY` figures of the shipped
//! part-definition files (vendor data, independent of the library's table); (b) the map from
//! DisabledOptions flags to the instruction forms they forbid, transcribed from the flags'
//! doc comments; (c) a stable fingerprint of the DEVICES table.

use crate::fw;
use avra_lib::device::{Device, DisabledOptions, DEVICES};
use std::collections::BTreeMap;
use std::path::PathBuf;

#[derive(Clone, Debug, PartialEq, Eq)]
pub struct PartFile {
    pub file: PathBuf,
    pub device: String,
    pub flash_bytes: u32,
    pub eeprom: u32,
    pub ram_size: u32,
    pub ram_start: u32,
}

fn parse_num(s: &str) -> Option<u32> {
    let s = s.trim();
    if let Some(h) = s.strip_prefix("0x").or_else(|| s.strip_prefix("0X")) {
        u32::from_str_radix(h, 16).ok()
    } else {
        s.parse().ok()
    }
}

pub fn part_files() -> Vec<PartFile> {
    let dir = fw::repo_root().join("includes");
    let mut out = vec![];
    let Ok(rd) = std::fs::read_dir(&dir) else { return out };
    let mut files: Vec<PathBuf> = rd.filter_map(|e| e.ok()).map(|e| e.path()).filter(|p| p.extension().map(|e| e == "inc").unwrap_or(false)).collect();
    files.sort();
    for f in files {
        let Ok(text) = std::fs::read_to_string(&f) else { continue };
        let mut device = None;
        let (mut fl, mut ee, mut rs, mut ra) = (None, None, None, None);
        for line in text.lines() {
            let l = line.trim();
            let low = l.to_lowercase();
            if low.starts_with(".device") {
                device = l.split_whitespace().nth(1).map(|s| s.to_string());
            }
            if low.starts_with("#pragma") && low.contains("avrpart") && low.contains("memory") {
                let toks: Vec<&str> = l.split_whitespace().collect();
                let last = toks.last().copied().unwrap_or("");
                if low.contains("prog_flash") {
                    fl = parse_num(last);
                } else if low.contains("int_sram") && low.contains("size") {
                    rs = parse_num(last);
                } else if low.contains("int_sram") && low.contains("start_addr") {
                    ra = parse_num(last);
                } else if low.contains("eeprom") {
                    ee = parse_num(last);
                }
            }
        }
        if let (Some(device), Some(fl), Some(ee), Some(rs), Some(ra)) = (device, fl, ee, rs, ra) {
            out.push(PartFile { file: f, device, flash_bytes: fl, eeprom: ee, ram_size: rs, ram_start: ra });
        }
    }
    out
}

/// device table rows sorted by name
pub fn table() -> Vec<(String, Device)> {
    let mut v: Vec<(String, Device)> = DEVICES.iter().map(|(k, d)| (k.to_string(), d.clone())).collect();
    v.sort_by(|a, b| a.0.cmp(&b.0));
    v
}

pub fn table_fingerprint() -> u64 {
    let mut s = String::new();
    for (n, d) in table() {
        s.push_str(&format!("{}:{}:{}:{}:{}:{:?};", n, d.flash_size, d.ram_start, d.ram_size, d.eeprom_size, d.disable_opts));
    }
    fw::hash_str(&s)
}

/// Which flag (if any) forbids the instruction form `name` — from the DisabledOptions doc comments:
/// NoMul: multiply family; NoJmp: JMP, CALL; NoXreg/NoYreg: X / Y register; Tiny1x: ADIW, SBIW, IJMP,
/// ICALL, LDD, STD, LDS, STS, PUSH, POP; NoLpm / NoLpmX: LPM / `LPM Rd,Z[+]`; NoElpm / NoElpmX likewise;
/// NoSpm; NoMovw; NoBreak; NoEicall; NoEijmp; Avr8l: ADIW, SBIW (and one-word LDS/STS).
pub fn forbidding_flag(dev: &Device, form_name: &str) -> Option<DisabledOptions> {
    use DisabledOptions::*;
    let (mn, addr) = match form_name.split_once(':') {
        Some((m, a)) => (m, a),
        None => (form_name, ""),
    };
    let has = |o: DisabledOptions| dev.disable_opts.contains(&o);
    let mut hit = |o: DisabledOptions, cond: bool| -> Option<DisabledOptions> {
        if cond && has(o.clone()) {
            Some(o)
        } else {
            None
        }
    };
    let is_mul = matches!(mn, "mul" | "muls" | "mulsu" | "fmul" | "fmuls" | "fmulsu");
    let idx = matches!(mn, "ld" | "st" | "ldd" | "std");
    hit(NoMul, is_mul)
        .or_else(|| hit(NoJmp, mn == "jmp" || mn == "call"))
        .or_else(|| hit(NoXreg, idx && addr.contains('X')))
        .or_else(|| hit(NoYreg, idx && addr.contains('Y')))
        .or_else(|| hit(Tiny1x, matches!(mn, "adiw" | "sbiw" | "ijmp" | "icall" | "ldd" | "std" | "lds" | "sts" | "push" | "pop")))
        .or_else(|| hit(NoLpm, mn == "lpm"))
        .or_else(|| hit(NoLpmX, mn == "lpm" && !addr.is_empty()))
        .or_else(|| hit(NoElpm, mn == "elpm"))
        .or_else(|| hit(NoElpmX, mn == "elpm" && !addr.is_empty()))
        .or_else(|| hit(NoSpm, mn == "spm"))
        .or_else(|| hit(NoMovw, mn == "movw"))
        .or_else(|| hit(NoBreak, mn == "break"))
        .or_else(|| hit(NoEicall, mn == "eicall"))
        .or_else(|| hit(NoEijmp, mn == "eijmp"))
        .or_else(|| hit(Avr8l, mn == "adiw" || mn == "sbiw"))
}

pub fn is_reduced(dev: &Device) -> bool {
    dev.disable_opts.contains(&DisabledOptions::Avr8l)
}

pub fn flags_histogram() -> BTreeMap<String, usize> {
    let mut m = BTreeMap::new();
    for (_, d) in table() {
        for o in &d.disable_opts {
            *m.entry(format!("{:?}", o)).or_insert(0) += 1;
        }
    }
    m
}
