#!/usr/bin/env python3
"""Confirm a sub-agent's seeded break independently, then run my checks against it.

  selftest/confirm_seeded.py <dir with patch.diff, demo.rs|demo.sh, meta.json> <seeded-id> <Cxx> [more props]

In the scratch worktree (/tmp/selftest/repo): patch applies; unedited suite 67/67 green with the patch;
demo fails with the patch and passes without. Then the listed quick checks are run against the patched
scratch copy (selftest/run.py). On success the artefacts are copied to /verif/seeded/<seeded-id>/.
"""
import json, os, shutil, subprocess, sys
sys.path.insert(0, os.path.dirname(os.path.abspath(__file__)))
import run as R
def sh(cmd, **kw): return subprocess.run(cmd, shell=True, capture_output=True, text=True, **kw)
src, sid, props = sys.argv[1], sys.argv[2], sys.argv[3:]
repo, v = R.prepare()
patch = os.path.join(src, "patch.diff")
meta = json.load(open(os.path.join(src, "meta.json")))
def reset(): sh(f"git -C {repo} checkout -q -- . && git -C {repo} clean -fdq -e target")
def demo():
    if os.path.exists(os.path.join(src, "demo.rs")):
        shutil.copy(os.path.join(src, "demo.rs"), f"{repo}/tests/demo.rs")
        r = sh("cargo test --offline --test demo", cwd=repo)
        os.remove(f"{repo}/tests/demo.rs")
        return r.returncode == 0, (r.stdout[-400:] + r.stderr[-200:])
    else:
        r = sh(f"sh {os.path.join(src,'demo.sh')}", cwd=repo)
        return r.returncode == 0, (r.stdout[-400:] + r.stderr[-200:])
reset()
ok_clean, t = demo()
r = sh(f"git -C {repo} apply --whitespace=nowarn {patch}")
if r.returncode != 0:
    print("PATCH-DOES-NOT-APPLY", r.stderr[:300]); sys.exit(1)
t = sh("cargo test --workspace --no-fail-fast --offline", cwd=repo)
suite = "test result: ok. 67 passed; 0 failed" in t.stdout
ok_patched, t2 = demo()
reset()
print(f"confirm: demo passes on clean tree={ok_clean}; suite green with patch={suite}; demo fails with patch={not ok_patched}")
confirmed = ok_clean and suite and not ok_patched
if not confirmed:
    print("NOT CONFIRMED"); print(t2)
res = sh(f"python3 /verif/selftest/run.py {patch} {' '.join(props)}")
print(res.stdout.strip())
results = {}
for l in res.stdout.splitlines():
    if l.startswith("RESULT-JSON "): results = json.loads(l[len("RESULT-JSON "):])
if confirmed:
    dst = f"/verif/seeded/{sid}"
    os.makedirs(dst, exist_ok=True)
    for f in os.listdir(src):
        if f.startswith(("patch.diff", "demo", "meta.json")) or f.endswith((".asm", ".inc")):
            shutil.copy(os.path.join(src, f), dst)
    meta["confirmed"] = {"suite_67_green_with_patch": suite, "demo_fails_with_patch": not ok_patched, "demo_passes_without": ok_clean,
                         "ran": f"selftest/confirm_seeded.py (scratch worktree /tmp/selftest/repo); quick checks: {' '.join(props)}"}
    meta["my_checks"] = results
    json.dump(meta, open(f"{dst}/meta.json", "w"), indent=1)
    print("kept as", dst)
