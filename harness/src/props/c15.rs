//! C15 — a failed build names the offending line; messages are kept in order.
//!
//! Valid base programs x every insertion position on the assembling path x every kind of
//! single-line fault the statement lists: the build must fail and the error text must contain the
//! token `line: p`. Message part: .message/.warning/.error placed at top level and inside taken
//! and untaken branches: images unchanged, message list == expected (text, line, order), .error
//! fails the build wherever it is assembled.

use crate::fw::{self, Ctx, Outcome, Rng};
use crate::gen::ir::{self, Arm, Cond, DataOp, MsgKind, Names, Node, Opnd, Seg};
use crate::props::c08::has_line_token;
use crate::refmodel::expr::{Bin, E};
use crate::refmodel::layout::{self, RefErr};
use serde_json::{json, Value};

struct Base {
    nodes: Vec<Node>,
    labels: Vec<String>,
}

fn base(rng: &mut Rng) -> Base {
    let mut names = Names::new();
    let mut v = vec![Node::Comment("C15 base program".into())];
    let mut labels = vec![];
    let mut equs: Vec<String> = vec![];
    let mut marker = 0i64;
    let n = 4 + rng.usize(30);
    let mut seg = Seg::Code;
    for _ in 0..n {
        marker += 1;
        match rng.below(12) {
            0 | 1 => {
                if seg != Seg::Code {
                    seg = Seg::Code;
                    v.push(Node::Seg(seg));
                }
                let l = names.fresh("lbl", rng);
                labels.push(l.clone());
                if rng.chance(1, 2) {
                    v.push(Node::Label(l));
                } else {
                    v.push(Node::Instr { label: Some(l), form: crate::refmodel::isa::form_index("nop"), ops: vec![] });
                }
            }
            2 | 3 => {
                if seg != Seg::Code {
                    seg = Seg::Code;
                    v.push(Node::Seg(seg));
                }
                v.push(Node::instr("ldi", vec![Opnd::Reg(16 + rng.below(16) as u8), Opnd::Expr(E::Lit(marker % 256, 0))]));
            }
            4 => {
                if seg == Seg::Data {
                    seg = Seg::Code;
                    v.push(Node::Seg(seg));
                }
                v.push(Node::Data { label: None, width: *rng.pick(&[1u8, 2, 4]), ops: vec![DataOp::E(E::Lit(marker % 200, 0)), DataOp::E(E::Lit(1, 0))] });
            }
            5 => {
                let n = names.fresh("eq", rng);
                v.push(Node::Equ(n.clone(), E::Lit(rng.range(1, 100), 0)));
                equs.push(n);
            }
            6 => {
                let n = names.fresh("sv", rng);
                v.push(Node::Set(n, E::Lit(rng.range(1, 100), 0)));
            }
            7 => {
                // conditional block: one taken arm somewhere, bodies are plain data (same segment rules as data)
                if seg == Seg::Data {
                    seg = Seg::Code;
                    v.push(Node::Seg(seg));
                }
                let t = rng.chance(1, 2);
                let cond = if !equs.is_empty() && rng.chance(1, 2) {
                    Cond::Expr(E::bin(if t { Bin::Gt } else { Bin::Lt }, E::Sym(rng.pick(&equs).clone()), E::Lit(0, 0)))
                } else {
                    Cond::Expr(E::Lit(t as i64, 0))
                };
                let d = |k: i64| Node::Data { label: None, width: 2, ops: vec![DataOp::E(E::Lit(k, 1))] };
                v.push(Node::Cond { arms: vec![Arm { cond, body: vec![d(0x100 + marker), d(0x200 + marker)] }], else_body: if rng.chance(1, 2) { Some(vec![d(0x300 + marker)]) } else { None } });
            }
            8 => {
                seg = *rng.pick(&[Seg::Data, Seg::Eeprom, Seg::Code]);
                v.push(Node::Seg(seg));
                if seg == Seg::Data {
                    let l = names.fresh("var", rng);
                    labels.push(l.clone());
                    v.push(Node::Reserve { label: Some(l), n: E::Lit(1 + rng.below(4) as i64, 0) });
                }
            }
            _ => {
                if seg != Seg::Code {
                    seg = Seg::Code;
                    v.push(Node::Seg(seg));
                }
                v.push(Node::instr("mov", vec![Opnd::Reg(rng.below(32) as u8), Opnd::Reg(rng.below(32) as u8)]));
            }
        }
    }
    if seg != Seg::Code {
        v.push(Node::Seg(Seg::Code));
    }
    v.push(Node::instr("nop", vec![]));
    Base { nodes: v, labels }
}

/// (kind, nodes to insert; the FIRST printed line of them is the faulty line)
fn faults(labels: &[String], rng: &mut Rng) -> Vec<(&'static str, Vec<Node>)> {
    let raw = |s: &str| vec![Node::Raw(s.to_string())];
    let mut v: Vec<(&'static str, Vec<Node>)> = vec![
        ("syntax", raw(*rng.pick(&["bla bla bla", "ldi r16,", ".db 1,,2", "?!", "mov r1 r2", "ldi r16, (1+", ".equ = 5"]))),
        // characters the language gives no meaning to, alone on a line or in front of a comment (blank and tab are
        // the only white space of the language)
        ("stray-character-line", raw(*rng.pick(&["\u{a0}; note", "\u{a0}", "\u{c}", "\u{b}// x", "\u{3000}", "\u{2028}; c", "\u{85}", "\u{2003}\t; indented", " \u{a0} ", "\u{200b}", "\u{c}\tnop"]))),
        ("unknown-mnemonic", raw(*rng.pick(&["\tfrobnicate r1, 2", "\tfrobnicate", "\tldx r1, 5"]))),
        ("register-for-expression", raw(*rng.pick(&["\tldi r16, r17", "\tout r1, r2", "\trjmp r5"]))),
        ("expression-for-register", raw(*rng.pick(&["\tmov r1, 5", "\tinc 7", "\tldi 16, 1", "\tpush 1+2"]))),
        ("immediate-out-of-range", raw(*rng.pick(&["\tldi r16, 256", "\tldi r16, -129", "\tandi r17, 1000", "\tadiw r24, 64", "\tcpi r31, 0x100"]))),
        ("register-class", raw(*rng.pick(&["\tldi r15, 1", "\tadiw r23, 1", "\tmovw r1, r2", "\tmuls r2, r3"]))),
        ("port-out-of-range", raw(*rng.pick(&["\tout 64, r0", "\tsbi 32, 0", "\tin r0, 64", "\tcbi -1, 0"]))),
        ("bit-out-of-range", raw(*rng.pick(&["\tsbi 0, 8", "\tbst r0, 8", "\tsbrc r1, 9", "\tbset 8", "\tbld r0, -1"]))),
        ("displacement-out-of-range", raw(*rng.pick(&["\tldd r0, Y+64", "\tstd Z+100, r1"]))),
        ("relative-target-out-of-range", raw(*rng.pick(&["\trjmp pc+3000", "\tbreq pc+100", "\tbrne pc-100", "\trcall pc-2100"]))),
        ("operand-count", raw(*rng.pick(&["\tadd r1", "\tnop r1", "\tldi r16", "\tmov r1, r2, r3"]))),
        ("directive-operand-count", raw(*rng.pick(&[".byte 1, 2", ".device ATmega8, ATmega16", ".byte 2, 1, 0", ".org 0x3000 1", ".org 0x3000, 0x3001"]))),
        ("directive-operand-count", {
            let (open, close) = *rng.pick(&[(".if 1 no_such_symbol", ".endif"), (".if 0 no_such_symbol", ".endif"), (".if 1, 2", ".endif"), (".ifdef never_defined_flag other", ".endif"), (".ifndef never_defined_flag other", ".endif")]);
            vec![Node::Raw(open.into()), Node::Raw(close.into())]
        }),
        ("undefined-symbol-in-instruction", raw(*rng.pick(&["\tldi r16, no_such_symbol", "\tlds r0, no_such_symbol", "\trjmp no_such_label", "\tldi r16, low(no_such_symbol)"]))),
        // the undefined name sits where it cannot change the value: it is still an undefined name
        ("undefined-symbol-in-dead-operand", raw(*rng.pick(&["\tldi r16, 0 && no_such_symbol", "\tldi r16, 5 || no_such_symbol", "\tldi r16, 0 * no_such_symbol", ".db 1, 0 && no_such_symbol", ".dw 1 || no_such_symbol", ".set fresh_set_var = 0 && no_such_symbol", "\tldi r16, no_such_symbol & 0", "\tldi r16, (1 || no_such_symbol) + 1", ".dw no_such_symbol - no_such_symbol", "\tldi r16, 0 && (1 / 0)", ".db 1 || (1 % 0)"]))),
        ("undefined-symbol-in-dead-operand-of-if", vec![Node::Cond { arms: vec![Arm { cond: Cond::Expr(E::bin(Bin::LAnd, E::Lit(0, 0), E::Sym("no_such_symbol".into()))), body: vec![] }], else_body: None }]),
        ("undefined-symbol-in-dead-operand-of-if", vec![Node::Cond { arms: vec![Arm { cond: Cond::Expr(E::bin(Bin::LOr, E::Lit(1, 0), E::Sym("no_such_symbol".into()))), body: vec![] }], else_body: None }]),
        ("undefined-alias", raw("\tinc no_such_alias")),
        ("undefined-symbol-in-data", raw(*rng.pick(&[".db no_such_symbol", ".dw no_such_symbol + 1", ".dd 1, no_such_symbol", ".dq high(no_such_symbol)"]))),
        ("undefined-symbol-in-set", raw(*rng.pick(&[".set fresh_set_var = no_such_symbol", ".set fresh_set_var = 1 + no_such_symbol"]))),
        ("undefined-symbol-in-if", vec![Node::Cond { arms: vec![Arm { cond: Cond::Expr(E::Sym("no_such_symbol".into())), body: vec![] }], else_body: None }]),
        ("data-value-out-of-range", raw(*rng.pick(&[".db 256", ".dw 65536", ".dd 4294967296", ".db -129", ".dw 1, 2, -32769"]))),
        ("string-in-word-directive", raw(*rng.pick(&[".dw \"ab\"", ".dd 1, \"x\""]))),
        ("error-directive", vec![Node::Message(MsgKind::Error, "boom".into())]),
        ("division-by-zero", raw(*rng.pick(&[".dw 1/0", "\tldi r16, 5 % 0"]))),
    ];
    // the same kinds with names of a thousand and more characters: however long the text the error has to quote,
    // the line number is part of it
    {
        let long = format!("{}_{}", ["no_such_symbol_with_a_very_long_name", "NoSuchSymbolWithAVeryLongName", "x"][rng.usize(3)], "long_".repeat(190 + rng.usize(60)));
        v.push(("unknown-mnemonic", raw(&format!("\tfrob{} r1, 2", long))));
        v.push(("undefined-symbol-in-instruction", raw(&format!("\tldi r16, low({})", long))));
        v.push(("undefined-symbol-in-data", raw(&format!(".dw 1, {} + 1", long))));
        v.push(("undefined-symbol-in-set", raw(&format!(".set fresh_set_var = {}", long))));
        v.push(("undefined-symbol-in-if", vec![Node::Cond { arms: vec![Arm { cond: Cond::Expr(E::Sym(long.clone())), body: vec![] }], else_body: None }]));
        v.push(("undefined-alias", raw(&format!("\tinc {}", long))));
    }
    if !labels.is_empty() {
        let l = rng.pick(labels).clone();
        v.push(("duplicate-label", vec![Node::Label(crate::gen::spell::case(&l, rng))]));
        // a label of the program (defined before or behind the faulty line) where only what is known while the
        // text is read can stand: the position of a label is not - the line at fault is the directive's
        let l = rng.pick(labels).clone();
        let l = crate::gen::spell::case(&l, rng);
        v.push(("label-where-it-has-no-value-yet", match rng.below(3) {
            0 => vec![Node::Raw(format!(".if {}", l)), Node::Raw(".endif".into())],
            1 => vec![Node::Raw(format!(".if {} + 1 > 0", l)), Node::Raw(".endif".into())],
            _ => vec![Node::Raw(format!(".org {} + 0x2000", l))],
        }));
    }
    v
}

/// positions on the assembling path: (path to a node list, index) encoded as top-level index plus optional taken-arm index
#[derive(Clone, Debug)]
enum Pos {
    Top(usize),
    InTaken(usize, usize), // chain at top-level index, position inside the taken body
}

fn positions(nodes: &[Node]) -> Vec<Pos> {
    let mut v = vec![];
    for i in 1..=nodes.len() {
        v.push(Pos::Top(i));
    }
    for (i, n) in nodes.iter().enumerate() {
        if let Node::Cond { arms, else_body } = n {
            // which body is taken? conditions are literal or `equ > 0` / `equ < 0` with positive equ values
            let taken_first = match &arms[0].cond {
                Cond::Expr(E::Lit(v, _)) => *v != 0,
                Cond::Expr(E::Bin(Bin::Gt, _, _)) => true,
                _ => false,
            };
            let len = if taken_first { arms[0].body.len() } else { else_body.as_ref().map(|b| b.len()).unwrap_or(usize::MAX) };
            if len != usize::MAX {
                for k in 0..=len {
                    v.push(Pos::InTaken(i, k));
                }
            }
        }
    }
    v
}

fn insert_at(nodes: &[Node], pos: &Pos, ins: &[Node]) -> Vec<Node> {
    let mut out = nodes.to_vec();
    match pos {
        Pos::Top(i) => {
            for (k, n) in ins.iter().enumerate() {
                out.insert(i + k, n.clone());
            }
        }
        Pos::InTaken(i, k) => {
            if let Node::Cond { arms, else_body } = &mut out[*i] {
                let taken_first = match &arms[0].cond {
                    Cond::Expr(E::Lit(v, _)) => *v != 0,
                    Cond::Expr(E::Bin(Bin::Gt, _, _)) => true,
                    _ => false,
                };
                let body = if taken_first { &mut arms[0].body } else { else_body.as_mut().unwrap() };
                for (j, n) in ins.iter().enumerate() {
                    body.insert(k + j, n.clone());
                }
            }
        }
    }
    out
}

/// line number (1-based, canonical print) of the first line of the inserted nodes
fn line_of(nodes: &[Node], pos: &Pos) -> usize {
    match pos {
        Pos::Top(i) => 1 + layout::count_lines(&nodes[..*i]),
        Pos::InTaken(i, k) => {
            let before = layout::count_lines(&nodes[..*i]);
            if let Node::Cond { arms, else_body } = &nodes[*i] {
                let taken_first = match &arms[0].cond {
                    Cond::Expr(E::Lit(v, _)) => *v != 0,
                    Cond::Expr(E::Bin(Bin::Gt, _, _)) => true,
                    _ => false,
                };
                if taken_first {
                    before + 1 + layout::count_lines(&arms[0].body[..*k]) + 1
                } else {
                    // .if line + first body + .else line
                    before + 1 + layout::count_lines(&arms[0].body) + 1 + layout::count_lines(&else_body.as_ref().unwrap()[..*k]) + 1
                }
            } else {
                0
            }
        }
    }
}

fn line_of_label(nodes: &[Node], name: &str) -> Option<usize> {
    // top-level labels only (labels are generated at top level)
    for (i, n) in nodes.iter().enumerate() {
        let hit = match n {
            Node::Label(l) => l.eq_ignore_ascii_case(name),
            Node::Instr { label: Some(l), .. } | Node::Reserve { label: Some(l), .. } | Node::Data { label: Some(l), .. } => l.eq_ignore_ascii_case(name),
            _ => false,
        };
        if hit {
            return Some(1 + layout::count_lines(&nodes[..i]));
        }
    }
    None
}

fn check_fault(ctx: &Ctx, b: &Base, pos: &Pos, kind: &str, ins: &[Node]) {
    let faulty = insert_at(&b.nodes, pos, ins);
    let p = line_of(&b.nodes, pos);
    let src = ir::print_canonical(&faulty);
    let out = fw::build_str(&src);
    ctx.eval(1);
    ctx.count(&format!("fault:{}", kind), 1);
    let ctxname = match pos {
        Pos::Top(_) => "top-level",
        Pos::InTaken(..) => "in-taken-branch",
    };
    let replay = json!({"source": src, "fault_kind": kind, "fault_line": p, "context": ctxname, "faulty_text": src.lines().nth(p - 1), "observed": out.brief()});
    match &out {
        Outcome::Ok(_) => ctx.violation(format!("diag/{}/build-succeeded", kind), format!("line {} `{}` is at fault but the build succeeded", p, src.lines().nth(p - 1).unwrap_or("")), replay),
        Outcome::Panic(pn) => ctx.violation(format!("diag/{}/panic", kind), format!("line {} `{}`: {}", p, src.lines().nth(p - 1).unwrap_or(""), fw::clip(pn, 120)), replay),
        Outcome::Err(e) => {
            let mut ok = has_line_token(e, p);
            if !ok && kind == "duplicate-label" {
                if let Some(Node::Label(l)) = ins.first() {
                    // the original definition moved down by one line if it sits after the insertion
                    if let Some(orig) = line_of_label(&faulty, l) {
                        let other = if orig == p { line_of_label_second(&faulty, l) } else { Some(orig) };
                        ok = other.map(|o| has_line_token(e, o)).unwrap_or(false);
                    }
                }
            }
            if !ok {
                ctx.violation(
                    format!("diag/{}/line-not-named", kind),
                    format!("line {} `{}` is at fault but the error does not name it: {}", p, src.lines().nth(p - 1).unwrap_or("").trim(), fw::clip(e, 160)),
                    replay,
                );
            }
        }
    }
}

fn leading_blank_lines(rng: &mut Rng) -> (String, usize) {
    let k = rng.usize(4);
    let mut s = String::new();
    for _ in 0..k {
        s.push_str(*rng.pick(&["\n", "  \n", "\t\n", " \t \n"]));
    }
    (s, k)
}

/// The faulty programs once more as files: the whole program as a file that begins with blank lines, and
/// with a run of top-level lines around the fault moved into an included file that begins with blank lines.
/// A line number counts the lines of the file the line stands in, blank ones included.
fn check_faults_in_files(ctx: &Ctx, b: &Base, rng: &mut Rng) {
    let n = b.nodes.len();
    for (kind, ins) in faults(&b.labels, rng) {
        if kind == "duplicate-label" {
            continue;
        }
        let i = 1 + rng.usize(n);
        let pos = Pos::Top(i);
        let faulty = insert_at(&b.nodes, &pos, &ins);
        let p = line_of(&b.nodes, &pos);
        let whole = ir::print_canonical(&faulty);
        if whole.to_lowercase().contains(".exit") {
            continue;
        }
        let (lead1, k1) = leading_blank_lines(rng);
        let (lead2, k2) = leading_blank_lines(rng);
        let a = 1 + rng.usize(i);
        let e = i + ins.len() + rng.usize(faulty.len() - (i + ins.len()) + 1);
        let before = layout::count_lines(&faulty[..a]);
        let main_split = format!("{}{}.include \"part.inc\"\n{}", lead1, ir::print_canonical(&faulty[..a]), ir::print_canonical(&faulty[e..]));
        let part = format!("{}{}", lead2, ir::print_canonical(&faulty[a..e]));
        for (shape, main, part, want) in [
            ("file-begins-with-blank-lines", format!("{}{}", lead1, whole), String::new(), p + k1),
            ("in-included-file", main_split, part, p - before + k2),
        ] {
            let out = fw::build_main_with_part(&main, &part);
            ctx.eval(1);
            ctx.count(&format!("fault_in_files:{}", shape), 1);
            let replay = json!({"main": main, "part": part, "fault_kind": kind, "fault_line": want, "context": shape, "observed": out.brief()});
            match &out {
                Outcome::Err(e) if e.starts_with("HARNESS:") => ctx.inconclusive(e.clone()),
                Outcome::Ok(_) => ctx.violation(format!("diag/{}/{}/build-succeeded", kind, shape), format!("line {} is at fault but the build succeeded", want), replay),
                Outcome::Panic(pn) => ctx.violation(format!("diag/{}/{}/panic", kind, shape), fw::clip(pn, 120), replay),
                Outcome::Err(e) => {
                    if !has_line_token(e, want) {
                        ctx.violation(format!("diag/{}/{}/line-not-named", kind, shape), format!("line {} of its file is at fault but the error does not name it: {}", want, fw::clip(e, 160)), replay);
                    }
                }
            }
        }
    }
}

/// A second definition of an existing label appended behind a segment boundary (`.org`, `.dseg`,
/// `.eseg`, `.eseg` + `.cseg`): still a duplicate, whichever segment the first definition lives in.
fn check_duplicate_across_segments(ctx: &Ctx, b: &Base, rng: &mut Rng) {
    if b.labels.is_empty() {
        return;
    }
    let l = rng.pick(&b.labels).clone();
    let dup = crate::gen::spell::case(&l, rng);
    let tails: Vec<(&'static str, Vec<Node>)> = vec![
        ("behind-org", vec![Node::Org(E::Lit(0x1000 + rng.range(0, 64), 1)), Node::Label(dup.clone()), Node::instr("nop", vec![])]),
        ("in-dseg", vec![Node::Seg(Seg::Data), Node::Reserve { label: Some(dup.clone()), n: E::Lit(1, 0) }]),
        ("in-eseg", vec![Node::Seg(Seg::Eeprom), Node::Data { label: Some(dup.clone()), width: 1, ops: vec![DataOp::E(E::Lit(1, 0))] }]),
        ("after-returning-to-cseg", vec![Node::Seg(Seg::Eeprom), Node::Data { label: None, width: 1, ops: vec![DataOp::E(E::Lit(1, 0))] }, Node::Seg(Seg::Code), Node::Label(dup.clone())]),
    ];
    for (how, tail) in tails {
        let mut nodes = b.nodes.clone();
        let at = tail.iter().position(|n| line_of_label(std::slice::from_ref(n), &dup).is_some()).unwrap();
        let p = 1 + layout::count_lines(&nodes) + layout::count_lines(&tail[..at]);
        nodes.extend(tail);
        let src = ir::print_canonical(&nodes);
        let out = fw::build_str(&src);
        ctx.eval(1);
        ctx.count("fault:duplicate-label-across-segments", 1);
        let replay = json!({"source": src, "fault_kind": "duplicate-label", "fault_line": p, "context": how, "faulty_text": src.lines().nth(p - 1), "observed": out.brief()});
        match &out {
            Outcome::Ok(_) => ctx.violation(format!("diag/duplicate-label/{}/build-succeeded", how), format!("line {} `{}` defines `{}` a second time but the build succeeded", p, src.lines().nth(p - 1).unwrap_or("").trim(), l), replay),
            Outcome::Panic(pn) => ctx.violation(format!("diag/duplicate-label/{}/panic", how), fw::clip(pn, 120), replay),
            Outcome::Err(e) => {
                let first = line_of_label(&nodes, &l);
                if !(has_line_token(e, p) || first.map(|o| has_line_token(e, o)).unwrap_or(false)) {
                    ctx.violation(format!("diag/duplicate-label/{}/line-not-named", how), format!("second definition in line {} (first in {:?}) but the error names neither: {}", p, first, fw::clip(e, 160)), replay);
                }
            }
        }
    }
}

/// The single faulty line sits in the body of a macro (behind blank and comment-only lines, with and
/// without parameters) that is called once at the end of the program: the line at fault is still the
/// line it is written on. Likewise `.message`/`.warning` lines of a body carry their own line numbers.
fn check_in_macro_body(ctx: &Ctx, b: &Base, rng: &mut Rng) {
    let base_src = ir::print_canonical(&b.nodes);
    let mut base_lines: Vec<String> = base_src.lines().map(|l| l.to_string()).collect();
    let first = base_lines.remove(0); // the leading comment stays line 1
    let filler = |rng: &mut Rng, with_args: bool| -> String {
        match rng.below(5) {
            0 => String::new(),
            1 => "   ".to_string(),
            2 => "; a note inside the body".to_string(),
            3 if with_args => "\tldi @0, @1".to_string(),
            _ => "\tnop".to_string(),
        }
    };
    let singles: Vec<(&'static str, String)> = faults(&[], rng)
        .into_iter()
        .filter(|(_, ins)| ins.len() == 1 && matches!(ins[0], Node::Raw(_) | Node::Message(..)))
        .map(|(k, ins)| (k, ir::print_canonical(&ins).trim_end_matches('\n').to_string()))
        .collect();
    for (kind, fault_text) in singles {
        let with_args = rng.chance(1, 2);
        let mut lines = vec![first.clone(), ".macro c15_body".to_string()];
        for _ in 0..rng.usize(6) {
            lines.push(filler(rng, with_args));
        }
        lines.push(fault_text.clone());
        let p = lines.len();
        for _ in 0..rng.usize(4) {
            lines.push(filler(rng, with_args));
        }
        lines.push(".endm".to_string());
        lines.extend(base_lines.iter().cloned());
        lines.push(if with_args { "\tc15_body r16, 1".to_string() } else { "\tc15_body".to_string() });
        let call_line = lines.len();
        let src = lines.join("\n") + "\n";
        let out = fw::build_str(&src);
        ctx.eval(1);
        ctx.count("fault-in-macro-body", 1);
        let replay = json!({"source": src, "fault_kind": kind, "fault_line": p, "context": if with_args { "macro-body-with-parameters" } else { "macro-body" }, "call_line": call_line, "faulty_text": fault_text, "observed": out.brief()});
        match &out {
            Outcome::Ok(_) => ctx.violation(format!("diag/{}/in-macro-body/build-succeeded", kind), format!("body line {} `{}` is at fault but the build succeeded", p, fault_text.trim()), replay),
            Outcome::Panic(pn) => ctx.violation(format!("diag/{}/in-macro-body/panic", kind), fw::clip(pn, 120), replay),
            Outcome::Err(e) => {
                if !has_line_token(e, p) {
                    ctx.violation(format!("diag/{}/in-macro-body/line-not-named", kind), format!("body line {} `{}` is at fault (macro called in line {}) but the error does not name it: {}", p, fault_text.trim(), call_line, fw::clip(e, 160)), replay);
                }
            }
        }
    }
    // messages of a body
    let mut lines = vec![first.clone(), ".macro c15_talk".to_string()];
    let mut expect: Vec<(usize, String, bool)> = vec![];
    for k in 0..1 + rng.usize(4) {
        for _ in 0..rng.usize(4) {
            lines.push(filler(rng, false).replace("\tnop", ""));
        }
        let warn = rng.chance(1, 2);
        let text = format!("body msg#{}", k);
        lines.push(format!("{} \"{}\"", if warn { ".warning" } else { ".message" }, text));
        expect.push((lines.len(), text, warn));
    }
    lines.push(".endm".to_string());
    lines.extend(base_lines.iter().cloned());
    lines.push("\tc15_talk".to_string());
    let src = lines.join("\n") + "\n";
    let out = fw::build_str(&src);
    let base_out = fw::build_str(&base_src);
    ctx.eval(1);
    ctx.count("messages-in-macro-body", expect.len() as u64);
    let replay = json!({"source": src, "base": base_src, "kind": "messages", "observed": out.brief()});
    match (&out, &base_out) {
        (Outcome::Ok(a), Outcome::Ok(bo)) => {
            if a.code != bo.code || a.eeprom != bo.eeprom || a.ram_filling != bo.ram_filling {
                ctx.violation("diag/messages/in-macro-body/images-changed", "a macro holding only .message/.warning lines changed the images", replay);
            } else {
                for (line, text, warn) in &expect {
                    let hit = a.messages.iter().any(|m| {
                        let lower = m.to_lowercase();
                        m.contains(text.as_str()) && has_line_token(m, *line) && (if *warn { lower.contains("warn") } else { !lower.starts_with("warn") })
                    });
                    if !hit {
                        ctx.violation("diag/messages/in-macro-body/line", format!("message `{}` written in body line {} is not reported with that line and kind: {:?}", text, line, a.messages), replay);
                        break;
                    }
                }
            }
        }
        (o, Outcome::Ok(_)) => ctx.violation("diag/messages/in-macro-body/build-failed", format!("program with a message-only macro does not build: {:?}", o.brief()), replay),
        _ => ctx.inconclusive("base program invalid"),
    }
}

fn line_of_label_second(nodes: &[Node], name: &str) -> Option<usize> {
    let mut seen = false;
    for (i, n) in nodes.iter().enumerate() {
        let hit = match n {
            Node::Label(l) => l.eq_ignore_ascii_case(name),
            Node::Instr { label: Some(l), .. } | Node::Reserve { label: Some(l), .. } | Node::Data { label: Some(l), .. } => l.eq_ignore_ascii_case(name),
            _ => false,
        };
        if hit {
            if seen {
                return Some(1 + layout::count_lines(&nodes[..i]));
            }
            seen = true;
        }
    }
    None
}

fn check_messages(ctx: &Ctx, b: &Base, rng: &mut Rng) {
    // sprinkle .message/.warning over assembled and unassembled positions
    let mut nodes = b.nodes.clone();
    let n_msgs = 1 + rng.usize(6);
    for k in 0..n_msgs {
        let text = format!("msg#{} with, punctuation; and 'quotes'", k);
        let kind = if rng.chance(1, 2) { MsgKind::Message } else { MsgKind::Warning };
        // top-level, or inside any branch of a chain (taken or not)
        let chain_idx: Vec<usize> = nodes.iter().enumerate().filter(|(_, n)| matches!(n, Node::Cond { .. })).map(|(i, _)| i).collect();
        if !chain_idx.is_empty() && rng.chance(1, 2) {
            let ci = *rng.pick(&chain_idx);
            if let Node::Cond { arms, else_body } = &mut nodes[ci] {
                if else_body.is_some() && rng.chance(1, 2) {
                    let body = else_body.as_mut().unwrap();
                    let at = rng.usize(body.len() + 1);
                    body.insert(at, Node::Message(kind, text));
                } else {
                    let at = rng.usize(arms[0].body.len() + 1);
                    arms[0].body.insert(at, Node::Message(kind, text));
                }
            }
        } else {
            let at = 1 + rng.usize(nodes.len());
            nodes.insert(at, Node::Message(kind, text));
        }
    }
    let src = ir::print_canonical(&nodes);
    let base_src = ir::print_canonical(&b.nodes);
    let out = fw::build_str(&src);
    let base_out = fw::build_str(&base_src);
    let reference = layout::assemble(&layout::single(nodes.clone()));
    ctx.eval(1);
    ctx.count("message_programs", 1);
    let expected: Vec<Value> = reference.as_ref().map(|r| r.messages.iter().map(|m| json!({"line": m.line, "text": m.text, "warning": matches!(m.kind, MsgKind::Warning)})).collect()).unwrap_or_default();
    let replay = json!({"source": src, "base": base_src, "kind": "messages", "expected": expected, "observed": out.brief()});
    match (&reference, &out, &base_out) {
        (Ok(r), Outcome::Ok(a), Outcome::Ok(bo)) => {
            if a.code != bo.code || a.eeprom != bo.eeprom || a.ram_filling != bo.ram_filling {
                ctx.violation("diag/messages/images-changed", "adding .message/.warning lines changed the images".to_string(), replay);
            } else {
                let ok = a.messages.len() == r.messages.len() && a.messages.iter().zip(&r.messages).all(|(m, rm)| m.contains(&rm.text) && has_line_token(m, rm.line));
                // kinds must be distinguishable: a warning is not reported as plain info and vice versa
                let kinds_ok = a.messages.iter().zip(&r.messages).all(|(m, rm)| {
                    let lower = m.to_lowercase();
                    match rm.kind {
                        MsgKind::Warning => lower.contains("warn"),
                        _ => !lower.starts_with("warn"),
                    }
                });
                if !ok {
                    ctx.violation("diag/messages/list", format!("messages {:?}, expected (line, text) {:?}", a.messages, r.messages.iter().map(|m| (m.line, m.text.clone())).collect::<Vec<_>>()), replay);
                } else if !kinds_ok {
                    ctx.violation("diag/messages/kind", format!("messages {:?} do not distinguish warnings from messages", a.messages), replay);
                } else {
                    ctx.count("message_events_checked", a.messages.len() as u64);
                    // the same program as files: a run of top-level lines in an included file, both files beginning
                    // with blank lines - every message still arrives, in source order, with the number of its
                    // line in the file it stands in
                    if !src.to_lowercase().contains(".exit") && nodes.len() >= 3 {
                        let (lead1, k1) = leading_blank_lines(rng);
                        let (lead2, k2) = leading_blank_lines(rng);
                        let x = 1 + rng.usize(nodes.len() - 1);
                        let y = x + 1 + rng.usize(nodes.len() - x);
                        let l0 = layout::count_lines(&nodes[..x]);
                        let lp = layout::count_lines(&nodes[x..y]);
                        let main = format!("{}{}.include \"part.inc\"\n{}", lead1, ir::print_canonical(&nodes[..x]), ir::print_canonical(&nodes[y..]));
                        let part = format!("{}{}", lead2, ir::print_canonical(&nodes[x..y]));
                        let want: Vec<(usize, String, bool)> = r
                            .messages
                            .iter()
                            .map(|m| {
                                let g = m.line;
                                let l = if g <= l0 { k1 + g } else if g <= l0 + lp { k2 + g - l0 } else { k1 + l0 + 1 + g - l0 - lp };
                                (l, m.text.clone(), matches!(m.kind, MsgKind::Warning))
                            })
                            .collect();
                        let fo = fw::build_main_with_part(&main, &part);
                        ctx.eval(1);
                        ctx.count("message_programs_as_files", 1);
                        let in_part = r.messages.iter().filter(|m| m.line > l0 && m.line <= l0 + lp).count();
                        ctx.count("message_events_in_included_files", in_part as u64);
                        let good = match &fo {
                            Outcome::Ok(f) => f.messages.len() == want.len() && f.messages.iter().zip(&want).all(|(m, (l, t, w))| m.contains(t.as_str()) && has_line_token(m, *l) && if *w { m.to_lowercase().contains("warn") } else { !m.to_lowercase().starts_with("warn") }),
                            Outcome::Err(e) if e.starts_with("HARNESS:") => {
                                ctx.inconclusive(e.clone());
                                true
                            }
                            _ => false,
                        };
                        if !good {
                            let expected: Vec<Value> = want.iter().map(|(l, t, w)| json!({"line": l, "text": t, "warning": w})).collect();
                            ctx.violation(
                                if in_part > 0 { "diag/messages/in-files/included-file" } else { "diag/messages/in-files/main-file" },
                                format!("messages {:?}, expected (line in its file, text) {:?}", fo.brief(), want.iter().map(|(l, t, _)| (*l, t.clone())).collect::<Vec<_>>()),
                                json!({"main": main, "part": part, "kind": "messages", "expected": expected, "observed": fo.brief()}),
                            );
                        }
                    }
                }
            }
        }
        (Err(RefErr::Indeterminate(_)), _, _) => ctx.count("reference_undecided", 1),
        (_, o, _) if !o.is_ok() => ctx.violation("diag/messages/build-failed", format!("program with only .message/.warning added does not build: {:?}", o.brief()), replay),
        _ => ctx.inconclusive("base program invalid"),
    }
}

/// The same `.message` / `.warning` line assembled hundreds of times in a row (a macro called again and again, a
/// file included again and again, a line repeated in the source): every one of them is in the list.
fn repeated_messages(ctx: &Ctx) {
    for n in [2usize, 100, 101, 150, 256, 1000] {
        for (how, src, line_of) in [
            ("macro-called-again", format!(".macro note\n\tnop\n.warning \"again\"\n.endm\n{}", "\tnote\n".repeat(n)), Box::new(|_k: usize| 3usize) as Box<dyn Fn(usize) -> usize>),
            ("line-repeated", format!("\tnop\n{}", ".message \"again\"\n".repeat(n)), Box::new(|k: usize| 2 + k)),
            ("macro-with-argument-in-between", format!(".macro note\n.message \"again\"\n\tldi r16, @0\n.endm\n{}", (0..n).map(|k| format!("\tnote {}\n", k % 200)).collect::<String>()), Box::new(|_k: usize| 2)),
        ] {
            let out = fw::build_str(&src);
            ctx.eval(1);
            ctx.count("repeated_message_programs", 1);
            let ok = match &out {
                Outcome::Ok(b) => b.messages.len() == n && b.messages.iter().enumerate().all(|(k, m)| m.contains("again") && has_line_token(m, line_of(k))),
                _ => false,
            };
            if !ok {
                let got = match &out { Outcome::Ok(b) => b.messages.len(), _ => 0 };
                ctx.violation(
                    format!("diag/messages/repeated/{}", how),
                    format!("{} times the same message ({}): {} entries in the list ({:?})", n, how, got, out.kind()),
                    json!({"source": src, "base": "", "kind": "repeated-messages", "expected_count": n, "observed": fw::clip(&format!("{:?}", out.brief()), 300)}),
                );
            }
        }
    }
    // a file with a message, included again and again
    for n in [2usize, 101, 120, 300] {
        let main = format!("\tnop\n{}", ".include \"part.inc\"\n".repeat(n));
        let out = fw::build_main_with_part(&main, "\tnop\n.message \"from the file\"\n");
        ctx.eval(1);
        ctx.count("repeated_message_programs", 1);
        let ok = match &out {
            Outcome::Ok(b) => b.messages.len() == n && b.messages.iter().all(|m| m.contains("from the file") && has_line_token(m, 2)),
            Outcome::Err(e) if e.starts_with("HARNESS:") => true,
            _ => false,
        };
        if !ok {
            let got = match &out { Outcome::Ok(b) => b.messages.len(), _ => 0 };
            ctx.violation("diag/messages/repeated/file-included-again", format!("a file with one .message included {} times: {} entries in the list ({:?})", n, got, out.kind()), json!({"main": main, "part": "\tnop\n.message \"from the file\"\n", "kind": "messages", "expected": (0..n).map(|_| json!({"line": 2, "text": "from the file", "warning": false})).collect::<Vec<_>>()}));
        }
    }
}

pub fn run(ctx: &Ctx) -> i32 {
    repeated_messages(ctx);
    let n = ctx.tier.pick(300u64, 10_000u64);
    fw::par_for(n, 4, |i| {
        let mut rng = Rng::for_case(ctx.seed, 0xC15, i);
        let b = base(&mut rng);
        let src = ir::print_canonical(&b.nodes);
        // the base must be valid
        let o = fw::build_str(&src);
        if !o.is_ok() {
            ctx.inconclusive(format!("base program does not build: {:?}", o.brief()));
            return;
        }
        ctx.distinct(fw::hash_str(&src));
        if i < 2 {
            ctx.sample(json!({"base_program": src.lines().collect::<Vec<_>>()}));
        }
        let poss = positions(&b.nodes);
        for pos in &poss {
            // every position gets every fault kind (one random instance of each)
            for (kind, ins) in faults(&b.labels, &mut rng) {
                check_fault(ctx, &b, pos, kind, &ins);
            }
        }
        ctx.count("positions", poss.len() as u64);
        check_duplicate_across_segments(ctx, &b, &mut rng);
        check_in_macro_body(ctx, &b, &mut rng);
        check_faults_in_files(ctx, &b, &mut rng);
        for _ in 0..3 {
            check_messages(ctx, &b, &mut rng);
        }
    });
    // known finding (KNOWN_FINDINGS.txt): messages of macro bodies are listed after all top-level ones
    if let Ok(src) = std::fs::read_to_string(fw::verif_root().join("findings").join("C15-message-order-with-macros.asm")) {
        let out = fw::build_str(&src);
        ctx.eval(1);
        ctx.count("known_finding_probes", 1);
        let order: Vec<&str> = match &out {
            Outcome::Ok(b) => b.messages.iter().map(|m| if m.contains("in body") { "body" } else if m.contains("mid") { "mid" } else { "?" }).collect(),
            _ => vec![],
        };
        if order != ["body", "mid", "body"] {
            ctx.violation("diag/messages/order/macro-body-messages-after-top-level", format!("call / .message \"mid\" / call lists its messages as {:?}", order), json!({"source": src, "kind": "messages", "base": "", "witness": "findings/C15-message-order-with-macros.asm", "observed": out.brief()}));
        }
    }
    fw::finish(
        ctx,
        "valid base programs of 5-40 lines (labels, instructions, data, .equ, .set, conditional blocks, three segments) x every insertion position on the assembling path (top level and inside the taken branch) x 25 kinds of single-line fault (syntax, unknown mnemonic/macro, register<->expression confusion, out-of-range immediate/register class/port/bit/displacement/relative target, operand count, undefined symbol in instruction/alias/data/.set/.if - also in an operand that cannot change the value (0 && x, 1 || x, 0 * x) -, duplicate label, a label of the program in .if / .org (where it has no value yet), out-of-range data, string in word directive, .error, division by zero): build must fail with an error containing the token `line: p`; per base every single-line fault kind once more inside the body of a macro (behind blank and comment-only lines, with and without parameters) that is called once, and a macro holding only .message/.warning lines (each must be reported with the number of the body line it is written on); per base 4 second definitions of an existing label appended behind a segment boundary (.org, .dseg, .eseg, .eseg then .cseg); per base every fault kind once more as files (the whole program as a file beginning with 0-3 blank lines; a run of top-level lines around the fault moved into an included file beginning with blank lines: the error names the line counted in the file it stands in); plus 3 message placements per base, each also split over a main and an included file, (.message/.warning at top level and inside taken/untaken branches): images unchanged, message list equals the expected (text, line, order, kind distinguishable); distinct_nontrivial = distinct base programs; counters fault:* = faulty builds per kind",
        &["every program starts with a comment line so p >= 2 (PEG errors embed `line: 1`); for a duplicate label either defining line is accepted", "a fault inside a macro body is attributed to the body line it is written on (the line at fault); the order of body messages relative to top-level messages is not checked"],
    )
}

pub fn replay(ctx: &Ctx, case: &Value) -> i32 {
    if let (Some(main), Some(part)) = (case["main"].as_str(), case["part"].as_str()) {
        let out = fw::build_main_with_part(main, part);
        ctx.eval(1);
        ctx.distinct(1);
        ctx.distinct(2);
        let bad = if let Some(exp) = case["expected"].as_array() {
            match &out {
                Outcome::Ok(a) => {
                    !(a.messages.len() == exp.len()
                        && a.messages.iter().zip(exp).all(|(m, e)| {
                            let lower = m.to_lowercase();
                            let kind_ok = if e["warning"].as_bool() == Some(true) { lower.contains("warn") } else { !lower.starts_with("warn") };
                            m.contains(e["text"].as_str().unwrap_or("\u{0}")) && has_line_token(m, e["line"].as_u64().unwrap_or(0) as usize) && kind_ok
                        }))
                }
                _ => true,
            }
        } else {
            match &out {
                Outcome::Err(e) => !has_line_token(e, case["fault_line"].as_u64().unwrap_or(0) as usize),
                _ => true,
            }
        };
        if bad {
            ctx.violation("diag/replay", "the program built from files still deviates", case.clone());
        }
        return fw::finish(ctx, "replay", &[]);
    }
    let src = case["source"].as_str().unwrap_or("");
    let out = fw::build_str(src);
    ctx.eval(1);
    ctx.distinct(1);
    ctx.distinct(2);
    if case["kind"].as_str() == Some("repeated-messages") {
        let n = case["expected_count"].as_u64().unwrap_or(0) as usize;
        if !matches!(&out, Outcome::Ok(b) if b.messages.len() == n) {
            ctx.violation("diag/replay", "the list still does not hold every message", case.clone());
        }
        return fw::finish(ctx, "replay", &[]);
    }
    if case["kind"].as_str() == Some("messages") {
        let base = fw::build_str(case["base"].as_str().unwrap_or(""));
        let same = match (&out, &base) {
            (Outcome::Ok(a), Outcome::Ok(b)) => a.code == b.code && a.eeprom == b.eeprom,
            _ => false,
        };
        if !same {
            ctx.violation("diag/replay", "message program still differs from its base", case.clone());
        } else if let (Outcome::Ok(a), Some(exp)) = (&out, case["expected"].as_array()) {
            let ok = a.messages.len() == exp.len()
                && a.messages.iter().zip(exp).all(|(m, e)| {
                    let lower = m.to_lowercase();
                    let kind_ok = if e["warning"].as_bool() == Some(true) { lower.contains("warn") } else { !lower.starts_with("warn") };
                    m.contains(e["text"].as_str().unwrap_or("\u{0}")) && has_line_token(m, e["line"].as_u64().unwrap_or(0) as usize) && kind_ok
                });
            if !ok {
                ctx.violation("diag/replay", format!("messages {:?} still do not match the expected list", a.messages), case.clone());
            }
        }
    } else {
        let p = case["fault_line"].as_u64().unwrap_or(0) as usize;
        let ok = match &out {
            Outcome::Err(e) => has_line_token(e, p) || case["fault_kind"].as_str() == Some("duplicate-label"),
            _ => false,
        };
        if !ok {
            ctx.violation("diag/replay", format!("fault at line {} still not reported: {:?}", p, out.brief()), case.clone());
        }
    }
    fw::finish(ctx, "replay", &[])
}
