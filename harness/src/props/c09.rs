//! C09 — a macro call behaves as its body with the call's arguments substituted.
//!
//! Oracle: build(program with macros) == build(hand-expanded program, expanded on the IR with
//! arguments substituted as values) == reference image. Negatives: undefined macro, omitted
//! argument that the body uses.

use crate::fw::{self, Ctx, Outcome, Rng};
use crate::gen::ir::{self, Arm, Cond, DataOp, Names, Node, Opnd, Seg};
use crate::gen::spell;
use crate::refmodel::expr::{self, Bin, Expected, Un, E};
use crate::refmodel::isa::{self, Idx};
use crate::refmodel::layout::{self, RefErr};
use serde_json::{json, Value};
use std::collections::HashMap;

#[derive(Clone, Copy, PartialEq, Debug)]
enum Role {
    RegHigh,
    RegAny,
    Index,
    Disp,
    /// whole-operand expression in 0..=255
    Byte,
    /// whole-operand expression in 0..=65535
    Word,
    /// used inside a larger expression: atomic / parenthesised / function-call arguments only
    Inner,
    /// I/O port 0..=63 as whole operand
    Port,
}

struct MacroDef {
    name: String,
    roles: Vec<Role>,
    body: Vec<Node>,
    end_long: bool,
    /// sets or tests #define flags while it is expanded
    stateful: bool,
}

fn param_expr(n: usize) -> E {
    E::Sym(format!("@{}", n))
}

/// small random expression with a value in lo..=hi (rejection sampling over small literals)
fn small_expr(rng: &mut Rng, lo: i64, hi: i64, equs: &[(String, i64)]) -> E {
    let env: expr::Env = equs.iter().map(|(n, v)| (n.to_lowercase(), *v)).collect();
    for _ in 0..200 {
        let d = 1 + rng.below(3) as u32;
        let e = small_tree(rng, d, equs, hi);
        if let Some(Expected::Value(v)) = expr::eval(&e, &env, 0) {
            if v >= lo && v <= hi && !e.children().is_empty() {
                return e;
            }
        }
    }
    E::bin(Bin::Add, E::Lit(lo, 0), E::Lit((hi - lo).min(3), 0))
}

fn small_tree(rng: &mut Rng, depth: u32, equs: &[(String, i64)], hi: i64) -> E {
    if depth == 0 {
        return match rng.below(5) {
            0 if !equs.is_empty() => E::Sym(spell::case(&rng.pick(equs).0, rng)),
            1 => E::Lit(rng.range(0, hi.min(300)), rng.below(5) as u8),
            _ => E::Lit(rng.range(0, 12), if rng.chance(1, 4) { 1 } else { 0 }),
        };
    }
    match rng.below(10) {
        0 => E::un(*rng.pick(&[Un::Neg, Un::Not, Un::Com]), small_tree(rng, depth - 1, equs, hi)),
        1 => E::Paren(Box::new(small_tree(rng, depth - 1, equs, hi))),
        2 => E::Func(*rng.pick(&["low", "high", "lwrd", "byte2"]), Box::new(small_tree(rng, depth - 1, equs, hi))),
        _ => {
            let op = *rng.pick(&[Bin::Add, Bin::Add, Bin::Sub, Bin::Mul, Bin::Div, Bin::Rem, Bin::Shl, Bin::Shr, Bin::And, Bin::Or, Bin::Xor, Bin::Lt, Bin::Ge, Bin::Eq, Bin::Ne, Bin::LAnd, Bin::LOr]);
            E::bin(op, small_tree(rng, depth - 1, equs, hi), small_tree(rng, depth - 1, equs, hi))
        }
    }
}

fn arg_for(role: Role, rng: &mut Rng, equs: &[(String, i64)]) -> Opnd {
    match role {
        Role::RegHigh => Opnd::Reg(16 + rng.below(16) as u8),
        Role::RegAny => Opnd::Reg(rng.below(32) as u8),
        Role::Index => Opnd::Idx(*rng.pick(&Idx::all())),
        Role::Disp => Opnd::Disp(*rng.pick(&['Y', 'Z', 'y', 'z']), if rng.chance(1, 2) { E::Lit(rng.range(0, 63), 0) } else { small_expr(rng, 0, 63, equs) }),
        Role::Byte => Opnd::Expr(if rng.chance(1, 4) { E::Lit(rng.range(0, 255), rng.below(5) as u8) } else { small_expr(rng, 0, 255, equs) }),
        Role::Word => Opnd::Expr(if rng.chance(1, 4) { E::Lit(rng.range(0, 65535), rng.below(3) as u8) } else { small_expr(rng, 0, 65535, equs) }),
        Role::Port => Opnd::Expr(if rng.chance(1, 2) { E::Lit(rng.range(0, 63), 0) } else { small_expr(rng, 0, 63, equs) }),
        Role::Inner => Opnd::Expr(match rng.below(4) {
            0 => E::Lit(rng.range(0, 20), rng.below(3) as u8),
            1 if !equs.is_empty() => E::Sym(spell::case(&rng.pick(equs).0, rng)),
            2 => E::Paren(Box::new(small_expr(rng, 0, 20, equs))),
            _ => E::Func("low", Box::new(small_expr(rng, 0, 20, equs))),
        }),
    }
}

struct G<'a> {
    rng: &'a mut Rng,
    names: Names,
    marker: i64,
    equs: Vec<(String, i64)>,
    /// #define flags that macro bodies set and test while they are expanded
    flags: Vec<String>,
}

impl<'a> G<'a> {
    fn marker(&mut self) -> Node {
        self.marker += 1;
        Node::Data { label: None, width: 2, ops: vec![DataOp::E(E::Lit(0x2000 + self.marker, 1))] }
    }

    /// one macro definition; `callable` are already defined macros it may call
    fn macro_def(&mut self, callable: &[MacroDef]) -> MacroDef {
        let name = {
            let n = self.names.fresh("mac", self.rng);
            spell::case(&n, self.rng)
        };
        let mut roles: Vec<Role> = vec![];
        let mut body: Vec<Node> = vec![];
        let n_lines = 1 + self.rng.usize(5);
        // Bodies that set or test #define flags are only ever called from the top level and call no
        // other macro: the tool decides all conditionals of a body before it expands the calls nested in
        // it (known finding macro/state/*), which would otherwise drown every other signal.
        let stateful = self.rng.chance(1, 3);
        let callable: Vec<&MacroDef> = callable.iter().filter(|m| !m.stateful).collect();
        let mut param = |roles: &mut Vec<Role>, rng: &mut Rng, r: Role| -> usize {
            // reuse an existing parameter of the same role sometimes, up to ten parameters
            let same: Vec<usize> = roles.iter().enumerate().filter(|(_, x)| **x == r).map(|(i, _)| i).collect();
            if (!same.is_empty() && rng.chance(1, 3)) || roles.len() >= 10 {
                if same.is_empty() {
                    return usize::MAX;
                }
                *rng.pick(&same)
            } else {
                roles.push(r);
                roles.len() - 1
            }
        };
        for _ in 0..n_lines {
            let mut choice = self.rng.below(19);
            if !stateful && (14..17).contains(&choice) {
                choice = self.rng.below(14);
            }
            if stateful && choice == 9 {
                choice = 14 + self.rng.below(3);
            }
            match choice {
                0 | 1 => {
                    let a = param(&mut roles, self.rng, Role::RegHigh);
                    let b = param(&mut roles, self.rng, Role::Byte);
                    if a != usize::MAX && b != usize::MAX {
                        body.push(Node::instr("ldi", vec![Opnd::Param(a as u8), Opnd::Param(b as u8)]));
                    }
                }
                2 => {
                    let a = param(&mut roles, self.rng, Role::RegAny);
                    let b = param(&mut roles, self.rng, Role::RegAny);
                    if a != usize::MAX && b != usize::MAX {
                        body.push(Node::instr("mov", vec![Opnd::Param(a as u8), Opnd::Param(b as u8)]));
                    }
                }
                3 => {
                    let a = param(&mut roles, self.rng, Role::RegAny);
                    let b = param(&mut roles, self.rng, Role::Index);
                    if a != usize::MAX && b != usize::MAX {
                        if self.rng.chance(1, 2) {
                            body.push(Node::instr("ld:X", vec![Opnd::Param(a as u8), Opnd::Param(b as u8)]));
                        } else {
                            body.push(Node::instr("st:X", vec![Opnd::Param(b as u8), Opnd::Param(a as u8)]));
                        }
                    }
                }
                4 => {
                    let a = param(&mut roles, self.rng, Role::RegAny);
                    let b = param(&mut roles, self.rng, Role::Disp);
                    if a != usize::MAX && b != usize::MAX {
                        if self.rng.chance(1, 2) {
                            body.push(Node::instr("ldd:Y", vec![Opnd::Param(a as u8), Opnd::Param(b as u8)]));
                        } else {
                            body.push(Node::instr("std:Y", vec![Opnd::Param(b as u8), Opnd::Param(a as u8)]));
                        }
                    }
                }
                5 => {
                    let p = param(&mut roles, self.rng, Role::Port);
                    let a = param(&mut roles, self.rng, Role::RegAny);
                    if a != usize::MAX && p != usize::MAX {
                        body.push(Node::instr("out", vec![Opnd::Param(p as u8), Opnd::Param(a as u8)]));
                    }
                }
                6 => {
                    let w = param(&mut roles, self.rng, Role::Word);
                    if w != usize::MAX {
                        if self.rng.chance(1, 2) {
                            body.push(Node::Data { label: None, width: 2, ops: vec![DataOp::E(param_expr(w))] });
                        } else {
                            body.push(Node::Data { label: None, width: 1, ops: vec![DataOp::E(E::Func("low", Box::new(param_expr(w)))), DataOp::E(E::Func("high", Box::new(param_expr(w))))] });
                        }
                    }
                }
                7 => {
                    // parameter inside a larger expression
                    let i = param(&mut roles, self.rng, Role::Inner);
                    if i != usize::MAX {
                        let e = match self.rng.below(4) {
                            0 => E::bin(Bin::Add, param_expr(i), E::Lit(1, 0)),
                            1 => E::bin(Bin::Mul, param_expr(i), E::Lit(3, 0)),
                            2 => E::bin(Bin::Sub, E::Lit(100, 0), param_expr(i)),
                            _ => E::bin(Bin::Shl, param_expr(i), E::Lit(2, 0)),
                        };
                        body.push(Node::Data { label: None, width: 2, ops: vec![DataOp::E(e)] });
                    }
                }
                8 => {
                    // conditional on a parameter
                    let i = param(&mut roles, self.rng, Role::Inner);
                    if i != usize::MAX {
                        let k = self.rng.range(0, 20);
                        let m1 = self.marker();
                        let m2 = self.marker();
                        let cond = Cond::Expr(E::bin(*self.rng.pick(&[Bin::Gt, Bin::Lt, Bin::Eq, Bin::Ge]), param_expr(i), E::Lit(k, 0)));
                        let else_body = if self.rng.chance(2, 3) { Some(vec![m2]) } else { None };
                        body.push(Node::Cond { arms: vec![Arm { cond, body: vec![m1] }], else_body });
                    }
                }
                9 if !callable.is_empty() => {
                    // nested call passing parameters on
                    let callee = callable[self.rng.usize(callable.len())];
                    let mut args = vec![];
                    let mut ok = true;
                    for r in &callee.roles {
                        let p = param(&mut roles, self.rng, *r);
                        if p == usize::MAX {
                            ok = false;
                            break;
                        }
                        args.push(match r {
                            Role::RegHigh | Role::RegAny | Role::Index | Role::Disp => Opnd::Param(p as u8),
                            _ => Opnd::Expr(param_expr(p)),
                        });
                    }
                    if ok {
                        body.push(Node::MacroCall { name: spell::case(&callee.name, self.rng), args });
                    }
                }
                10 => {
                    // body that switches segments and returns to code
                    body.push(self.marker());
                    body.push(Node::Seg(Seg::Data));
                    body.push(Node::Reserve { label: None, n: E::Lit(1 + self.rng.below(4) as i64, 0) });
                    body.push(Node::Seg(Seg::Code));
                    // (sometimes the switch back is the last thing the body does)
                    if self.rng.chance(2, 3) {
                        body.push(self.marker());
                    }
                }
                14 => {
                    // emit-once idiom: what the body assembles depends on state an earlier expansion left behind
                    self.marker += 1;
                    let flag = format!("ONCE_FLAG_{}", self.marker);
                    let m1 = self.marker();
                    let m2 = self.marker();
                    body.push(Node::Cond { arms: vec![Arm { cond: Cond::NDef(flag.clone()), body: vec![Node::Define(flag), m1] }], else_body: if self.rng.chance(2, 3) { Some(vec![m2]) } else { None } });
                }
                15 => {
                    // a flag that some other macro sets
                    if self.flags.is_empty() || self.rng.chance(1, 3) {
                        self.marker += 1;
                        self.flags.push(format!("SHARED_FLAG_{}", self.marker));
                    }
                    let flag = self.rng.pick(&self.flags).clone();
                    let m1 = self.marker();
                    let m2 = self.marker();
                    let cond = if self.rng.chance(1, 2) { Cond::Def(flag) } else { Cond::NDef(flag) };
                    body.push(Node::Cond { arms: vec![Arm { cond, body: vec![m1] }], else_body: Some(vec![m2]) });
                }
                16 => {
                    if !self.flags.is_empty() {
                        let flag = self.rng.pick(&self.flags).clone();
                        body.push(Node::Define(flag));
                        body.push(self.marker());
                    }
                }
                17 => {
                    // lines that differ only in the letter case of a string (case matters inside strings)
                    let w = *self.rng.pick(&["ok", "Done", "abc", "x"]);
                    body.push(Node::Data { label: None, width: 1, ops: vec![DataOp::S(w.to_lowercase())] });
                    body.push(Node::Data { label: None, width: 1, ops: vec![DataOp::S(w.to_uppercase())] });
                    if self.rng.chance(1, 2) {
                        body.push(Node::Data { label: None, width: 1, ops: vec![DataOp::S(w.to_lowercase())] });
                    }
                }
                18 => {
                    // ... and of a character literal
                    let a = param(&mut roles, self.rng, Role::RegHigh);
                    if a != usize::MAX {
                        let c = *self.rng.pick(&[b'a', b'q', b'z']) as i64;
                        let mn = *self.rng.pick(&["cpi", "ldi", "subi"]);
                        body.push(Node::instr(mn, vec![Opnd::Param(a as u8), Opnd::Expr(E::Lit(c, 5))]));
                        body.push(Node::instr(mn, vec![Opnd::Param(a as u8), Opnd::Expr(E::Lit(c - 32, 5))]));
                    }
                }
                11 => {
                    let b = param(&mut roles, self.rng, Role::Byte);
                    if b != usize::MAX {
                        body.push(Node::Seg(Seg::Eeprom));
                        body.push(Node::Data { label: None, width: 1, ops: vec![DataOp::E(param_expr(b)), DataOp::E(E::Lit(self.rng.range(0, 255), 0))] });
                        body.push(Node::Seg(Seg::Code));
                        if self.rng.chance(2, 3) {
                            body.push(self.marker());
                        }
                    }
                }
                _ => body.push(self.marker()),
            }
        }
        if body.is_empty() {
            body.push(self.marker());
        }
        MacroDef { name, roles, body, end_long: self.rng.chance(1, 3), stateful }
    }
}

pub struct Prog {
    pub nodes: Vec<Node>,
    pub negative: Option<&'static str>,
}

pub fn gen(rng: &mut Rng) -> Prog {
    let mut g = G { rng, names: Names::new(), marker: 0, equs: vec![], flags: vec![] };
    let mut nodes = vec![Node::Comment("C09 macro program".into())];
    for _ in 0..g.rng.below(3) {
        let n = g.names.fresh("eq", g.rng);
        let v = g.rng.range(0, 20);
        nodes.push(Node::Equ(n.clone(), E::Lit(v, 0)));
        g.equs.push((n, v));
    }
    let n_macros = 1 + g.rng.usize(4);
    let mut defs: Vec<MacroDef> = vec![];
    for _ in 0..n_macros {
        let d = g.macro_def(&defs);
        defs.push(d);
    }
    // definitions are placed before or after their calls
    let mut def_nodes: Vec<Node> = defs.iter().map(|d| Node::MacroDef { name: d.name.clone(), body: d.body.clone(), end_long: d.end_long }).collect();
    let mut late = vec![];
    if g.rng.chance(1, 3) && !def_nodes.is_empty() {
        let k = g.rng.usize(def_nodes.len());
        late.push(def_nodes.remove(k));
    }
    nodes.extend(def_nodes);
    let negative: Option<&'static str> = match g.rng.below(12) {
        0 => Some("undefined-macro"),
        1 => Some("omitted-argument"),
        _ => None,
    };
    let n_calls = 1 + g.rng.usize(6);
    let neg_at = g.rng.usize(n_calls);
    let mut neg_done = false;
    for ci in 0..n_calls {
        if g.rng.chance(1, 3) {
            let m = g.marker();
            nodes.push(m);
        }
        let d = &defs[g.rng.usize(defs.len())];
        let equs = g.equs.clone();
        let mut args: Vec<Opnd> = d.roles.iter().map(|r| arg_for(*r, g.rng, &equs)).collect();
        let mut name = spell::case(&d.name, g.rng);
        if ci == neg_at {
            match negative {
                Some("undefined-macro") => {
                    name = format!("{}_nope", name);
                    neg_done = true;
                }
                Some("omitted-argument") if !args.is_empty() => {
                    // drop the last argument (every parameter is used by the body)
                    args.pop();
                    neg_done = true;
                }
                _ => {}
            }
        }
        nodes.push(Node::MacroCall { name: name.clone(), args: args.clone() });
        // the very same call again (same name spelling, same argument text), sometimes after another call
        if negative.is_none() && g.rng.chance(1, 3) {
            if g.rng.chance(1, 2) {
                let d2 = &defs[g.rng.usize(defs.len())];
                let equs = g.equs.clone();
                let a2: Vec<Opnd> = d2.roles.iter().map(|r| arg_for(*r, g.rng, &equs)).collect();
                nodes.push(Node::MacroCall { name: d2.name.clone(), args: a2 });
            }
            nodes.push(Node::MacroCall { name, args });
        }
    }
    nodes.push(g.marker());
    nodes.extend(late);
    Prog { nodes, negative: if neg_done { negative } else { None } }
}

fn feature_sig(nodes: &[Node]) -> String {
    // coarse structural features of the macros used, for the signature
    let mut seg = false;
    let mut nested = false;
    let mut cond = false;
    let mut upper = false;
    fn walk(b: &[Node], seg: &mut bool, nested: &mut bool, cond: &mut bool) {
        for n in b {
            match n {
                Node::Seg(_) => *seg = true,
                Node::MacroCall { .. } => *nested = true,
                Node::Cond { arms, else_body } => {
                    *cond = true;
                    for a in arms {
                        walk(&a.body, seg, nested, cond);
                    }
                    if let Some(e) = else_body {
                        walk(e, seg, nested, cond);
                    }
                }
                _ => {}
            }
        }
    }
    for n in nodes {
        if let Node::MacroDef { name, body, .. } = n {
            walk(body, &mut seg, &mut nested, &mut cond);
            if name.chars().any(|c| c.is_ascii_uppercase()) {
                upper = true;
            }
        }
    }
    let mut v = vec![];
    if seg {
        v.push("segswitch");
    }
    if nested {
        v.push("nested");
    }
    if cond {
        v.push("cond");
    }
    if upper {
        v.push("mixedcase-name");
    }
    if v.is_empty() {
        v.push("plain");
    }
    v.join("+")
}

pub fn check(ctx: &Ctx, p: &Prog) {
    let src = ir::print_canonical(&p.nodes);
    ctx.eval(1);
    let mut macros = HashMap::new();
    layout::collect_macros(&p.nodes, &mut macros);
    let expanded = layout::expand_macros(&p.nodes, &macros, 0);
    let reference = layout::assemble(&layout::single(p.nodes.clone()));
    let out = fw::build_str(&src);
    let feat = feature_sig(&p.nodes);
    match (&expanded, &reference) {
        (Err(_), _) | (_, Err(RefErr::Fail(_))) => {
            // must fail
            let replay = json!({"source": src, "negative": p.negative, "observed": out.brief()});
            if p.negative.is_none() {
                ctx.inconclusive(format!("generator produced an invalid macro program: {:?} / {:?}", expanded.as_ref().err(), reference.as_ref().err()));
                return;
            }
            match &out {
                Outcome::Ok(_) => ctx.violation(format!("macro/{}/accepted", p.negative.unwrap()), format!("program with {} was assembled", p.negative.unwrap()), replay),
                Outcome::Panic(pn) => ctx.violation(format!("macro/{}/panic", p.negative.unwrap()), fw::clip(pn, 140), replay),
                Outcome::Err(_) => ctx.count("negative_programs_rejected", 1),
            }
            return;
        }
        (_, Err(RefErr::Indeterminate(_))) => {
            ctx.count("reference_undecided", 1);
            return;
        }
        _ => {}
    }
    let expanded = expanded.unwrap();
    let r = reference.unwrap();
    let hand = ir::print_canonical(&expanded);
    let hand_out = fw::build_str(&hand);
    let replay = |d: Value| json!({"source": src, "hand_expanded": hand, "detail": d, "observed": out.brief(), "observed_hand_expanded": hand_out.brief()});
    if !hand_out.is_ok() {
        ctx.inconclusive(format!("hand-expanded program does not build: {:?}", hand_out.brief()));
        return;
    }
    match (&out, &hand_out) {
        (Outcome::Panic(pn), _) => ctx.violation(format!("macro/{}/panic", feat), fw::clip(pn, 140), replay(json!(null))),
        (Outcome::Err(e), _) => ctx.violation(format!("macro/{}/valid-call-rejected", feat), format!("macro program rejected although the hand-expanded program builds: {}", fw::clip(e, 160)), replay(json!(null))),
        (Outcome::Ok(a), Outcome::Ok(b)) => {
            if (&a.code, &a.eeprom, a.ram_filling) != (&b.code, &b.eeprom, b.ram_filling) {
                ctx.violation(
                    format!("macro/{}/differs-from-hand-expanded", feat),
                    format!("code {} vs hand-expanded {}; eeprom {} vs {}; ram {} vs {}", fw::hex(&a.code, 48), fw::hex(&b.code, 48), fw::hex(&a.eeprom, 16), fw::hex(&b.eeprom, 16), a.ram_filling, b.ram_filling),
                    replay(json!(null)),
                );
            } else if a.code != r.code || a.eeprom != r.eeprom || a.ram_filling != r.ram_filling {
                ctx.violation(format!("macro/{}/differs-from-reference", feat), format!("code {} vs reference {}", fw::hex(&a.code, 48), fw::hex(&r.code, 48)), replay(json!({"expect_code": fw::hex(&r.code, 4096)})));
            } else {
                ctx.count("valid_programs_compared", 1);
                across_files(ctx, p, a, &feat);
                crate::props::variants::check_one(ctx, &p.nodes, a, &mut Rng::for_case(fw::hash_str(&src), 0x7A80, 0), "macro");
            }
        }
        _ => {}
    }
}

/// A run of top-level lines (whole definitions, whole calls) moved into an included file: calls and
/// definitions then meet across file boundaries in every order - a call in the included file whose
/// definition only follows in the including file, definitions in the included file, both.
fn across_files(ctx: &Ctx, p: &Prog, whole: &fw::BuildResult, feat: &str) {
    let n = p.nodes.len();
    if n < 3 {
        return;
    }
    let mut rng = Rng::for_case(fw::hash_str(&ir::print_canonical(&p.nodes)), 0xC09_F, 0);
    if ctx.tier == fw::Tier::Thorough && rng.below(4) != 0 {
        return;
    }
    let a = rng.usize(n - 1);
    let b = a + 1 + rng.usize(n - a - 1);
    let part = ir::print_canonical(&p.nodes[a..b]);
    if part.to_lowercase().contains(".exit") {
        return;
    }
    let main = format!("{}.include \"part.inc\"\n{}", ir::print_canonical(&p.nodes[..a]), ir::print_canonical(&p.nodes[b..]));
    let out = fw::build_main_with_part(&main, &part);
    ctx.eval(1);
    let has_call = |ns: &[Node]| ns.iter().any(|x| matches!(x, Node::MacroCall { .. }));
    let has_def = |ns: &[Node]| ns.iter().any(|x| matches!(x, Node::MacroDef { .. }));
    let shape = match (has_call(&p.nodes[a..b]), has_def(&p.nodes[a..b]), has_def(&p.nodes[b..])) {
        (true, _, true) => "calls-in-included-file-definitions-follow-in-includer",
        (true, true, false) => "calls-and-definitions-in-included-file",
        (true, false, false) => "calls-in-included-file",
        (false, true, _) => "definitions-in-included-file",
        _ => "other-lines-in-included-file",
    };
    ctx.count(&format!("across_files/{}", shape), 1);
    match &out {
        Outcome::Err(e) if e.starts_with("HARNESS:") => ctx.inconclusive(e.clone()),
        Outcome::Ok(o) if (&o.code, &o.eeprom, o.ram_filling) == (&whole.code, &whole.eeprom, whole.ram_filling) => {}
        _ => ctx.violation(
            format!("macro/{}/across-files/{}", feat, shape),
            format!("top-level lines {}..{} moved into an included file: {} instead of the result of the one-file program", a, b, fw::clip(&format!("{:?}", out.brief()), 160)),
            json!({"source": ir::print_canonical(&p.nodes), "main": main, "part": part, "observed": out.brief()}),
        ),
    }
}

/// fixed probes for the argument shapes the statement names explicitly
fn probes(ctx: &Ctx) {
    let cases: Vec<(&str, &str, &str)> = vec![
        ("macro/arg/parenthesised-product", ".macro m\n.dw @0\n.endm\n m (1+2)*3\n", ".dw (1+2)*3\n"),
        ("macro/arg/negated-parenthesis", ".macro m\n.dw @0 + 100\n.endm\n m -(1+2)\n", ".dw (-(1+2)) + 100\n"),
        ("macro/arg/nested-parentheses", ".macro m\nldi r16, @0\n.endm\n m 2*(3+(4-1))\n", "ldi r16, 2*(3+(4-1))\n"),
        ("macro/arg/shift-or", ".macro m\nldi @0, @1\n.endm\n m r17, 1<<2|1<<1\n", "ldi r17, 1<<2|1<<1\n"),
        ("macro/name/uppercase-definition", ".macro Foo\nnop\n.endm\n foo\n FOO\n Foo\n", "nop\nnop\nnop\n"),
        ("macro/index/all-forms", ".macro m\nld @0, @1\nst @1, @0\n.endm\n m r5, X+\n m r6, -Y\n m r7, Z\n", "ld r5, X+\nst X+, r5\nld r6, -Y\nst -Y, r6\nld r7, Z\nst Z, r7\n"),
        ("macro/index/displacement", ".macro m\nldd @0, @1\n.endm\n m r5, Y+63\n m r6, Z+(1+2)\n", "ldd r5, Y+63\nldd r6, Z+3\n"),
        ("macro/segment-switch/returns-to-code", ".macro m\nldi r16, 1\n.dseg\n.byte 2\n.cseg\nldi r17, 2\n.endm\n m\n m\nldi r18, 3\n", "ldi r16, 1\nldi r17, 2\nldi r16, 1\nldi r17, 2\nldi r18, 3\n.dseg\n.byte 4\n"),
        ("macro/ten-parameters", ".macro m\n.db @0,@1,@2,@3,@4,@5,@6,@7,@8,@9\n.endm\n m 1,2,3,4,5,6,7,8,9,10\n", ".db 1,2,3,4,5,6,7,8,9,10\n"),
        ("macro/emit-once-idiom", ".macro once\n.ifndef ONCE_DONE\n#define ONCE_DONE\n.dw 0x1111\n.else\n.dw 0x2222\n.endif\n.endm\n once\n once\n once\n", ".dw 0x1111\n.dw 0x2222\n.dw 0x2222\n"),
        ("macro/flag-set-between-identical-calls", ".macro tflag\n.ifdef FAST\n.dw 1\n.else\n.dw 2\n.endif\n.endm\n.macro setfast\n#define FAST\n.endm\n tflag\n setfast\n tflag\n", ".dw 2\n.dw 1\n"),
        // one root cause, two shapes: every conditional of a file or body is decided while that text is parsed,
        // macro calls in it are expanded afterwards
        ("macro/state/conditional-after-nested-call-sees-stale-defines", ".macro inner\n#define INNER_RAN\n.endm\n.macro outer\n inner\n.ifdef INNER_RAN\n.dw 1\n.else\n.dw 2\n.endif\n.endm\n outer\n", ".dw 1\n"),
        ("macro/state/segment-left-by-body-not-seen-by-following-org", ".macro toee\n.eseg\n.endm\n nop\n toee\n.db 1\n.org 0x10\n.db 2\n", " nop\n.eseg\n.db 1\n.org 0x10\n.db 2\n"),
        ("macro/state/exit-in-body-ends-only-the-expansion", ".macro m\n nop\n.exit\n.endm\n m\n ret\n", " nop\n.exit\n ret\n"),
        ("macro/state/toplevel-conditional-after-call-sees-stale-defines", ".macro setter\n#define SETTER_RAN\n.endm\n setter\n.ifdef SETTER_RAN\n.dw 1\n.else\n.dw 2\n.endif\n", ".dw 1\n"),
        // a macro that is entered again while it is being expanded, with the very same arguments: what the second
        // entry assembles depends on what the first has defined meanwhile
        ("macro/reentered-with-same-arguments/mutual-behind-define-guards", ".macro need_uart\n.ifndef UART_DONE\n#define UART_DONE\n need_fifo\n ldi r16, 1\n.endif\n.endm\n.macro need_fifo\n.ifndef FIFO_DONE\n#define FIFO_DONE\n need_uart\n ldi r17, 2\n.endif\n.endm\n need_uart\n need_fifo\n nop\n", " ldi r17, 2\n ldi r16, 1\n nop\n"),
        ("macro/reentered-with-same-arguments/self-behind-define-guard", ".macro once\n.ifndef ONCE_DONE\n#define ONCE_DONE\n once @0\n ldi @0, 3\n.endif\n.endm\n once r18\n once r18\n", " ldi r18, 3\n"),
        ("macro/reentered-with-same-arguments/three-in-a-ring", ".macro ra\n.ifndef RA\n#define RA\n rb 1\n.dw 1\n.endif\n.endm\n.macro rb\n.ifndef RB\n#define RB\n rc 1\n.dw 2\n.endif\n.endm\n.macro rc\n.ifndef RC\n#define RC\n ra\n rb 1\n.dw 3\n.endif\n.endm\n ra\n", ".dw 3\n.dw 2\n.dw 1\n"),
        ("macro/reentered-with-same-arguments/counting-down-by-equ", ".equ depth_limit = 3\n.macro down\n.if @0 > 0\n down @0 - 1\n.endif\n.dw @0\n.endm\n down depth_limit\n down depth_limit\n", ".dw 0\n.dw 1\n.dw 2\n.dw 3\n.dw 0\n.dw 1\n.dw 2\n.dw 3\n"),
        // a parameter that is only mentioned - in a comment, in a string - is not used: the call need not supply it
        ("macro/parameter-only-mentioned/in-a-comment", ".macro m\n\tldi r16, @0 ; callers used to pass a mask as @2\n.endm\n\tm 1\n", "\tldi r16, 1\n"),
        ("macro/parameter-only-mentioned/in-a-comment-no-arguments", ".macro m\n\tnop ; was: ldi r16, @0\n\tnop // and @1\n.endm\n\tm\n", "\tnop\n\tnop\n"),
        ("macro/parameter-only-mentioned/in-a-block-comment", ".macro m\n\tldi @0, 2 /* @1 is gone */\n.endm\n\tm r17\n", "\tldi r17, 2\n"),
        ("macro/pc-relative-in-repeated-one-line-body", ".macro dly\n rjmp pc+1\n.endm\n dly\n dly\n dly\n", " rjmp pc+1\n rjmp pc+1\n rjmp pc+1\n"),
        ("macro/body-starting-with-eseg", ".macro ee\n.eseg\n.db 1,2,3\n.dw 0x1234\n.cseg\n.endm\n nop\n ee\n nop\n", " nop\n.eseg\n.db 1,2,3\n.dw 0x1234\n.cseg\n nop\n"),
        ("macro/body-starting-with-eseg-called-first", ".macro ee\n.eseg\n.db 1,2,3\n.cseg\n.endm\n ee\n nop\n", ".eseg\n.db 1,2,3\n.cseg\n nop\n"),
        ("macro/call-before-definition", " late r20\n.macro late\nldi @0, 7\n.endm\n", "ldi r20, 7\n"),
    ];
    for (sig, with, plain) in cases {
        let a = fw::build_str(with);
        let b = fw::build_str(plain);
        ctx.eval(1);
        ctx.distinct(fw::hash_str(sig));
        let same = match (&a, &b) {
            (Outcome::Ok(x), Outcome::Ok(y)) => x.code == y.code && x.eeprom == y.eeprom && x.ram_filling == y.ram_filling,
            _ => false,
        };
        if !b.is_ok() {
            ctx.inconclusive(format!("probe baseline does not build: {}", sig));
        } else if !same {
            ctx.violation(sig, format!("macro form yields {:?}, plain form {:?}", a.brief(), b.brief()), json!({"source": with, "hand_expanded": plain, "observed": a.brief()}));
        }
    }
    // "calling an undefined macro or omitting an argument the body uses is an error" - wherever the use
    // sits: forwarded to another macro, in a directive of the data segment, in a definition nobody reads,
    // in the selected branch of a conditional, in an origin
    let must_fail: Vec<(&str, &str)> = vec![
        ("omitted/forwarded-to-inner-macro", ".macro inner\n\tldi r16, @1\n.endm\n.macro outer\n\tinner @1, 7\n.endm\n\touter 5\n"),
        ("omitted/forwarded-second-of-three", ".macro inner\n\t.dw @0, @1, @2\n.endm\n.macro outer\n\tinner @0, @2, 9\n.endm\n\touter 1, 2\n"),
        ("omitted/reservation-in-dseg", ".macro var\n@0:\t.byte @1\n.endm\n.dseg\n\tvar buffer\n.cseg\n\tnop\n"),
        ("omitted/reservation-in-eseg", ".macro evar\n\t.byte @1\n.endm\n.eseg\n\tevar 1\n.cseg\n\tnop\n"),
        ("omitted/in-unused-equ", ".macro konst\n.equ never_read_again = @1\n.endm\n\tkonst 1\n\tnop\n"),
        ("omitted/in-unused-set", ".macro kset\n.set never_read_again = @2\n.endm\n\tkset 1, 2\n\tnop\n"),
        ("omitted/in-selected-branch", ".macro sel\n.if 1\n\t.dw @3\n.else\n\t.dw @0\n.endif\n.endm\n\tsel 1\n"),
        ("omitted/in-origin", ".macro at\n\t.org @1\n\tnop\n.endm\n\tat 0x10\n"),
        ("omitted/in-condition", ".macro cond\n.if @1\n\tnop\n.endif\n.endm\n\tcond 1\n"),
        ("omitted/in-message", ".macro say\n\tldi r16, @0\n\tldi r17, @1\n.endm\n\tsay 1\n"),
        ("omitted/register-operand", ".macro mv\n\tmov @0, @1\n.endm\n\tmv r1\n"),
        ("omitted/all-arguments", ".macro two\n\tldi @0, @1\n.endm\n\ttwo\n"),
        // places where a line would still read well if the parameter simply vanished
        ("omitted/only-operand-of-db", ".macro put\n\t.db @1\n.endm\n\tput 1\n\tnop\n"),
        ("omitted/only-operand-of-dw", ".macro put\n\t.dw @2\n.endm\n\tput 1, 2\n\tnop\n"),
        ("omitted/only-operand-of-dd-in-eseg", ".macro put\n\t.dd @1\n.endm\n.eseg\n\tput 1\n.cseg\n\tnop\n"),
        ("omitted/last-operand-of-db", ".macro put\n\t.db @0, @1\n.endm\n\tput 1\n\tnop\n"),
        ("omitted/pasted-into-label", ".macro lab\nl_@0@1:\n\tnop\n.endm\n\tlab a\n"),
        ("omitted/pasted-into-symbol", ".macro sym\n.equ s_@0@1 = 1\n\tnop\n.endm\n\tsym a\n"),
        ("omitted/only-argument-of-inner-call", ".macro inner\n\tnop\n.endm\n.macro outer\n\tinner @1\n.endm\n\touter 1\n"),
        ("omitted/optional-operand-lpm", ".macro load\n\tlpm @1\n.endm\n\tload 1\n"),
        ("omitted/optional-operand-elpm", ".macro load\n\telpm @2\n.endm\n\tload r0, Z\n"),
        ("omitted/optional-operand-spm", ".macro store\n\tspm @1\n.endm\n\tstore 1\n"),
        ("omitted/after-operator", ".macro add1\n\tldi r16, 1 @1\n.endm\n\tadd1 2\n"),
        ("omitted/inside-parentheses", ".macro par\n\tldi r16, (@1) + 1\n.endm\n\tpar 2\n"),
        ("omitted/second-line-only", ".macro two_lines\n\tldi r16, @0\n\t.dw @1\n.endm\n\ttwo_lines 1\n"),
        ("omitted/in-message-text-operand", ".macro say\n.message @1\n\tnop\n.endm\n\tsay 1\n"),
        ("omitted/parameter-nine", ".macro nine\n\t.db @9\n.endm\n\tnine 0, 1, 2, 3, 4, 5, 6, 7, 8\n"),
        ("undefined/called-from-a-body", ".macro outer\n\tnop\n\tnever_defined_macro 1\n.endm\n\touter\n"),
        ("undefined/called-in-dseg", ".dseg\n\tnever_defined_macro 2\n.cseg\n\tnop\n"),
        ("undefined/called-in-eseg", ".eseg\n\tnever_defined_macro\n.cseg\n\tnop\n"),
    ];
    for (sig, src) in must_fail {
        let out = fw::build_str(src);
        ctx.eval(1);
        ctx.distinct(fw::hash_str(sig));
        if !out.is_err() {
            ctx.violation(format!("macro/must-fail/{}", sig), format!("builds although it must be an error: {:?}", out.brief()), json!({"source": src, "observed": out.brief()}));
        }
    }
}

/// Bodies that place things: `.org` as the first, a middle or the last line of a body (origin and
/// contents as parameters), in the code, data and EEPROM segment, with the caller going on behind
/// the call and with labels on either side referenced across the calls. Compared with the same
/// program written out by hand.
fn placing_bodies(ctx: &Ctx, n: u64) {
    let macros = [
        ("org_last", vec!["\t.dw @1", "\t.org @0"]),
        ("org_first", vec!["\t.org @0", "\t.dw @1"]),
        ("org_mid", vec!["\t.dw @1", "\t.org @0", "\t.dw @1 + 1"]),
        ("org_only", vec!["\t.org @0"]),
        ("org_last_after_roundtrip", vec!["\t.dw @1", ".eseg", "\t.db low(@1)", ".cseg", "\t.org @0"]),
        ("ee_org_last", vec![".eseg", "\t.db low(@1)", "\t.org @0 / 4", ".cseg", "\t.dw @1"]),
        ("data_org_last", vec![".dseg", "\t.byte 2", "\t.org 0x100 + @0", ".cseg", "\t.dw @1"]),
        ("nested_org_last", vec!["\torg_last @0, @1"]),
    ];
    let segment_macros = ".macro reserve\n\t.byte @0\n.endm\n.macro eedata\n\t.db low(@0), high(@0)\n.endm\n";
    fw::par_for(n, 16, |i| {
        let mut rng = Rng::for_case(ctx.seed, 0xC09_0, i);
        let mut src = String::from("; C09 placing bodies\n");
        let mut hand = String::from("; C09 placing bodies, written out\n");
        for (name, body) in &macros {
            src.push_str(&format!(".macro {}\n{}\n.endm\n", name, body.join("\n")));
        }
        src.push_str(segment_macros);
        let mut origin = 8i64;
        let calls = 2 + rng.usize(5);
        for k in 0..calls {
            let both = |t: &str, src: &mut String, hand: &mut String| {
                src.push_str(t);
                hand.push_str(t);
            };
            if rng.chance(1, 2) {
                both(&format!("before_{}:\tnop\n", k), &mut src, &mut hand);
            }
            origin += 16 + 4 * rng.range(0, 8);
            let value = rng.range(0x1000, 0xfff0);
            let (name, body) = rng.pick(&macros);
            src.push_str(&format!("\t{} {}, {}\n", name, origin, value));
            let body: Vec<&str> = if *name == "nested_org_last" { macros[0].1.clone() } else { body.clone() };
            for l in body {
                hand.push_str(&l.replace("@0", &format!("{}", origin)).replace("@1", &format!("{}", value)));
                hand.push('\n');
            }
            // the caller goes on: data, a label, references forwards and backwards
            both(&format!("after_{}:\t.dw 0x{:x}\n", k, 0xa000 + k), &mut src, &mut hand);
            if k > 0 && rng.chance(1, 2) {
                both(&format!("\t.dw after_{}, after_{}\n", k - 1, k), &mut src, &mut hand);
            }
            if rng.chance(1, 3) {
                both(&format!("\t.dw after_{}\n", calls - 1), &mut src, &mut hand);
            }
        }
        // calls written in the data and the EEPROM segment (a macro that reserves a variable, one that
        // emits a record): the body is assembled in the segment of the call
        if rng.chance(2, 3) {
            let (n1, n2, w) = (1 + rng.range(0, 5), 1 + rng.range(0, 5), rng.range(0x100, 0xfff0));
            src.push_str(&format!(".dseg\ndv_a:\n\treserve {}\ndv_b:\n\tReserve {}\ndv_c: .byte 1\n.eseg\nee_a:\n\teedata {}\nee_b: .db 1\n\teedata {} + 1\n.cseg\n\t.dw dv_a, dv_b, dv_c, ee_a, ee_b\n", n1, n2, w, w));
            hand.push_str(&format!(".dseg\ndv_a:\n\t.byte {}\ndv_b:\n\t.byte {}\ndv_c: .byte 1\n.eseg\nee_a:\n\t.db low({}), high({})\nee_b: .db 1\n\t.db low({} + 1), high({} + 1)\n.cseg\n\t.dw dv_a, dv_b, dv_c, ee_a, ee_b\n", n1, n2, w, w, w, w));
        }
        both_end(&mut src, &mut hand);
        let a = fw::build_str(&src);
        let b = fw::build_str(&hand);
        ctx.eval(1);
        ctx.count("placing_body_programs", 1);
        ctx.distinct(fw::hash_str(&src));
        if !b.is_ok() {
            ctx.inconclusive(format!("hand-written placing program does not build: {:?}", b.brief()));
            return;
        }
        let same = match (&a, &b) {
            (Outcome::Ok(x), Outcome::Ok(y)) => x.code == y.code && x.eeprom == y.eeprom && x.ram_filling == y.ram_filling,
            _ => false,
        };
        if !same {
            ctx.violation("macro/placing-body/differs-from-hand-expanded", format!("bodies holding .org: {} vs written out {}", fw::clip(&format!("{:?}", a.brief()), 120), fw::clip(&format!("{:?}", b.brief()), 120)), json!({"source": src, "hand_expanded": hand, "observed": a.brief()}));
        }
    });
}

fn both_end(src: &mut String, hand: &mut String) {
    src.push_str("\tret\n");
    hand.push_str("\tret\n");
}

/// "Called any number of times": tens and hundreds of thousands of calls in one source, compared with the
/// same lines written out.
fn many_calls(ctx: &Ctx) {
    let counts: Vec<usize> = if ctx.tier == fw::Tier::Thorough { vec![33_000, 66_000, 140_000, 270_000, 1_050_000] } else { vec![66_000, 140_000] };
    let mut jobs: Vec<(String, String, String)> = vec![];
    for n in counts.iter() {
        let n = *n;
        jobs.push((format!("one-line-body-with-parameter/{}", n), format!(".macro step\n\tdec @0\n.endm\n{}", "\tstep r16\n".repeat(n)), "\tdec r16\n".repeat(n)));
        jobs.push((format!("two-line-body/{}", n), format!(".macro pair\n\tnop\n\tinc r1\n.endm\n{}", "\tpair\n".repeat(n / 2)), "\tnop\n\tinc r1\n".repeat(n / 2)));
        jobs.push((
            format!("wrapper-calling-two-others/{}", n),
            format!(".macro one\n\tinc @0\n.endm\n.macro two\n\tdec @0\n.endm\n.macro both\n\tone @0\n\ttwo @0\n.endm\n{}", "\tboth r20\n".repeat(n / 3)),
            "\tinc r20\n\tdec r20\n".repeat(n / 3),
        ));
        jobs.push((
            format!("two-macros-in-turn-with-data/{}", n),
            format!(".macro a\n.dw @0\n.endm\n.macro b\n.db @0, @1\n.endm\n{}", "\ta 0x1234\n\tb 1, 2\n".repeat(n / 2)),
            ".dw 0x1234\n.db 1, 2\n".repeat(n / 2),
        ));
        jobs.push((
            format!("calls-between-segment-switches/{}", n),
            format!(".macro step\n\tdec @0\n.endm\n{}", "\tstep r16\n\tstep r17\n.dseg\n.cseg\n".repeat(n / 2)),
            "\tdec r16\n\tdec r17\n".repeat(n / 2),
        ));
    }
    fw::par_items(&jobs, |_, (name, with_calls, written_out)| {
        let a = fw::build_str(with_calls);
        let b = fw::build_str(written_out);
        ctx.eval(1);
        ctx.count("many_calls_builds", 1);
        let same = match (&a, &b) {
            (Outcome::Ok(x), Outcome::Ok(y)) => x.code == y.code && x.eeprom == y.eeprom && x.ram_filling == y.ram_filling && !x.code.is_empty(),
            _ => false,
        };
        if !same {
            ctx.violation(
                format!("macro/many-calls/{}", name.split('/').next().unwrap_or("")),
                format!("{} calls ({}): {} - written out: {}", name.rsplit('/').next().unwrap_or(""), name.split('/').next().unwrap_or(""), fw::clip(&format!("{:?}", a.brief()), 140), fw::clip(&format!("{:?}", b.brief()), 60)),
                json!({"source": with_calls, "hand_expanded": written_out, "many_calls": name}),
            );
        }
    });
}

pub fn run(ctx: &Ctx) -> i32 {
    probes(ctx);
    many_calls(ctx);
    placing_bodies(ctx, ctx.tier.pick(400u64, 200_000u64));
    let n = ctx.tier.pick(3_000u64, 3_000_000u64);
    fw::par_for(n, 32, |i| {
        let mut rng = Rng::for_case(ctx.seed, 0xC09, i);
        let p = gen(&mut rng);
        let text = ir::print_canonical(&p.nodes);
        ctx.distinct(fw::hash_str(&text));
        ctx.set_add("feature_mixes", &feature_sig(&p.nodes));
        if i < 3 {
            ctx.sample(json!({"program": text.lines().collect::<Vec<_>>(), "negative": p.negative}));
        }
        check(ctx, &p);
    });
    fw::finish(
        ctx,
        "programs with 1-4 macro definitions (0-10 parameters; bodies of ldi/mov/ld/st/ldd/std/out with register, index and displacement parameters, .dw/.db on parameters incl. inside larger expressions, .if on a parameter, nested calls passing parameters on, .dseg/.eseg switches returning to .cseg, lines differing only in the letter case of a string or character literal, emit-once blocks (.ifndef F / #define F / ... / .else) and #define flags set by one macro and tested by another; names in mixed case, .endm/.endmacro) and 1-6 calls in any letter case, before or after the definition, (1 in 3 repeated verbatim, directly or after another call) with registers, all nine index forms, Y/Z displacements and random expressions of every precedence as arguments; 1 in 6 programs calls an undefined macro or omits a used argument (must fail); fixed probes for the argument shapes the statement names; plus bodies that place things (.org as first, middle or last body line with origin and contents as parameters, in all three segments, also nested, the caller going on behind the call with labels referenced across calls; calls written under .dseg and .eseg) compared with the program written out; every valid program once more with a random run of its top-level lines moved into an included file (calls before their definition across the file boundary, definitions in the included file) built through build_file; every valid program once more in one randomly chosen setting that means nothing (as a file beginning with blank lines / CRLF / no final line end; a run of top-level lines in an included file; inside a selected branch; followed by .exit and unread text; preceded by unused definitions; respelled; branch and included file at once) with the same images, sizes, RAM extent and message texts required (props/variants.rs; counters variants:*); distinct_nontrivial = distinct program texts",
        &[
            "hand expansion is done on the IR (refmodel/layout.rs::expand_macros): an argument is substituted as a value (parenthesised when it lands inside a larger expression)",
            "a parameter used inside a larger expression is only called with atomic, parenthesised or function-call arguments; labels and messages inside bodies are not generated",
        ],
    )
}

pub fn replay(ctx: &Ctx, case: &Value) -> i32 {
    if case.get("variant").is_some() {
        return crate::props::variants::replay(ctx, case);
    }
    let src = case["source"].as_str().unwrap_or("");
    let a = fw::build_str(src);
    ctx.eval(1);
    ctx.distinct(1);
    ctx.distinct(2);
    if let (Some(main), Some(part)) = (case["main"].as_str(), case["part"].as_str()) {
        let b = fw::build_main_with_part(main, part);
        let same = match (&a, &b) {
            (Outcome::Ok(x), Outcome::Ok(y)) => x.code == y.code && x.eeprom == y.eeprom && x.ram_filling == y.ram_filling,
            _ => false,
        };
        if !same {
            ctx.violation("macro/replay", "the program split over two files still differs from the one-file program", case.clone());
        }
    } else if let Some(hand) = case["hand_expanded"].as_str() {
        let b = fw::build_str(hand);
        let same = match (&a, &b) {
            (Outcome::Ok(x), Outcome::Ok(y)) => x.code == y.code && x.eeprom == y.eeprom && x.ram_filling == y.ram_filling,
            _ => false,
        };
        if !same {
            ctx.violation("macro/replay", "macro program and hand-expanded program still differ", case.clone());
        }
    } else if a.is_ok() || a.is_panic() {
        ctx.violation("macro/replay", "negative macro program still not rejected cleanly", case.clone());
    }
    fw::finish(ctx, "replay", &[])
}
