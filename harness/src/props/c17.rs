//! C17 — builds are deterministic and independent of each other.
//!
//! For a pool of programs (valid and failing, with/without .device, macros, #defines, symbols whose
//! names collide across programs, build_file trees sharing an include directory) the isolated
//! result of each is taken from fresh child processes; then (a) random sequential histories,
//! (b) concurrent schedules released by a barrier, (c) several fresh processes (new hash keys) must
//! all reproduce the isolated result; (d) the BUILD hook shows every build starting from empty
//! tables and the default device, the DEVICES table keeps its fingerprint; (e) Miri leg.

use crate::fw::{self, Ctx, Outcome, Rng, Tier};
use crate::gen::ir;
use crate::monitor::worker;
use crate::props::{c02, c06gen, c08gen, c09, c10};
use crate::refmodel::devices;
use avra_lib::verif::{self, Event};
use serde_json::{json, Value};
use std::collections::{BTreeMap, BTreeSet};
use std::path::PathBuf;
use std::sync::{Barrier, Mutex};

#[derive(Clone)]
pub struct Prog {
    pub name: String,
    /// b'S' source text, b'F' path of the main file
    pub kind: u8,
    pub text: String,
    pub dirs: Vec<PathBuf>,
}

pub fn handmade() -> Vec<(&'static str, &'static str)> {
    vec![
        ("equ-shared-1", ".equ shared = 1\nldi r16, shared\n.dw shared\n"),
        ("equ-shared-2", ".equ shared = 2\nldi r16, shared\n.dw shared\n"),
        ("equ-shared-undefined", "ldi r16, shared\n"),
        ("device-mega8", ".device ATmega8\nldi r16, 1\n.dseg\nv: .byte 2\n.cseg\n.dw v\n"),
        ("no-device-jmp", "jmp 0x1234\n.dseg\nv: .byte 2\n.cseg\n.dw v\n"),
        ("device-tiny13-capacity-fail", ".device ATtiny13\n.org 600\nnop\n"),
        ("no-device-org-600", ".org 600\nnop\n"),
        ("device-tiny20-reduced-lds", ".device ATtiny20\nlds r16, 0x80\n"),
        ("no-device-lds", "lds r16, 0x80\n"),
        ("macro-shared-defined", ".macro shared_mac\nldi @0, 5\n.endm\nshared_mac r20\n"),
        ("macro-shared-redefined", ".macro shared_mac\nldi @0, 6\nnop\n.endm\nshared_mac r21\n"),
        ("macro-shared-undefined", "shared_mac r20\n"),
        ("define-flag", "#define FLAG\n.ifdef FLAG\n.dw 1\n.else\n.dw 2\n.endif\n"),
        ("define-flag-absent", ".ifdef FLAG\n.dw 1\n.else\n.dw 2\n.endif\n"),
        ("def-alias", ".def tmp = r16\ninc tmp\n"),
        ("def-alias-other", ".def tmp = r5\ninc tmp\n"),
        ("def-alias-undefined", "inc tmp\n"),
        ("set-var", ".set v = 1\n.dw v\n.set v = v + 1\n.dw v\n"),
        ("set-var-undefined", ".dw v\n"),
        ("label-loop", "loop: nop\nrjmp loop\n"),
        ("label-loop-elsewhere", "nop\nnop\nloop: nop\nrjmp loop\n"),
        ("label-loop-undefined", "rjmp loop\n"),
        ("messages", ".message \"one\"\n.warning \"two\"\nnop\n"),
        ("messages-then-error", ".message \"one\"\n.error \"three\"\n"),
        ("no-messages", "nop\n"),
        ("empty", ""),
        ("eeprom-and-ram", ".eseg\n.db 1,2,3\n.dseg\nx: .byte 10\n.cseg\n.dw x\n"),
        ("syntax-error", "nop\nbla bla bla\n"),
        ("many-symbols", ".equ a=1\n.equ b=2\n.equ c=3\n.equ d=4\n.equ e=5\n.equ f=6\n.equ g=7\n.equ h=8\n.dw a,b,c,d,e,f,g,h\n.db a+b, c+d, e+f, g+h\n"),
        ("duplicate-label", "x1: nop\nx1: nop\n"),
        ("second-device", ".device ATmega8\n.device ATmega16\n"),
        ("pc-relative", "nop\nrjmp pc+2\nnop\nnop\n.dw pc\n"),
        // failing programs with well-filled tables: an error text that enumerates a hash table would differ from build to build
        ("undefined-macro-among-many", ".macro m_one\nnop\n.endm\n.macro m_two\nnop\n.endm\n.macro m_three\nnop\n.endm\n.macro m_four\nnop\n.endm\n.macro m_five\nnop\n.endm\n.macro m_six\nnop\n.endm\nm_one\nm_seven\n"),
        ("undefined-symbol-among-many", ".equ s1=1\n.equ s2=2\n.equ s3=3\n.equ s4=4\n.equ s5=5\n.equ s6=6\n.equ s7=7\n.equ s8=8\n.set t1=1\n.set t2=2\n.set t3=3\nl1: nop\nl2: nop\nl3: nop\nl4: nop\nldi r16, s9\n"),
        ("undefined-alias-among-many", ".def a1=r1\n.def a2=r2\n.def a3=r3\n.def a4=r4\n.def a5=r5\n.def a6=r6\n.def a7=r7\ninc a8\n"),
        ("duplicate-label-among-many", "k1: nop\nk2: nop\nk3: nop\nk4: nop\nk5: nop\nk6: nop\nk7: nop\nk3: nop\nk5: nop\n"),
        ("duplicate-set-among-many", ".equ u1=1\n.equ u2=2\n.equ u3=3\n.equ u4=4\n.equ u5=5\n.set u3=9\n.set u5=9\n"),
        ("undefined-device-among-defines", "#define D1\n#define D2\n#define D3\n#define D4\n#define D5\n.device ATnothing\n"),
        ("range-error-among-many", ".equ v1=1000\n.equ v2=2000\n.equ v3=3000\n.equ v4=4000\nldi r16, v1\nldi r17, v2\n"),
        ("undef-unknown-among-many", ".def b1=r1\n.def b2=r2\n.def b3=r3\n.def b4=r4\n.def b5=r5\n.undef b9\n"),
        // one name in several spellings, defined more than once: which definition counts must not depend on the
        // order in which a hash table happens to list its entries
        ("macro-redefined-in-other-case", ".macro Delay\nnop\nnop\nnop\n.endm\n.macro DELAY\nnop\n.endm\nldi r16, 1\ndelay\nldi r17, 2\nDelay\nDELAY\ndeLay\n"),
        ("macro-redefined-under-ifdef", "#define FAST\n.macro Wait\nnop\nnop\n.endm\n.ifdef FAST\n.macro WAIT\nret\n.endm\n.endif\nwait\nwAIT\n"),
        ("macro-redefined-thrice", ".macro Put\n.dw 1\n.endm\n.macro PUT\n.dw 2\n.endm\n.macro pUt\n.dw 3\n.endm\nput\nPut\nPUT\npUt\npuT\n"),
        ("macros-many-case-pairs", ".macro Aa\n.dw 1\n.endm\n.macro AA\n.dw 2\n.endm\n.macro Bb\n.dw 3\n.endm\n.macro BB\n.dw 4\n.endm\n.macro Cc\n.dw 5\n.endm\n.macro CC\n.dw 6\n.endm\n.macro Dd\n.dw 7\n.endm\n.macro DD\n.dw 8\n.endm\n.macro Ee\n.dw 9\n.endm\n.macro EE\n.dw 10\n.endm\naa\nbb\ncc\ndd\nee\naA\nbB\ncC\ndD\neE\n"),
        ("set-in-several-spellings", ".set Cnt = 1\n.set CNT = 2\n.dw cnt\n.set cNt = cnT + 5\n.dw CnT\n"),
        ("def-in-several-spellings", ".def Tmp = r16\n.undef TMP\n.def tMP = r17\ninc tmp\ninc TMP\n"),
        ("define-in-several-spellings", "#define Flag\n#define FLAG\n.ifdef flag\n.dw 1\n.endif\n.ifdef Flag\n.dw 2\n.endif\n.ifdef FLAG\n.dw 3\n.endif\n"),
        ("define-in-several-spellings-then-undef", "#define DEBUG\n#define Debug\n#define debug\n.undef debuG\n.ifdef DEBUG\n.dw 1\n.endif\n.ifdef Debug\n.dw 2\n.endif\n.ifdef debug\n.dw 3\n.endif\n"),
        ("define-in-several-spellings-then-hash-undef", "#define Trace\n#define TRACE\n#undef trace\n.ifdef Trace\n.dw 1\n.else\n.dw 2\n.endif\n.ifdef TRACE\n.dw 3\n.else\n.dw 4\n.endif\n"),
        ("def-in-several-spellings-then-undef", ".def Acc = r16\n.undef ACC\n.def ACC = r17\n.def acc2 = r18\n.undef Acc, aCC2\ninc acc\n"),
        ("labels-differing-in-case-only", "Here: nop\nHERE: nop\nrjmp here\n"),
        ("equs-differing-in-case-only", ".equ Val = 1\n.equ VAL = 2\n.dw val\n"),
        ("equ-and-label-differing-in-case", ".equ Spot = 7\nnop\nSPOT: nop\n.dw spot\n"),
    ]
}

pub fn pool(seed: u64, scratch: &std::path::Path, write_files: bool) -> Vec<Prog> {
    let mut v: Vec<Prog> = handmade().into_iter().map(|(n, t)| Prog { name: n.to_string(), kind: b'S', text: t.to_string(), dirs: vec![] }).collect();
    // builds that end at one of the assembler's own resource limits (and their well-behaved twins): whatever
    // such a build counted or cached must be gone when the next one starts
    for (n, t) in [
        ("limit-evaluation-steps", fw::equ_ladder(21, "ldi r16, low(a21)")),
        ("limit-long-evaluation-then-undefined", fw::equ_ladder(18, "ldi r16, low(a18 + nowhere)")),
        ("limit-long-evaluation-ok", fw::equ_ladder(18, "ldi r16, low(a18)\n.dw a10")),
        ("limit-macro-nesting", ".macro again\nnop\nagain\n.endm\nagain\n".to_string()),
        ("limit-macro-nesting-twin", ".macro again\nnop\n.endm\nagain\nagain\n".to_string()),
        ("limit-line-complexity", format!("ldi r16, 1{}\n", "+1".repeat(700))),
        ("limit-line-complexity-twin", format!("ldi r16, 1{}\n", "+1".repeat(40))),
    ] {
        v.push(Prog { name: n.to_string(), kind: b'S', text: t, dirs: vec![] });
    }
    // near misses: failing programs whose unknown name is the beginning of several known names (functions,
    // mnemonics, directives, devices). An error text that offers candidates must offer the same ones every time.
    for (n, t) in [
        ("near-function-lo", "ldi r16, lo(1)\n"), ("near-function-l", ".dw l(1)\n"), ("near-function-h", "ldi r16, h(0x1234)\n"), ("near-function-b", ".db b(1)\n"),
        ("near-function-by", ".db by(1)\n"), ("near-function-byte", ".db byte(0x123456)\n"), ("near-function-e", ".dw e(3)\n"), ("near-function-lw", ".dw lw(1), hw(1)\n"),
        ("near-mnemonic-br", "br pc+1\n"), ("near-mnemonic-s", "s r1\n"), ("near-mnemonic-ad", "ad r1, r2\n"), ("near-mnemonic-ro", "ro r1\n"), ("near-mnemonic-c", "c r1, r2\n"),
        ("near-mnemonic-sb", "sb r1, 1\n"), ("near-mnemonic-m", "m r1, r2\n"), ("near-mnemonic-f", "f r16, r17\n"), ("near-mnemonic-l", "l r1, X\n"), ("near-mnemonic-e", "e\n"), ("near-mnemonic-brb", "brb 1, pc\n"),
        ("near-directive-d", ".d 1\n"), ("near-directive-e", ".e\n"), ("near-directive-i", ".i 1\n"), ("near-directive-in", ".in \"x\"\n"), ("near-directive-de", ".de a = r1\n"),
        ("near-directive-en", ".en\n"), ("near-directive-end", ".end\n"), ("near-directive-if-unclosed", ".ifd X\n"), ("near-directive-m", ".m x\n"), ("near-directive-un", ".un a\n"),
        ("near-device-atmega", ".device ATmega\n"), ("near-device-attiny", ".device ATtiny\n"), ("near-device-atmega1", ".device ATmega1\n"), ("near-device-at90s", ".device AT90S\n"), ("near-device-at", ".device AT\n"), ("near-device-attiny1", ".device ATtiny1\nnop\n"),
        ("near-register-r3x", "mov r3x, r1\n"), ("near-register-r", "mov r, r1\n"), ("near-index-w", "ld r1, W\n"), ("near-symbol-among-similar", ".equ value_a = 1\n.equ value_b = 2\n.equ value_c = 3\n.dw value_\n"),
        ("near-macro-among-similar", ".macro load_a\nnop\n.endm\n.macro load_b\nnop\n.endm\n.macro load_c\nnop\n.endm\nload_ r1\n"), ("near-alias-among-similar", ".def tmp_a = r1\n.def tmp_b = r2\n.def tmp_c = r3\ninc tmp_\n"),
    ] {
        v.push(Prog { name: n.to_string(), kind: b'S', text: t.to_string(), dirs: vec![] });
    }
    // generated programs: the generators number their names per program, so names collide across programs
    for i in 0..30u64 {
        let mut rng = Rng::for_case(seed, 0xC17, i);
        let nodes = match i % 5 {
            0 => c02::gen_program(&mut rng, 30).nodes,
            1 => c06gen(&mut rng),
            2 => c08gen(&mut rng),
            3 => c09::gen(&mut rng).nodes,
            _ => c10::gen(&mut rng).nodes,
        };
        v.push(Prog { name: format!("generated-{}", i), kind: b'S', text: ir::print_canonical(&nodes), dirs: vec![] });
    }
    // build_file programs sharing one include directory
    let inc = scratch.join("shared-inc");
    // only the parent writes the files: children rewriting them while others read would be the harness's own race
    if write_files {
        let _ = std::fs::create_dir_all(&inc);
        let _ = std::fs::write(inc.join("common.inc"), ".equ COMMON = 0x33\n.macro common_mac\nldi @0, COMMON\n.endm\n#define COMMON_FLAG\n");
        let _ = std::fs::write(inc.join("dev.inc"), ".device ATmega16\n");
        // part files for parts the table does not know, named so that several table names begin them
        for n in ["ATmega88PA", "ATmega168PA", "ATmega328PB", "ATmega162V", "ATmega8515L", "ATtiny2313AV", "ATmega1280X"] {
            let _ = std::fs::write(inc.join(format!("{}def.inc", n)), format!("; part file\n.device {}\n.equ RAMEND_OF_IT = 0x4ff\n", n));
        }
    }
    // a second directory holding equally named files with other contents: a cache keyed by the name
    // as written (instead of the resolved path) would hand one build the other build's file
    let inc2 = scratch.join("other-inc");
    if write_files {
        let _ = std::fs::create_dir_all(&inc2);
        let _ = std::fs::write(inc2.join("common.inc"), ".equ COMMON = 0x44\n.macro common_mac\nldi @0, COMMON\nnop\n.endm\n");
        let _ = std::fs::write(inc2.join("dev.inc"), ".device ATmega8\n");
    }
    for (name, text) in [("file-includes-common-from-other-dir", ".include \"common.inc\"\ncommon_mac r17\n.dw COMMON\n"), ("file-includes-device-from-other-dir", ".include \"dev.inc\"\nldi r16, 1\n")] {
        let p = scratch.join(format!("{}.asm", name));
        if write_files {
            let _ = std::fs::write(&p, text);
        }
        v.push(Prog { name: name.to_string(), kind: b'F', text: p.to_string_lossy().to_string(), dirs: vec![inc2.clone()] });
    }
    for (name, text) in [
        ("file-includes-common", ".include \"common.inc\"\ncommon_mac r16\n.ifdef COMMON_FLAG\n.dw COMMON\n.endif\n"),
        ("file-uses-common-without-include", "common_mac r16\n"),
        ("file-flag-without-include", ".ifdef COMMON_FLAG\n.dw 1\n.else\n.dw 2\n.endif\nldi r16, 1\n"),
        ("file-includes-device", ".include \"dev.inc\"\njmp 5\n"),
        ("file-missing-include", ".include \"absent.inc\"\n"),
        ("file-part-unknown-88pa", ".include \"ATmega88PAdef.inc\"\n.dseg\nv: .byte 2\n.cseg\n\tldi r30, low(v)\n\tldi r31, high(v)\n\tjmp 0\n"),
        ("file-part-unknown-168pa", ".include \"ATmega168PAdef.inc\"\n.dseg\nv: .byte 2\n.cseg\n\tldi r30, low(v)\n\tjmp 0\n"),
        ("file-part-unknown-328pb", ".include \"ATmega328PBdef.inc\"\n.dseg\nv: .byte 2\n.cseg\n\tldi r30, low(v)\n\tmul r0, r1\n"),
        ("file-part-unknown-162v", ".include \"ATmega162Vdef.inc\"\n.dseg\nv: .byte 2\n.cseg\n\tldi r30, low(v)\n\tjmp 0\n"),
        ("file-part-unknown-8515l", ".include \"ATmega8515Ldef.inc\"\n.dseg\nv: .byte 2\n.cseg\n\tldi r30, low(v)\n\tjmp 0\n"),
        ("file-part-unknown-2313av", ".include \"ATtiny2313AVdef.inc\"\n.dseg\nv: .byte 2\n.cseg\n\tldi r30, low(v)\n"),
        ("file-part-unknown-1280x", ".include \"ATmega1280Xdef.inc\"\n.dseg\nv: .byte 2\n.cseg\n\tldi r30, low(v)\n\teijmp\n"),
    ] {
        let p = scratch.join(format!("{}.asm", name));
        if write_files {
            let _ = std::fs::write(&p, text);
        }
        v.push(Prog { name: name.to_string(), kind: b'F', text: p.to_string_lossy().to_string(), dirs: vec![inc.clone()] });
    }
    // builds that fail while several files are open: files that include each other, a cycle entered from
    // outside, a failing line four files deep - an error text that lists the files involved must list them
    // in the same order every time
    let cyc = scratch.join("cycles");
    if write_files {
        let _ = std::fs::create_dir_all(cyc.join("deep"));
        let w = |n: &str, t: &str| {
            let _ = std::fs::write(cyc.join(n), t);
        };
        w("mutual_a.asm", "nop\n.include \"mutual_b.inc\"\n");
        w("mutual_b.inc", "nop\n.include \"mutual_a.asm\"\n");
        w("ring_main.asm", ".include \"ring_one.inc\"\nret\n");
        w("ring_one.inc", "nop\n.include \"ring_two.inc\"\n");
        w("ring_two.inc", "nop\n.include \"ring_three.inc\"\n");
        w("ring_three.inc", "nop\n.include \"ring_two.inc\"\n");
        w("deep_main.asm", ".equ top = 1\n.include \"deep/d1.inc\"\n");
        w("deep/d1.inc", ".equ d1 = 2\n.include \"d2.inc\"\n");
        w("deep/d2.inc", ".equ d2 = 3\n.include \"d3.inc\"\n");
        w("deep/d3.inc", ".equ d3 = 4\n\tldi r16, top + d1 + d2 + d3 + not_defined_in_any_of_the_four\n");
    }
    for name in ["mutual_a", "ring_main", "deep_main"] {
        v.push(Prog { name: format!("file-{}", name.replace('_', "-")), kind: b'F', text: cyc.join(format!("{}.asm", name)).to_string_lossy().to_string(), dirs: vec![] });
    }
    v
}

fn build(p: &Prog) -> Outcome {
    if p.kind == b'F' {
        fw::build_file(&PathBuf::from(&p.text), &p.dirs)
    } else {
        fw::build_str(&p.text)
    }
}

/// one monitored build on the current thread: fingerprint + BUILD-hook events
fn monitored(p: &Prog) -> (u64, Outcome, Vec<Event>) {
    let _ = verif::take();
    let o = build(p);
    let ev = verif::take();
    (worker::fingerprint(&o), o, ev)
}

fn check_begin_invariant(ctx: &Ctx, p: &Prog, ev: &[Event], how: &str, history: &[usize]) -> Option<(u64, u64)> {
    let mut begin = None;
    let mut end = None;
    for e in ev {
        match e {
            Event::BuildBegin { seq, tables, device_default } => {
                begin = Some(*seq);
                if tables.iter().any(|n| *n != 0) || !device_default {
                    ctx.violation(
                        format!("indep/{}/build-starts-with-state", how),
                        format!("build of `{}` started with symbol tables {:?} (defines, equs, labels, defs, sets, special) and default device = {}", p.name, tables, device_default),
                        json!({"program": p.name, "text": p.text, "history": history, "how": how}),
                    );
                }
            }
            Event::BuildEnd { seq } => end = Some(*seq),
            _ => {}
        }
    }
    match (begin, end) {
        (Some(b), Some(e)) => Some((b, e)),
        _ => None,
    }
}

fn isolated(ctx: &Ctx, progs: &[Prog], processes: usize) -> Option<Vec<u64>> {
    // build_file with include dirs cannot go through the worker protocol's single text field: the worker
    // gets the path and no dirs; instead every isolated result is taken by `avra-verif c17-one <index>`
    let mut fps: Vec<BTreeSet<u64>> = vec![BTreeSet::new(); progs.len()];
    let exe = std::env::current_exe().ok()?;
    let scratch = scratch_dir();
    let runs = Mutex::new(vec![]);
    let idx: Vec<(usize, usize)> = (0..processes).flat_map(|k| (0..progs.len()).map(move |i| (k, i))).collect();
    fw::par_items(&idx, |_, (k, i)| {
        let out = std::process::Command::new(&exe).args(["c17-one", &ctx.seed.to_string(), &i.to_string(), &scratch.to_string_lossy()]).output();
        if let Ok(o) = out {
            let s = String::from_utf8_lossy(&o.stdout);
            if let Some(fp) = s.lines().find_map(|l| l.strip_prefix("FP ")).and_then(|x| u64::from_str_radix(x.trim(), 16).ok()) {
                runs.lock().unwrap().push((*k, *i, fp));
                return;
            }
        }
        runs.lock().unwrap().push((*k, *i, u64::MAX));
    });
    for (_, i, fp) in runs.lock().unwrap().iter() {
        fps[*i].insert(*fp);
    }
    ctx.eval((processes * progs.len()) as u64);
    ctx.count("isolated_process_builds", (processes * progs.len()) as u64);
    let mut out = vec![];
    for (i, s) in fps.iter().enumerate() {
        if s.contains(&u64::MAX) {
            ctx.inconclusive(format!("isolated build of {} could not be run", progs[i].name));
            return None;
        }
        if s.len() != 1 {
            ctx.violation(
                "determinism/across-processes",
                format!("`{}` gives {} different results in {} fresh processes (different hash keys)", progs[i].name, s.len(), processes),
                json!({"program": progs[i].name, "text": progs[i].text, "fingerprints": s.iter().map(|x| format!("{:016x}", x)).collect::<Vec<_>>(), "how": "processes"}),
            );
        }
        out.push(*s.iter().next().unwrap());
    }
    Some(out)
}

pub fn scratch_dir() -> PathBuf {
    // stable across the child processes of one run
    fw::verif_root().join("build").join(format!("scratch-c17-{}", std::process::id()))
}

/// `avra-verif c17-one <seed> <index> <scratch>`: build one pool program in a fresh process, print its fingerprint
pub fn one(args: &[String]) -> i32 {
    let seed: u64 = args.first().and_then(|s| s.parse().ok()).unwrap_or(1);
    let i: usize = args.get(1).and_then(|s| s.parse().ok()).unwrap_or(0);
    let scratch = PathBuf::from(args.get(2).cloned().unwrap_or_default());
    let p = pool(seed, &scratch, false);
    let o = build(&p[i]);
    println!("FP {:016x}", worker::fingerprint(&o));
    0
}

fn histories(ctx: &Ctx, progs: &[Prog], iso: &[u64], n: u64) {
    fw::par_for(n, 4, |h| {
        let mut rng = Rng::for_case(ctx.seed, 0xC17_A, h);
        fw::hook_enable(verif::BUILD);
        let len = 20 + rng.usize(81);
        let mut hist: Vec<usize> = vec![];
        let dev_fp = devices::table_fingerprint();
        for _ in 0..len {
            let i = rng.usize(progs.len());
            hist.push(i);
            let (fp, o, ev) = monitored(&progs[i]);
            ctx.eval(1);
            check_begin_invariant(ctx, &progs[i], &ev, "history", &hist);
            if fp != iso[i] {
                let prev = if hist.len() >= 2 { progs[hist[hist.len() - 2]].name.clone() } else { "-".into() };
                ctx.violation(
                    "indep/history/result-depends-on-earlier-builds",
                    format!("`{}` built after `{}` (position {} of a history) differs from its isolated result: {}", progs[i].name, prev, hist.len(), fw::clip(&format!("{:?}", o.brief()), 200)),
                    json!({"program": progs[i].name, "text": progs[i].text, "history": hist.iter().map(|k| progs[*k].name.clone()).collect::<Vec<_>>(), "how": "history"}),
                );
                break;
            }
        }
        if devices::table_fingerprint() != dev_fp {
            ctx.violation("indep/history/device-table-changed", "the DEVICES table changed during a history", json!({"history": hist, "how": "history"}));
        }
        fw::hook_enable(0);
        ctx.count("history_builds", hist.len() as u64);
        ctx.distinct(fw::hash_str(&format!("{:?}", hist)));
    });
}

fn schedules(ctx: &Ctx, progs: &[Prog], iso: &[u64], rounds: u64, yield_now: bool) {
    let overlaps = Mutex::new((0u64, BTreeSet::<(usize, usize)>::new()));
    for round in 0..rounds {
        let mut rng = Rng::for_case(ctx.seed, 0xC17_B, round);
        let nthreads = 2 + rng.usize(15);
        let per = 10 + rng.usize(40);
        let barrier = Barrier::new(nthreads);
        let plans: Vec<Vec<usize>> = (0..nthreads).map(|_| (0..per).map(|_| rng.usize(progs.len())).collect()).collect();
        let intervals = Mutex::new(Vec::<(u64, u64, usize)>::new());
        std::thread::scope(|s| {
            for plan in &plans {
                s.spawn(|| {
                    fw::install_quiet_panic_hook();
                    fw::hook_enable(verif::BUILD);
                    verif::set_yield(yield_now);
                    barrier.wait();
                    let mut local = vec![];
                    for (k, i) in plan.iter().enumerate() {
                        let (fp, o, ev) = monitored(&progs[*i]);
                        ctx.eval(1);
                        if let Some((b, e)) = check_begin_invariant(ctx, &progs[*i], &ev, "concurrent", &plan[..=k]) {
                            local.push((b, e, *i));
                        }
                        if fp != iso[*i] {
                            ctx.violation(
                                "indep/concurrent/result-depends-on-other-threads",
                                format!("`{}` built while {} other threads were building differs from its isolated result: {}", progs[*i].name, nthreads - 1, fw::clip(&format!("{:?}", o.brief()), 200)),
                                json!({"program": progs[*i].name, "text": progs[*i].text, "threads": nthreads, "how": "concurrent"}),
                            );
                            break;
                        }
                    }
                    verif::set_yield(false);
                    fw::hook_enable(0);
                    intervals.lock().unwrap().extend(local);
                });
            }
        });
        // overlap accounting from the global sequence numbers
        let mut iv = intervals.into_inner().unwrap();
        iv.sort();
        let mut o = overlaps.lock().unwrap();
        for a in 0..iv.len() {
            for b in a + 1..iv.len() {
                if iv[b].0 > iv[a].1 {
                    break;
                }
                o.0 += 1;
                let pair = (iv[a].2.min(iv[b].2), iv[a].2.max(iv[b].2));
                o.1.insert(pair);
            }
        }
        ctx.count("concurrent_builds", iv.len() as u64);
        ctx.distinct(fw::mix64(0xC17B, round));
    }
    let o = overlaps.lock().unwrap();
    ctx.put(if yield_now { "overlapping_build_pairs_with_injected_yields" } else { "overlapping_build_pairs" }, json!(o.0));
    ctx.put(if yield_now { "distinct_program_pairs_overlapped_with_injected_yields" } else { "distinct_program_pairs_overlapped" }, json!(o.1.len()));
    if o.0 == 0 {
        ctx.inconclusive("no two builds overlapped in the concurrent runs");
    }
}

/// Builds that each do a lot of one kind of work (parameter substitution, expression evaluation, symbol and
/// label handling, macro nesting), several at the same time: a budget, counter or table that is shared by the
/// builds of a process instead of belonging to one build only shows when big builds overlap in time.
fn heavy_concurrent(ctx: &Ctx, threads: usize, rounds: usize) {
    let mut heavy: Vec<(&str, String)> = vec![];
    {
        let body: String = (0..512).map(|i| if i % 4 == 0 { format!("\t.dw @{} + {}\n", i % 10, i) } else { format!("\t; line {} of the body mentions @{}\n", i, i % 10) }).collect();
        let args: Vec<String> = (0..31).map(|i| i.to_string()).collect();
        let calls: String = (0..600).map(|_| format!("\theavy {}\n", args.join(", "))).collect();
        heavy.push(("substitutions", format!(".macro heavy\n{}.endm\n{}", body, calls)));
    }
    heavy.push(("evaluation-steps", format!("{}{}", fw::equ_ladder(18, "ldi r16, low(a18)"), "\t.dd a17, a16, a17\n")));
    {
        let mut s = String::new();
        for i in 0..20_000 {
            s.push_str(&format!("lbl_{}: .dw lbl_{} + {}\n.equ eq_{} = lbl_{} ^ {}\n", i, (i * 7919) % 20_000, i % 9, i, i / 2, i));
        }
        heavy.push(("symbols", s));
    }
    {
        let mut s = String::new();
        for d in 0..100 {
            s.push_str(&format!(".macro nest_{}\n\t.dw @0 + {}\n{}.endm\n", d, d, if d == 0 { String::new() } else if d % 16 == 0 { format!("\tnest_{} @0 + 1\n\tnest_{} @0 - 1\n", d - 1, d / 2) } else { format!("\tnest_{} @0 + 1\n", d - 1) }));
        }
        s.push_str("\tnest_99 1000\n\tnest_60 7\n");
        heavy.push(("macro-nesting", s));
    }
    let alone: Vec<(u64, &'static str, f64)> = heavy
        .iter()
        .map(|(_, t)| {
            let t0 = std::time::Instant::now();
            let o = fw::build_str(t);
            ctx.eval(1);
            (fw::hash_str(&format!("{:?}", o.brief())), o.kind(), t0.elapsed().as_secs_f64())
        })
        .collect();
    ctx.put("heavy_programs_alone", json!(heavy.iter().zip(&alone).map(|((n, t), (_, k, secs))| json!({"name": n, "bytes": t.len(), "outcome": k, "seconds": (secs * 100.0).round() / 100.0})).collect::<Vec<_>>()));
    if let Some(((n, _), _)) = heavy.iter().zip(&alone).find(|(_, (_, k, _))| *k != "ok") {
        ctx.inconclusive(format!("heavy program {} does not build on its own", n));
        return;
    }
    let mut overlapping = 0u64;
    for round in 0..rounds {
        let barrier = Barrier::new(threads);
        let bad: Mutex<Vec<(usize, String)>> = Mutex::new(vec![]);
        std::thread::scope(|sc| {
            for t in 0..threads {
                let (barrier, bad, heavy, alone) = (&barrier, &bad, &heavy, &alone);
                sc.spawn(move || {
                    barrier.wait();
                    // all threads start with the same kind of work (the overlap that counts), then rotate
                    for k in 0..heavy.len() {
                        let i = if k == 0 { round % heavy.len() } else { (round + k + t) % heavy.len() };
                        let o = fw::build_str(&heavy[i].1);
                        if fw::hash_str(&format!("{:?}", o.brief())) != alone[i].0 {
                            bad.lock().unwrap().push((i, fw::clip(&format!("{:?}", o.brief()), 200)));
                        }
                    }
                });
            }
        });
        overlapping += (threads * heavy.len()) as u64;
        ctx.eval((threads * heavy.len()) as u64);
        ctx.distinct(fw::mix64(0xC17_EA, round as u64 * 64 + threads as u64));
        if let Some((i, what)) = bad.into_inner().unwrap().into_iter().next() {
            ctx.violation(
                format!("det/heavy-concurrent/{}", heavy[i].0),
                format!("{} big builds at the same time: a `{}` build differs from the same build on its own: {}", threads, heavy[i].0, what),
                json!({"heavy_concurrent": true, "threads": threads, "program": heavy[i].0}),
            );
            break;
        }
    }
    ctx.put("heavy_concurrent_builds", json!(overlapping));
}

pub fn run(ctx: &Ctx) -> i32 {
    let scratch = scratch_dir();
    let _ = std::fs::remove_dir_all(&scratch);
    let _ = std::fs::create_dir_all(&scratch);
    let progs = pool(ctx.seed, &scratch, true);
    ctx.put("pool_programs", json!(progs.len()));
    let processes = ctx.tier.pick(8usize, 64usize);
    let Some(iso) = isolated(ctx, &progs, processes) else {
        return fw::finish(ctx, "isolated results unavailable", &[]);
    };
    let mut kinds = BTreeMap::new();
    for p in &progs {
        *kinds.entry(build(p).kind().to_string()).or_insert(0u64) += 1;
    }
    ctx.put("pool_outcomes", json!(kinds));
    for p in progs.iter().take(4) {
        ctx.sample(json!({"program": p.name, "text": fw::clip(&p.text, 160)}));
    }
    histories(ctx, &progs, &iso, ctx.tier.pick(200u64, 20_000u64));
    schedules(ctx, &progs, &iso, ctx.tier.pick(40u64, 1_000u64), false);
    schedules(ctx, &progs, &iso, ctx.tier.pick(20u64, 1_000u64), true);
    if !cfg!(miri) {
        heavy_concurrent(ctx, ctx.tier.pick(4usize, 16usize).min(fw::threads().max(2)), ctx.tier.pick(2usize, 12usize));
    }
    // one sample history for the evidence
    {
        let mut rng = Rng::for_case(ctx.seed, 0xC17_A, 0);
        let len = 20 + rng.usize(81);
        let h: Vec<String> = (0..len.min(12)).map(|_| progs[rng.usize(progs.len())].name.clone()).collect();
        ctx.sample(json!({"history_prefix": h}));
    }
    crate::props::c16legs::miri_leg(ctx, "c17");
    let _ = std::fs::remove_dir_all(&scratch);
    fw::finish(
        ctx,
        "pool of ~67 programs (32 hand-made ones whose symbols, macros, #defines, aliases, devices and messages collide by name across programs, valid and failing; 30 generated ones; 5 build_file programs sharing an include directory); isolated results from 8 (thorough 64) fresh processes per program (also decides hash-order independence); 200 (20000) random sequential histories of 20-100 builds; 60 (2000) concurrent rounds of 2-16 threads x 10-50 builds released by a barrier, half of them with yields injected at the build and line hooks; 2 (12) rounds of 4 (16) threads building four big programs at the same time (600 calls of a 512-line macro with 31 arguments; an 18-rung .equ doubling ladder; 20000 labels and .equs referring to each other; 100 macros nested to depth 100) against the same builds done alone; BUILD-hook invariant (empty tables, default device) at every build start; DEVICES fingerprint; Miri leg; distinct_nontrivial = distinct histories and rounds",
        &[
            "builds share only the immutable DEVICES table; the monitors aim at making introduced sharing visible, not at enumerating schedules",
            "fingerprint = hash of the complete BuildResult or error text",
        ],
    )
}

pub fn replay(ctx: &Ctx, case: &Value) -> i32 {
    // re-run the whole quick check: histories are cheap and the verdict depends on process-level state
    let _ = case;
    let mut c2 = Ctx::new("C17", Tier::Quick, ctx.seed);
    c2.replay_mode = true;
    run(&c2)
}
