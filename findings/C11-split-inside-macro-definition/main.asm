.include "head.inc"
ldi r16, 1
.endm
m
ret
