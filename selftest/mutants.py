#!/usr/bin/env python3
"""Hand-written seeded breaks (small realistic edits) and benign refactors for validating the monitors.

  selftest/mutants.py list
  selftest/mutants.py run [<id-prefix> ...]     # for each mutant: apply to the scratch worktree, run the unedited
                                                 # test suite (must stay green), run the target property's quick
                                                 # check (must exit 1) - results appended to selftest/RESULTS.jsonl
  selftest/mutants.py benign                     # apply each benign edit, run ALL quick checks (must stay silent)

Everything happens in /tmp/selftest (see selftest/run.py); /repo is never touched.
Each mutant: (id, property, file, old, new, what). `old` must occur exactly once in the file.
"""
import json, os, subprocess, sys, time
sys.path.insert(0, os.path.dirname(os.path.abspath(__file__)))

M = [
 # ---- C01 encoding
 ("C01-adiw-k-shift", "C01", "src/instruction/mod.rs", "opcode |= (k & 0x30) << 2 | k & 0x0f;", "opcode |= (k & 0x30) << 1 | k & 0x0f;", "adiw/sbiw: upper two K bits one position too low (only K >= 16)"),
 ("C01-jmp-top-bit", "C01", "src/instruction/mod.rs", "((k & 0x3e0000) >> 13 | (k & 0x010000) >> 16)", "((k & 0x1e0000) >> 13 | (k & 0x010000) >> 16)", "jmp/call: address bit 21 dropped (only targets >= 2 Mi words)"),
 ("C01-brvc-is-brpl", "C01", "src/instruction/operation.rs", "BranchT::Vc => 0x403,", "BranchT::Vc => 0x402,", "brvc encoded as brpl"),
 ("C01-ldd-q-bits", "C01", "src/instruction/mod.rs", "op |= (k & 0x20) << 8 | (k & 0x18) << 7 | k & 0x07;", "op |= (k & 0x20) << 8 | (k & 0x18) << 6 | k & 0x07;", "ldd/std: q bits 4:3 one position too low (only q >= 8)"),
 # ---- C02 layout
 ("C02-dq-size-pass1", "C02", "src/builder/pass1.rs", "DataDefine::Dq => 8,", "DataDefine::Dq => 4,", "pass 1 sizes .dq as 4 bytes: labels after a .dq are too low"),
 ("C02-string-len-chars", "C02", "src/directive.rs", "Operand::S(s) => s.len(),", "Operand::S(s) => s.chars().count(),", "string length counted in characters, not bytes (only non-ASCII strings)"),
 ("C02-eeprom-pad-off-by-one", "C02", "src/builder/pass2.rs", "for _ in (eeprom_start_address as i32)..segment.address as i32 - eeprom.len() as i32", "for _ in (eeprom_start_address as i32)..segment.address as i32 - eeprom.len() as i32 - 1", "EEPROM .org gap padded one byte short"),
 # ---- C03 relative
 ("C03-branch-upper-bound", "C03", "src/instruction/mod.rs", "if rel < -64 || rel > 63 {", "if rel < -64 || rel > 64 {", "branch displacement 64 accepted and wrapped"),
 ("C03-rjmp-lower-bound", "C03", "src/instruction/mod.rs", "if rel < -2048 || rel > 2047 {", "if rel < -2047 || rel > 2047 {", "rjmp/rcall displacement -2048 rejected"),
 # ---- C04 guards
 ("C04-adiw-odd-regs", "C04", "src/instruction/mod.rs", "if !(d == 24 || d == 26 || d == 28 || d == 30) {", "if d < 24 || d > 30 {", "adiw/sbiw accept r25/r27/r29"),
 ("C04-sbi-port-32", "C04", "src/instruction/mod.rs", "if k < 0 || k > 31 {", "if k < 0 || k > 32 {", "sbi/cbi/sbis/sbic accept port 32"),
 ("C04-bit-index-8", "C04", "src/expr.rs", "if value < 0 || value > 7 {", "if value < 0 || value > 8 {", "bit number 8 accepted"),
 # ---- C05 expressions
 ("C05-ge-is-gt", "C05", "src/expr.rs", "BinaryOperator::GreaterOrEqual => Ok((left >= right) as i64),", "BinaryOperator::GreaterOrEqual => Ok((left > right) as i64),", ">= evaluated as >"),
 ("C05-byte3-mask", "C05", "src/expr.rs", "\"byte3\" => ((value as u64 & 0xff0000) >> 16) as i64,", "\"byte3\" => ((value as u64 & 0xff000) >> 16) as i64,", "byte3 loses its upper nibble"),
 ("C05-mul-wraps", "C05", "src/expr.rs", "BinaryOperator::Mul => match left.checked_mul(right) {", "BinaryOperator::Mul => match Some(left.wrapping_mul(right)) {", "multiplication overflow no longer detected"),
 # ---- C06 data
 ("C06-word-upper", "C06", "src/expr.rs", "if value > 0xFFFF || value < -32768 {", "if value > 0x1FFFF || value < -32768 {", ".dw accepts 0x10000..0x1FFFF and truncates"),
 ("C06-byte-lower", "C06", "src/expr.rs", "if value > 0xFF || value < -128 {", "if value > 0xFF || value < -256 {", ".db accepts -256..-129 and truncates"),
 # ---- C07 hex
 ("C07-ela-every-other", "C07", "src/writer.rs", "if address != 0 && address % 0x10000 == 0 {", "if address != 0 && address % 0x20000 == 0 {", "extended address record only every 128 KiB"),
 ("C07-eeprom-writes-code", "C07", "src/writer.rs", "file_output.write_all(output.eeprom.replace(\"\\n\", \"\\r\\n\").as_bytes())?;", "file_output.write_all(output.code.replace(\"\\n\", \"\\r\\n\").as_bytes())?;", "EEPROM writer writes the flash image"),
 # ---- C08 conditionals
 ("C08-elif-always-evaluated", "C08", "src/parser.rs", "let item = if d == Directive::ElIf && !pending_elif {", "let item = if d == Directive::ElIf && !pending_elif && false {", "falling into .elif evaluates it again (the repaired defect comes back)"),
 ("C08-chain-skip-ignores-nesting", "C08", "src/parser.rs", "                                } else if directive == Directive::Endif {\n                                    if scoup_count == 0 {\n                                        ret = iter.next();\n                                        break;\n                                    }\n                                    scoup_count -= 1;", "                                } else if directive == Directive::Endif {\n                                    if scoup_count >= 0 {\n                                        ret = iter.next();\n                                        break;\n                                    }\n                                    scoup_count -= 1;", "skipping the rest of a chain stops at the first nested .endif"),
 # ---- C09 macros
 ("C09-calls-in-dseg-not-expanded", "C09", "src/builder/pass0.rs", "    for segment in parsed.segments {\n        context.add_segment(Segment {", "    for segment in parsed.segments {\n        if segment.t != crate::parser::SegmentType::Code {\n            context.add_segment(segment.clone());\n            continue;\n        }\n        context.add_segment(Segment {", "macro calls written under .dseg/.eseg are not expanded again"),
 ("C09-macro-name-case", "C09", "src/parser.rs", ".insert(name.to_lowercase(), items);", ".insert(name, items);", "macro names stored as written again"),
 ("C09-predecrement-display", "C09", "src/instruction/mod.rs", "IndexOps::PreDecrement(r16) => write!(f, \"-{}\", r16),", "IndexOps::PreDecrement(r16) => write!(f, \"{}\", r16),", "a -X/-Y/-Z macro argument loses its minus"),
 ("C09-display-no-parens", "C09", "src/expr.rs", "write!(f, \"({}{}{})\", self.left, self.operator, self.right)", "write!(f, \"{}{}{}\", self.left, self.operator, self.right)", "macro arguments lose their grouping again"),
 # ---- C10 symbols
 ("C10-label-lookup-case", "C10", "src/context.rs", "    fn get_label(&self, name: &String) -> Option<(SegmentType, u32)> {\n        self.labels\n            .borrow()\n            .get(&name.to_lowercase())", "    fn get_label(&self, name: &String) -> Option<(SegmentType, u32)> {\n        self.labels\n            .borrow()\n            .get(name)", "label references case-sensitive"),
 ("C10-undef-case", "C10", "src/builder/pass2.rs", ".remove(&alias.to_lowercase())", ".remove(alias)", ".undef case-sensitive again"),
 ("C10-undef-silent", "C10", "src/builder/pass2.rs", "bail!(\"Identifier {} isn't defined, {}\", alias, line);", "let _ = (alias, line);", ".undef of an unknown alias silently accepted (harmless alone) "),
 # ---- C11 includes
 ("C11-includepath-cwd", "C11", "src/directive.rs", "let mut current_path = current_path\n                                .parent()\n                                .map(|p| p.to_path_buf())\n                                .unwrap_or_default();", "let mut current_path = std::env::current_dir().unwrap_or_default();", "relative .includepath resolved against the working directory"),
 ("C11-includer-dir-not-added", "C11", "src/parser.rs", "        if let None = include_paths.get(parent) {\n            include_paths.insert(parent.to_path_buf());\n        }", "        if include_paths.is_empty() {\n            include_paths.insert(parent.to_path_buf());\n        }", "includer's directory only searched when no other include directory is known"),
 # ---- C12 capacity
 ("C12-eeprom-ge", "C12", "src/builder/pass1.rs", "SegmentType::Eeprom => device.eeprom_size as u64,", "SegmentType::Eeprom => (device.eeprom_size as u64).saturating_sub(1),", "EEPROM filled exactly to capacity is rejected"),
 ("C12-mega16-eeprom", "C12", "src/device.rs", "\"ATmega16\" => Device {flash_size: 8192, ram_start: 0x60, ram_size: 1024, eeprom_size: 512,", "\"ATmega16\" => Device {flash_size: 8192, ram_start: 0x60, ram_size: 1024, eeprom_size: 1024,", "one table row disagrees with its part file"),
 ("C12-ram-limit-assumes-0x60", "C12", "src/builder/pass1.rs", "SegmentType::Data => device.ram_start as u64 + device.ram_size as u64,", "SegmentType::Data => 0x60 + device.ram_size as u64,", "RAM limit assumes that RAM starts at 0x60 (parts with another start reject a full RAM)"),
 # ---- C13 device gate
 ("C13-fmulsu-ungated", "C13", "src/device.rs", "            | Operation::Fmuls\n            | Operation::Fmulsu => self.allow(NoMul),", "            | Operation::Fmuls => self.allow(NoMul),", "fmulsu slips through NoMul"),
 ("C13-push-ungated", "C13", "src/device.rs", "            | Operation::Sts\n            | Operation::Push\n            | Operation::Pop => {", "            | Operation::Sts\n            | Operation::Pop => {", "push allowed on Tiny1x parts"),
 ("C13-lpmx-needs-3-args", "C13", "src/device.rs", "Operation::Lpm if !op_args.is_empty() => self.allow(NoLpmX),", "Operation::Lpm if op_args.len() > 2 => self.allow(NoLpmX),", "lpm Rd,Z no longer gated by NoLpmX"),
 # ---- C14 syntax
 ("C14-complexity-counts-block-comments", "C14", "src/parser.rs", "            // a block comment: skip to its end (the '/' that opened it was counted, drop it again)\n            '*' if previous == '/' => {\n                operators -= 1;\n                let mut last = ' ';\n                for c in chars.by_ref() {\n                    if last == '*' && c == '/' {\n                        break;\n                    }\n                    last = c;\n                }\n                previous = ' ';\n                continue;\n            }\n", "", "operators inside /* */ comments count against the per-operand limit again"),
 ("C14-upper-hex-0x", "C14", "src/document.rs", "/ \"0x\" n:$(['0'..='9' | 'A'..='F' | 'a'..='f']+)", "/ \"0x\" n:$(['0'..='9' | 'a'..='f']+)", "0x literals with upper-case digits no longer parse"),
 ("C14-upper-R", "C14", "src/document.rs", "= r_name:$(['r' | 'R'] ['0'..='9']*<1,2>)", "= r_name:$(['r'] ['0'..='9']*<1,2>)", "R16 is no longer a register"),
 ("C14-tab-not-space", "C14", "src/document.rs", "rule space() = [' ' | '\\t']*", "rule space() = [' ']*", "tabs no longer count as blanks"),
 # ---- C15 diagnostics
 ("C15-set-no-line", "C15", "src/builder/pass2.rs", "                let value = match expr.run(common_context) {\n                    Ok(value) => value,\n                    Err(e) => bail!(\"{}, {}\", e, line),\n                };", "                let value = expr.run(common_context)?;", ".set errors lose their line number again"),
 ("C15-warning-as-info", "C15", "src/directive.rs", "Directive::Warning => \"warning\",", "Directive::Warning => \"info\",", "warnings recorded as plain messages"),
 ("C15-line-off-by-one-in-if", "C15", "src/directive.rs", "                            Err(e) => bail!(\"{} in {}\", e, point),\n                        };\n                        if value == 0 {", "                            Err(e) => bail!(\"{} in line: {}\", e, point.line_num + 1),\n                        };\n                        if value == 0 {", ".if errors name the following line"),
 # ---- C16 robustness
 ("C16-undef-index", "C16", "src/directive.rs", "                    if values.is_empty() {\n                        bail!(\"Not allowed type of arguments for .{}, {}\", self, point);\n                    }\n                    for value in values {", "                    let _first = &values[0];\n                    for value in values {", ".undef without operand panics again"),
 ("C16-includepath-unwrap", "C16", "src/directive.rs", "let mut current_path = current_path\n                                .parent()\n                                .map(|p| p.to_path_buf())\n                                .unwrap_or_default();", "let mut current_path = current_path.parent().unwrap().to_path_buf();", "relative .includepath in a macro body panics again"),
 ("C16-line-limit-huge", "C16", "src/parser.rs", "pub const MAX_LINE_OPERATORS: usize = 200;", "pub const MAX_LINE_OPERATORS: usize = 500_000;", "expression ladders overflow the stack again"),
 ("C16-macro-depth-huge", "C16", "src/builder/pass0.rs", "const MAX_MACRO_DEPTH: usize = 128;", "const MAX_MACRO_DEPTH: usize = 128_000_000;", "recursive macros run away again"),
 ("C10-duplicate-def-ignored", "C10", "src/builder/pass2.rs", "                if common_context.exist(&alias.to_lowercase()) {\n                    // TODO: add display current string of mistake and previous location\n                    bail!(\"Identifier {} is used twice, {}\", alias, line);\n                }\n                common_context.set_def", "                common_context.set_def", "second .def of a taken name silently ignored again (fix bef9b26 undone by hand)"),
 ("C11-directory-shadows-file", "C11", "src/parser.rs", "            if full_path.as_path().is_file() {", "            if full_path.as_path().exists() {", "a directory with the name of an included file ends the search again (part of fix a9de6e3 undone by hand)"),
 ("C10-define-clash-unchecked", "C10", "src/context.rs", "        self.define_names.borrow().contains(&name.to_lowercase())\n            // the location counter exists in pass 2 only, its name is taken from the start\n            || name.eq_ignore_ascii_case(\"pc\")", "        name.eq_ignore_ascii_case(\"pc\")", "a symbol may share its name with a #define again (fix d6b2fc4 undone by hand)"),
 ("C10-pc-not-reserved", "C10", "src/context.rs", "            // the location counter exists in pass 2 only, its name is taken from the start\n            || name.eq_ignore_ascii_case(\"pc\")\n", "", "a label or .equ may be named pc again (fix 7783163 undone by hand)"),
 ("C16-no-build-evaluation-budget", "C16", "src/expr.rs", "        if !constants.spend_evaluation_steps(steps.get()) {", "        if !constants.spend_evaluation_steps(0) {", "the evaluation steps of a build are no longer added up (fix f373a4d undone by hand)"),
 ("C16-macro-line-precheck-off", "C16", "src/builder/pass0.rs", "                if raw_line.len().saturating_add(grown) > MAX_EXPANDED_LINE_LENGTH {\n                    // (body lines", "                if raw_line.len().saturating_add(grown) > usize::MAX / 2 {\n                    // (body lines", "the length of an expanded macro line is only looked at after the line was built (fix eb3a7c1 undone by hand)"),
 ("C16-macro-line-limit-off", "C16", "src/builder/pass0.rs", "const MAX_EXPANDED_LINE_LENGTH: usize = 65536;", "const MAX_EXPANDED_LINE_LENGTH: usize = usize::MAX / 4;", "no limit on expanded macro lines (fixes c243025 and eb3a7c1 undone by hand)"),
 # ---- C17 independence
 ("C17-device-cache", "C17", "src/context.rs", "            device: Rc::new(RefCell::new(Some(Device::new(0)))),", "            device: Rc::new(RefCell::new(Some(LAST_DEVICE.with(|d| d.borrow().clone())))),", "context starts from a thread-local 'last device' cache"),
 ("C17-include-cache-by-name", "C17", "src/parser.rs", "    let include_paths = RefCell::new(include_paths);\n\n    let file_context", "    let cache_key = current_path.file_name().map(|n| n.to_string_lossy().to_string()).unwrap_or_default();\n    let source = INCLUDE_CACHE.with(|c| c.borrow_mut().entry(cache_key).or_insert(source).clone());\n    let include_paths = RefCell::new(include_paths);\n\n    let file_context", "included files cached per thread by file name"),
 # ---- C18 CLI
 ("C18-write-failure-exit0", "C18", "src/app/main.rs", "                    Err(e) => {\n                        failed = true;\n                        println!(\n                            \"Failed to generate and write hex file {}, with error {}\",\n                            file_name, e\n                        )\n                    }\n                }\n            }\n            // write to file eeprom", "                    Err(e) => {\n                        println!(\n                            \"Failed to generate and write hex file {}, with error {}\",\n                            file_name, e\n                        )\n                    }\n                }\n            }\n            // write to file eeprom", "flash write failure no longer changes the exit status"),
 ("C18-stem-through-str", "C18", "src/app/main.rs", "            .file_stem()\n            .unwrap_or_default()\n            .to_os_string();", "            .file_stem()\n            .unwrap_or_default()\n            .to_str()\n            .map(std::ffi::OsString::from)\n            .unwrap_or_default();", "output names derived through &str again (non-UTF-8 stems collapse)"),
 ("C18-eep-name", "C18", "src/app/main.rs", ".unwrap_or_else(|| default_output(\".eep.hex\"));", ".unwrap_or_else(|| default_output(\".eep\"));", "default EEPROM file gets the wrong name"),
 ("C18-same-output-unchecked", "C18", "src/app/main.rs", "    a == b || (resolved(a).is_some() && resolved(a) == resolved(b))", "    let _ = (a, b, &resolved);\n    false", "-o and -e naming one file is not noticed again"),
]

# the C17 mutant needs a second cooperating site
M_EXTRA = {
 "C17-include-cache-by-name": [
   ("src/parser.rs", "pub fn parse_file_internal(context: &ParseContext) -> Result<(), Error> {", "thread_local! {\n    static INCLUDE_CACHE: RefCell<HashMap<String, String>> = RefCell::new(HashMap::new());\n}\n\npub fn parse_file_internal(context: &ParseContext) -> Result<(), Error> {"),
 ],
 "C17-device-cache": [
   ("src/context.rs", "impl CommonContext {\n    pub fn new() -> Self {", "thread_local! {\n    static LAST_DEVICE: RefCell<Device> = RefCell::new(Device::new(0));\n}\n\nimpl CommonContext {\n    pub fn remember_device(&self) {\n        if let Some(d) = self.device.borrow().as_ref() {\n            LAST_DEVICE.with(|l| *l.borrow_mut() = d.clone());\n        }\n    }\n\n    pub fn new() -> Self {"),
   ("src/builder/mod.rs", "    let device = common_context.get_device();\n\n    if passed_2.code.len()", "    let device = common_context.get_device();\n    common_context.remember_device();\n\n    if passed_2.code.len()"),
 ],
}

BENIGN = [
 ("B-blank-lines", [("src/instruction/mod.rs", "pub fn process(", "\n\n\n\n// (moved down by a few lines)\n\npub fn process("), ("src/parser.rs", "pub fn parse_iter<'a>(", "\n\n\npub fn parse_iter<'a>("), ("src/directive.rs", "impl Directive {", "\n\n\n\n\nimpl Directive {"), ("src/expr.rs", "impl Expr {", "\n\n\nimpl Expr {")], "every panic/bail location moves"),
 ("B-reword-errors", [("src/instruction/mod.rs", "bail!(\"Relative address out of range (-64 <= k <= 63)\");", "bail!(\"branch target too far away\");"), ("src/builder/mod.rs", "\"Flash size overdue by {} bytes\",", "\"program does not fit into flash ({} bytes too many)\","), ("src/builder/pass1.rs", "\"{} segment exceeds the memory of the device by {}, {}\",", "\"{} segment too large for the device: {} over, {}\","), ("src/expr.rs", "\"Attempted to divide by zero: {:?} / {:?}\",", "\"division by zero in {:?} / {:?}\",")], "error texts reworded (line: N kept)"),
 ("B-btreemap", [("src/context.rs", "pub labels: Rc<RefCell<HashMap<String, (SegmentType, u32)>>>,", "pub labels: Rc<RefCell<std::collections::BTreeMap<String, (SegmentType, u32)>>>,"), ("src/context.rs", "labels: Rc::new(RefCell::new(hashmap! {})),", "labels: Rc::new(RefCell::new(std::collections::BTreeMap::new())),")], "label table becomes a BTreeMap"),
 ("B-device-any-case", [("src/directive.rs", "                        if let Some(device) = DEVICES.get(value.as_str()) {", "                        if let Some(device) = DEVICES.iter().find(|(name, _)| name.eq_ignore_ascii_case(value.as_str())).map(|(_, device)| device) {")], "device names accepted in any letter case (the statements do not say that atmega8 is unknown)"),
 ("B-accept-bom", [("src/parser.rs", "    parse(source.as_str(), &file_context)?;", "    parse(source.trim_start_matches('\\u{feff}'), &file_context)?;")], "a byte order mark in front of a source file is skipped"),
 ("B-rename-locals", [("src/builder/pass1.rs", "let mut code_offset = 0;", "let mut flash_words = 0;"), ("src/builder/pass1.rs", "SegmentType::Code => code_offset,", "SegmentType::Code => flash_words,"), ("src/builder/pass1.rs", "code_offset = current_end_offset;", "flash_words = current_end_offset;")], "locals renamed"),
]

# fix commits of /repo whose removal the named check must notice (`mutants.py reverts [id-prefix ...]`):
# the commit is reverted on the scratch copy (reverse diff, 3-way), the unedited suite must stay green
REVERTS = [
 ("R-blank-after-block-comment", "C14", "e3d8187", "blank or second comment behind */ is a parse error"),
 ("R-unparsable-nested-if", "C08", "1c8ebd6", "nested .if the grammar rejects not counted while skipping"),
 ("R-register-like-symbols", "C10", "77de2f2", "-zero / r2d2 read as registers"),
 ("R-ld-ldd-cross-forms", "C04", "7ec7a6a", "ldd r0, Y+ / ld r0, Y+5 assemble to the other mnemonic"),
 ("R-duplicate-equ", "C10", "7e031f3", ".equ defined twice / clashing with a label accepted"),
 ("R-includepath-in-included-file", "C11", "6182b21", ".includepath inside an included file forgotten at its end"),
 ("R-device-two-operands", "C12", "e22c5cc", ".device A, B accepted"),
 ("R-org-before-switch", "C02", "9630515 63de58d", ".org directly followed by a segment switch is lost"),
 ("R-includepath-panic", "C16", "7410e14", "relative .includepath in a macro body panics"),
 ("R-includepath-own-directory", "C11", "f446de7 e251467", ".includepath of the file's own directory not handed on"),
 ("R-label-on-org-line", "C02", "d9c506b", "lab: .org 4 gives lab the place in front of the gap"),
 ("R-define-named-pc", "C10", "207b488", "#define pc accepted"),
 ("R-directive-second-operand", "C15", "b1eac26", ".if 1 nosuch assembles as .if 1"),
 ("R-empty-flash-not-written", "C18", "cb20c45", "no .hex for an empty flash image, stale file stays"),
 ("R-undef-two-names", "C10", "6571ebb", ".undef a, b ends a only"),
 ("R-def-register-name", "C10", "7d69954", ".def r5 = r20 accepted and ignored"),
 ("R-endless-source-file", "C16", "a84bfdc", ".include \"/dev/zero\" eats the memory"),
 ("R-blank-in-increment", "C14", "c7ac8d4", "ld r16, X + is a syntax error"),
]

def sh(cmd, **kw):
    return subprocess.run(cmd, shell=True, capture_output=True, text=True, **kw)

def apply_edits(repo, edits):
    for f, old, new in edits:
        p = os.path.join(repo, f)
        s = open(p).read()
        if s.count(old) != 1:
            return f"{f}: pattern occurs {s.count(old)} times: {old[:60]!r}"
        open(p, "w").write(s.replace(old, new))
    return None

def main():
    import run as R
    mode = sys.argv[1] if len(sys.argv) > 1 else "list"
    if mode == "list":
        for m in M: print(m[0], "-", m[5])
        for b in BENIGN: print(b[0], "-", b[2])
        return
    repo, v = R.prepare()
    env = dict(os.environ, VERIF_ROOT=v, VERIF_REPO=repo, CARGO_NET_OFFLINE="true", VERIF_SKIP_MIRI="1")
    out = open("/verif/selftest/RESULTS.jsonl", "a")
    allprops = [f"C{i:02d}" for i in range(1, 19)]
    def build_harness():
        b = sh(f"cargo build --release --offline --target-dir {v}/build/harness && cargo build --profile plainrelease --offline --target-dir {v}/build/harness", cwd=f"{v}/harness", env=env)
        return b.returncode == 0, b.stderr[-400:]
    def run_check(p):
        sh(f"rm -rf {v}/replays/{p}")
        r = sh(f"{v}/build/harness/release/avra-verif run {p} --tier quick", env=env, cwd=v)
        viol = [l for l in r.stdout.splitlines() if l.startswith("VIOLATION")]
        import re
        sigs = sorted(set(re.findall(r"sig=(\S+)", "\n".join(viol))))
        return r.returncode, sigs
    def tests_green():
        t = sh("cargo test --workspace --no-fail-fast --offline", cwd=repo, env=env)
        return "test result: ok. 67 passed; 0 failed" in t.stdout, (t.stdout[-300:] + t.stderr[-300:])
    def reset():
        sh(f"git -C {repo} checkout -q -- . && git -C {repo} clean -fdq -e target")
    if mode == "run":
        want = sys.argv[2:]
        for (mid, prop, f, old, new, what) in M:
            if want and not any(mid.startswith(w) for w in want): continue
            reset()
            err = apply_edits(repo, [(f, old, new)] + M_EXTRA.get(mid, []))
            rec = {"mutant": mid, "property": prop, "what": what, "time": time.strftime("%F %T")}
            if err:
                rec["status"] = "does-not-apply: " + err
            else:
                ok, tail = tests_green()
                rec["suite_green"] = ok
                if not ok:
                    rec["status"] = "existing suite catches it (not a valid seeded break)"
                else:
                    ok, tail = build_harness()
                    if not ok:
                        rec["status"] = "harness build failed: " + tail
                    else:
                        code, sigs = run_check(prop)
                        rec["exit"] = code; rec["signatures"] = sigs[:8]
                        rec["status"] = "DETECTED" if code == 1 else "MISSED"
            print(json.dumps(rec)); out.write(json.dumps(rec) + "\n"); out.flush()
        reset()
    elif mode == "reverts":
        want = sys.argv[2:]
        for (mid, prop, commits, what) in REVERTS:
            if want and not any(mid.startswith(w) for w in want): continue
            reset()
            rec = {"mutant": mid, "property": prop, "what": "fix reverted: " + what, "time": time.strftime("%F %T")}
            err = None
            for c in reversed(commits.split()):
                r = sh(f"git -C {repo} diff {c} {c}~1 | git -C {repo} apply -3 --whitespace=nowarn")
                if r.returncode != 0 or sh(f"git -C {repo} diff --name-only --diff-filter=U").stdout.strip():
                    err = f"revert of {c} does not apply: {r.stderr.strip()[:200]}"
                    break
            sh(f"git -C {repo} reset -q")
            if err:
                rec["status"] = "does-not-apply: " + err
            else:
                ok, tail = tests_green()
                rec["suite_green"] = ok
                if not ok:
                    rec["status"] = "existing suite catches it (not a valid seeded break)"
                else:
                    ok, tail = build_harness()
                    if not ok:
                        rec["status"] = "harness build failed: " + tail
                    else:
                        code, sigs = run_check(prop)
                        rec["exit"] = code; rec["signatures"] = sigs[:8]
                        rec["status"] = "DETECTED" if code == 1 else "MISSED"
            print(json.dumps(rec)); out.write(json.dumps(rec) + "\n"); out.flush()
        reset()
    elif mode == "replays":
        # every detected mutant: its first replay file must exit 1 on the patched tree and 0 on the clean tree
        keep = f"{R.SCR}/replays-keep"
        sh(f"rm -rf {keep}; mkdir -p {keep}")
        saved = []
        want = sys.argv[2:]
        for (mid, prop, f, old, new, what) in M:
            if want and not any(mid.startswith(w) for w in want): continue
            reset()
            if apply_edits(repo, [(f, old, new)] + M_EXTRA.get(mid, [])):
                continue
            ok, _ = build_harness()
            if not ok:
                continue
            code, sigs = run_check(prop)
            if code != 1:
                continue
            files = sorted(os.listdir(f"{v}/replays/{prop}")) if os.path.isdir(f"{v}/replays/{prop}") else []
            if not files:
                continue
            src = f"{v}/replays/{prop}/{files[0]}"
            dst = f"{keep}/{mid}.json"
            sh(f"cp {src} {dst}")
            r = sh(f"{v}/build/harness/release/avra-verif replay {dst}", env=env, cwd=v)
            rec = {"replay_of": mid, "property": prop, "patched_exit": r.returncode, "time": time.strftime("%F %T")}
            saved.append((mid, prop, dst, rec))
            print(json.dumps(rec))
        reset()
        build_harness()
        for mid, prop, dst, rec in saved:
            r = sh(f"{v}/build/harness/release/avra-verif replay {dst}", env=env, cwd=v)
            rec["clean_exit"] = r.returncode
            rec["status"] = "REPLAY-OK" if (rec["patched_exit"], r.returncode) == (1, 0) else "REPLAY-MISMATCH"
            print(json.dumps(rec)); out.write(json.dumps(rec) + "\n"); out.flush()
    elif mode == "benign":
        for (bid, edits, what) in BENIGN:
            reset()
            err = apply_edits(repo, edits)
            rec = {"benign": bid, "what": what, "time": time.strftime("%F %T")}
            if err:
                rec["status"] = "does-not-apply: " + err
            else:
                ok, tail = tests_green()
                rec["suite_green"] = ok
                ok2, tail = build_harness()
                if not ok2:
                    rec["status"] = "harness build failed: " + tail
                else:
                    alarms = {}
                    for p in allprops:
                        code, sigs = run_check(p)
                        if code != 0: alarms[p] = {"exit": code, "sigs": sigs[:5]}
                    rec["alarms"] = alarms
                    rec["status"] = "SILENT" if not alarms else "FALSE-ALARM"
            print(json.dumps(rec)); out.write(json.dumps(rec) + "\n"); out.flush()
        reset()

main()
