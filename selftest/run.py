#!/usr/bin/env python3
"""Run quick checks against a patched scratch copy of no111u3/avra-rs (never /repo itself).

  selftest/run.py <patch.diff> <Cxx> [<Cyy> ...]      apply patch to a scratch worktree, run the checks
  selftest/run.py --baseline <Cxx> ...                 same machinery, no patch (must stay silent)

Scratch lives under /tmp/selftest (worktree of /repo's HEAD + copy of /verif/harness pointing at it).
Prints one line per property: <Cxx> exit=<n> violations=<k> [first signature]; exit status 0 always.
"""
import os, re, shutil, subprocess, sys, json

SCR = os.environ.get("SELFTEST_SCR", "/tmp/selftest")
def sh(cmd, **kw):
    return subprocess.run(cmd, shell=True, capture_output=True, text=True, **kw)

def prepare():
    os.makedirs(SCR, exist_ok=True)
    repo = f"{SCR}/repo"
    head = sh("git -C /repo rev-parse HEAD").stdout.strip()
    if not os.path.isdir(repo):
        r = sh(f"git -C /repo worktree add -q --detach {repo} {head}")
        assert r.returncode == 0, r.stderr
    else:
        sh(f"git -C {repo} checkout -q -- . && git -C {repo} clean -fdq -e target && git -C {repo} checkout -q --detach {head}")
    v = f"{SCR}/verif"
    os.makedirs(v, exist_ok=True)
    src = os.environ.get("SELFTEST_HARNESS_SRC", "/verif/harness")
    if os.path.exists("/tmp/scratch/HARNESS_SRC"):  # lets a running batch keep a frozen copy while the harness is edited
        src = open("/tmp/scratch/HARNESS_SRC").read().strip()
    sh(f"rsync -a --delete --exclude target {src}/ {v}/harness/")
    toml = open(f"{v}/harness/Cargo.toml").read().replace('path = "/repo"', f'path = "{repo}"')
    open(f"{v}/harness/Cargo.toml", "w").write(toml)
    shutil.copy("/verif/KNOWN_FINDINGS.txt", f"{v}/KNOWN_FINDINGS.txt")
    sh(f"rsync -a --delete /verif/findings/ {v}/findings/")
    return repo, v

def main():
    args = sys.argv[1:]
    baseline = args and args[0] == "--baseline"
    patch = None if baseline else os.path.abspath(args[0])
    props = args[1:]
    repo, v = prepare()
    if patch:
        r = sh(f"git -C {repo} apply --whitespace=nowarn {patch}")
        if r.returncode != 0:
            print("PATCH-DOES-NOT-APPLY", r.stderr.strip()[:300]); return
    b = sh(f"cargo build --release --offline --target-dir {v}/build/harness && cargo build --profile plainrelease --offline --target-dir {v}/build/harness", cwd=f"{v}/harness", env=dict(os.environ, CARGO_NET_OFFLINE="true"))
    if b.returncode != 0:
        print("BUILD-FAILED", b.stderr[-600:]);
        sh(f"git -C {repo} checkout -q -- ."); return
    env = dict(os.environ, VERIF_ROOT=v, VERIF_REPO=repo, CARGO_NET_OFFLINE="true")
    if "--with-miri" not in os.environ.get("SELFTEST_FLAGS", ""):
        env["VERIF_SKIP_MIRI"] = "1"
    results = {}
    for p in props:
        sh(f"rm -rf {v}/replays/{p}")
        r = sh(f"{v}/build/harness/release/avra-verif run {p} --tier quick", env=env, cwd=v)
        viol = [l for l in r.stdout.splitlines() if l.startswith("VIOLATION")]
        sigs = sorted(set(re.findall(r"sig=(\S+)", "\n".join(viol))))
        print(f"{p} exit={r.returncode} violations={len(viol)} sigs={sigs[:4]}{'...' if len(sigs)>4 else ''}")
        if r.returncode not in (0, 1):
            print("   ", r.stdout.strip().splitlines()[-1][:300] if r.stdout.strip() else r.stderr[-300:])
        results[p] = {"exit": r.returncode, "violation_lines": len(viol), "signatures": sigs[:12]}
    sh(f"git -C {repo} checkout -q -- . && git -C {repo} clean -fdq -e target")
    print("RESULT-JSON " + json.dumps(results))

if __name__ == '__main__':
    main()
