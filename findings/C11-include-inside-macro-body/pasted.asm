nop
ldi r16, 1
ret
