nop
.include "open.inc"
ldi r16, 1
.endif
ret
