.macro setter
#define SETTER_RAN
.endm
 setter
.ifdef SETTER_RAN
.dw 1
.else
.dw 2
.endif
