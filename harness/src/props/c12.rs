//! C12 — memory capacity limits of the selected device are enforced exactly.
//!
//! Complete in both tiers: every device of the table (+ "no device") x {flash, EEPROM, RAM} x
//! usage {capacity-1, capacity, capacity+1} x several ways of reaching that usage; every shipped
//! part-definition file built through build_file with its four `#pragma AVRPART MEMORY` figures
//! compared with what is reported and enforced; unknown / second `.device`.

use crate::fw::{self, Ctx, Outcome, Rng, Tier};
use crate::refmodel::devices::{self, PartFile};
use avra_lib::device::Device;
use serde_json::{json, Value};
use std::path::PathBuf;

#[derive(Clone, Debug)]
struct Case {
    device: Option<String>,
    prefix: String, // `.device X` line or `.include "file"` line (or empty)
    include_dir: Option<PathBuf>,
    mem: &'static str,
    method: &'static str,
    usage: u64, // words for flash, bytes otherwise
    cap: u64,
    body: String,
    exp_flash_words: u32,
    exp_eeprom: u32,
    exp_ram: u32,
    source_of_cap: &'static str, // "table" or "partfile"
    placement: &'static str,     // where the device selection sits: "top", "macro", "if", "else", "nested-macro"
}

fn body_for(mem: &'static str, method: &'static str, usage: u64, ram_start: u32, rng: &mut Rng) -> Option<String> {
    // returns None when the method cannot express this usage (e.g. usage 0 via an item)
    let mut s = String::new();
    match (mem, method) {
        ("flash", "org+nop") => {
            if usage == 0 {
                return None;
            }
            if usage > 1 {
                s.push_str(&format!(".org {}\n", usage - 1));
            }
            s.push_str("nop\n");
        }
        ("flash", "org+jmp") => {
            if usage < 2 {
                return None;
            }
            if usage > 2 {
                s.push_str(&format!(".org 0x{:x}\n", usage - 2));
            }
            s.push_str("jmp 0\n");
        }
        ("flash", "org+dd") => {
            if usage < 2 {
                return None;
            }
            if usage > 2 {
                s.push_str(&format!(".org {}\n", usage - 2));
            }
            s.push_str(".dd 0x12345678\n");
        }
        ("flash", "org+data-run") => {
            // the last up to 40 words are a run of data lines of mixed widths
            let run = usage.min(40);
            if run == 0 {
                return None;
            }
            if usage > run {
                s.push_str(&format!(".org {}\n", usage - run));
            }
            let mut left = run;
            while left > 0 {
                match rng.below(4) {
                    0 if left >= 4 => {
                        s.push_str(".dq 0x1122334455667788\n");
                        left -= 4;
                    }
                    1 if left >= 2 => {
                        s.push_str(".dd 0x11223344\n");
                        left -= 2;
                    }
                    2 => {
                        s.push_str(".db 7\n");
                        left -= 1;
                    }
                    _ => {
                        s.push_str(".dw 0x1234\n");
                        left -= 1;
                    }
                }
            }
        }
        ("flash", "instr-run") => {
            // only for small usages: no .org at all
            if usage == 0 || usage > 5000 {
                return None;
            }
            let mut left = usage;
            while left > 0 {
                if rng.chance(1, 4) {
                    s.push_str("rjmp pc+1\n");
                    left -= 1;
                } else {
                    s.push_str("nop\n");
                    left -= 1;
                }
            }
        }
        ("eeprom", "org+db") => {
            if usage == 0 {
                return None;
            }
            s.push_str(".eseg\n");
            if usage > 1 {
                s.push_str(&format!(".org {}\n", usage - 1));
            }
            s.push_str(".db 0x5a\n");
        }
        ("eeprom", "byte") => {
            if usage == 0 {
                return None;
            }
            s.push_str(&format!(".eseg\n.byte {}\n", usage));
        }
        ("eeprom", "data-run") => {
            if usage == 0 || usage > 9000 {
                return None;
            }
            s.push_str(".eseg\n");
            let mut left = usage;
            while left > 0 {
                match rng.below(4) {
                    0 if left >= 8 => {
                        s.push_str(".dq 1\n");
                        left -= 8;
                    }
                    1 if left >= 4 => {
                        s.push_str(".dd 1\n");
                        left -= 4;
                    }
                    2 if left >= 2 => {
                        s.push_str(".dw 1\n");
                        left -= 2;
                    }
                    _ => {
                        s.push_str(".db 1\n");
                        left -= 1;
                    }
                }
            }
        }
        ("ram", "byte") => {
            if usage == 0 {
                return None;
            }
            s.push_str(&format!(".dseg\n.byte {}\n", usage));
        }
        ("ram", "org+byte") => {
            if usage < 2 {
                return None;
            }
            let a = ram_start as u64 + usage - 1;
            s.push_str(&format!(".dseg\n.org 0x{:x}\n.byte 1\n", a));
        }
        ("ram", "bytes-interleaved") => {
            if usage < 3 {
                return None;
            }
            let a = 1 + rng.below(usage - 2);
            s.push_str(&format!(".dseg\nv1: .byte {}\n.cseg\nnop\n.dseg\nv2: .byte {}\n", a, usage - a));
        }
        // one unit too many, reached by going back: the memory is filled, an `.org` returns to its start,
        // and more is put there and behind it. However an implementation treats the step back (an overlap
        // error, shared storage), the memory does not get bigger (only generated for capacity + 1)
        ("ram", "full-then-back-to-start") => {
            if usage < 3 {
                return None;
            }
            s.push_str(&format!(".dseg\nfirst: .byte {}\n.org 0x{:x}\nagain: .byte 1\n.cseg\nnop\n.dseg\nlast: .byte 1\n", usage - 1, ram_start));
        }
        ("eeprom", "full-then-back-to-start") => {
            if usage < 3 {
                return None;
            }
            s.push_str(&format!(".eseg\n.byte {}\n.org 1\n.db 1\n.cseg\nnop\n.eseg\n.db 2\n", usage - 1));
        }
        _ => return None,
    }
    Some(s)
}

fn methods(mem: &str) -> &'static [&'static str] {
    match mem {
        "flash" => &["org+nop", "org+dd", "org+jmp", "org+data-run", "instr-run"],
        "eeprom" => &["org+db", "byte", "data-run", "full-then-back-to-start"],
        _ => &["byte", "org+byte", "bytes-interleaved", "full-then-back-to-start"],
    }
}

fn check(ctx: &Ctx, c: &Case) {
    let src = format!("{}{}", c.prefix, c.body);
    let out = match &c.include_dir {
        None => fw::build_str(&src),
        Some(dir) => {
            // through build_file: the main file lives in a scratch directory, the part file is found via the caller-supplied directory
            let tmp = scratch_dir();
            let main = tmp.join(format!("c12_{:016x}.asm", fw::hash_str(&src)));
            if std::fs::write(&main, &src).is_err() {
                ctx.inconclusive("cannot write scratch file");
                return;
            }
            let o = fw::build_file(&main, &[dir.clone()]);
            let _ = std::fs::remove_file(&main);
            o
        }
    };
    ctx.eval(1);
    let dev = c.device.clone().unwrap_or_else(|| "none".to_string());
    let must_build = c.usage <= c.cap;
    let rel = if c.usage < c.cap { "under" } else if c.usage == c.cap { "at" } else { "over" };
    let replay = json!({"source": src, "include_dir": c.include_dir.as_ref().map(|p| p.display().to_string()), "device": dev, "memory": c.mem, "method": c.method, "device_selected_via": c.placement,
        "usage": c.usage, "capacity": c.cap, "capacity_from": c.source_of_cap, "must_build": must_build,
        "expect_sizes": [c.exp_flash_words, c.exp_eeprom, c.exp_ram], "observed": out.brief()});
    let via = if c.placement == "top" { String::new() } else { format!("/device-via-{}", c.placement) };
    let sigbase = format!("cap/{}/{}/{}{}", c.source_of_cap, dev, c.mem, via);
    match &out {
        Outcome::Panic(p) => ctx.violation(format!("{}/panic", sigbase), format!("{} {} usage {} of {} panicked: {}", dev, c.mem, c.usage, c.cap, fw::clip(p, 100)), replay),
        Outcome::Err(e) => {
            if must_build {
                ctx.violation(
                    format!("{}/{}-rejected", sigbase, rel),
                    format!("{}: {} usage {} (capacity {} per {}) via {} was rejected: {}", dev, c.mem, c.usage, c.cap, c.source_of_cap, c.method, fw::clip(e, 100)),
                    replay,
                );
            }
        }
        Outcome::Ok(b) => {
            if !must_build {
                ctx.violation(
                    format!("{}/over-accepted", sigbase),
                    format!("{}: {} usage {} exceeds capacity {} (per {}) via {} but the build succeeded", dev, c.mem, c.usage, c.cap, c.source_of_cap, c.method),
                    replay,
                );
                return;
            }
            if (b.flash_size, b.eeprom_size, b.ram_size) != (c.exp_flash_words, c.exp_eeprom, c.exp_ram) {
                ctx.violation(
                    format!("cap/{}/{}/reported-sizes{}", c.source_of_cap, dev, via),
                    format!("{}: build reports flash/eeprom/ram sizes {}/{}/{} but {} says {}/{}/{}", dev, b.flash_size, b.eeprom_size, b.ram_size, c.source_of_cap, c.exp_flash_words, c.exp_eeprom, c.exp_ram),
                    replay,
                );
                return;
            }
            let measured = match c.mem {
                "flash" => b.code.len() as u64 / 2,
                "eeprom" => b.eeprom.len() as u64,
                _ => b.ram_filling as u64,
            };
            if measured != c.usage {
                ctx.violation(
                    format!("{}/usage-mismatch", sigbase),
                    format!("{}: {} usage built as {} but the result shows {}", dev, c.mem, c.usage, measured),
                    replay,
                );
            }
        }
    }
}

fn scratch_dir() -> PathBuf {
    let d = fw::verif_root().join("build").join(format!("scratch-c12-{}", std::process::id()));
    let _ = std::fs::create_dir_all(&d);
    d
}

/// the `.device` line at top level, or reached through a macro call / a conditional branch
fn placed(name: &str, placement: &str) -> String {
    match placement {
        "macro" => format!(".macro select_part\n.device {}\n.endm\nselect_part\n", name),
        "nested-macro" => format!(".macro select_inner\n.device @0\n.endm\n.macro select_part\nselect_inner {}\n.endm\nselect_part\n", name),
        "if" => format!(".equ part_wanted = 1\n.if part_wanted\n.device {}\n.endif\n", name),
        "else" => format!(".ifdef no_such_symbol\n.device ATnothing99\n.else\n.device {}\n.endif\n", name),
        // symbols named like those of the vendor part files, defined by the program itself with other
        // values: the capacities are those of the device table, not what a program calls its constants
        "equs-small" => format!(".device {}\n.equ SRAM_SIZE = 16\n.equ sram_start = 0x20\n.equ E2END = 3\n.equ FlashEnd = 0x1f\n.equ RAMEND = 0x2f\n.equ EEPROMEND = 3\n.equ XRAMEND = 0\n.equ FLASH_SIZE = 64\n.equ E2SIZE = 4\n.equ EEPROM_SIZE = 4\n.equ PAGESIZE = 1\n.equ IOEND = 0x1f\n", name),
        "equs-large" => format!(".device {}\n.equ sram_size = 0x100000\n.equ SRAM_START = 0x20\n.equ e2end = 0xffffff\n.equ FLASHEND = 0x3fffff\n.equ RamEnd = 0xffffff\n.equ EEPROMEND = 0xffffff\n.equ XRAMEND = 0xffffff\n.equ FLASH_SIZE = 0x1000000\n.equ E2SIZE = 0x1000000\n.equ EEPROM_SIZE = 0x1000000\n.equ PAGESIZE = 4096\n", name),
        _ => format!(".device {}\n", name),
    }
}

fn device_cases(name: Option<&str>, dev: &Device, placement: &'static str, rng: &mut Rng, out: &mut Vec<Case>) {
    let prefix = match name {
        Some(n) => placed(n, placement),
        None => String::new(),
    };
    for (mem, cap) in [("flash", dev.flash_size as u64), ("eeprom", dev.eeprom_size as u64), ("ram", dev.ram_size as u64)] {
        for usage in [cap.wrapping_sub(1), cap, cap + 1] {
            if usage == u64::MAX {
                continue;
            }
            // flash filled by real instructions that come out of macro calls, with the instructions whose length
            // depends on the part (lds/sts: two words, one on the reduced core) among them
            if mem == "flash" && placement == "top" && usage >= 8 && usage <= 9000 {
                let lds_words: u64 = if devices::forbidding_flag(dev, "lds").is_some() { 0 } else if devices::is_reduced(dev) { 1 } else { 2 };
                let per_call = 2 + 2 * lds_words;
                let mut body = String::from(".macro fill_some\n\tnop\n");
                if lds_words > 0 {
                    body.push_str("\tlds r16, @0\n\tsts @0, r17\n");
                }
                body.push_str("\trjmp pc+1\n.endm\n.macro fill_more\n\tfill_some @0\n\tfill_some @0 + 1\n.endm\n");
                let mut left = usage;
                while left >= 2 * per_call {
                    body.push_str("\tfill_more 0x60\n");
                    left -= 2 * per_call;
                }
                if left >= per_call {
                    body.push_str("\tfill_some 0x62\n");
                    left -= per_call;
                }
                for _ in 0..left {
                    body.push_str("\tnop\n");
                }
                out.push(Case {
                    device: name.map(|s| s.to_string()),
                    prefix: prefix.clone(),
                    include_dir: None,
                    mem,
                    method: "instructions-from-macro-calls",
                    usage,
                    cap,
                    body,
                    exp_flash_words: dev.flash_size,
                    exp_eeprom: dev.eeprom_size,
                    exp_ram: dev.ram_size,
                    source_of_cap: "table",
                    placement,
                });
            }
            for (mi, m) in methods(mem).iter().enumerate() {
                if *m == "org+jmp" && devices::forbidding_flag(dev, "jmp").is_some() {
                    continue;
                }
                if placement != "top" && mi > 1 {
                    continue;
                }
                if *m == "full-then-back-to-start" && usage != cap + 1 {
                    continue;
                }
                if let Some(body) = body_for(mem, m, usage, dev.ram_start, rng) {
                    out.push(Case {
                        device: name.map(|s| s.to_string()),
                        prefix: prefix.clone(),
                        include_dir: None,
                        mem,
                        method: m,
                        usage,
                        cap,
                        body,
                        exp_flash_words: dev.flash_size,
                        exp_eeprom: dev.eeprom_size,
                        exp_ram: dev.ram_size,
                        source_of_cap: "table",
                        placement,
                    });
                }
            }
        }
    }
}

/// `.include "<part file>"` when the shipped file assembles; otherwise (the tool cannot parse some
/// `#pragma AVRPART CORE NEW_INSTRUCTIONS lpm rd,z+` lines — outside this property) `.device <name>` directly.
fn partfile_prefix(pf: &PartFile) -> (String, Option<PathBuf>) {
    let fname = pf.file.file_name().unwrap().to_string_lossy().to_string();
    let dir = pf.file.parent().unwrap().to_path_buf();
    let probe = format!(".include \"{}\"\n", fname);
    let main = scratch_dir().join(format!("c12probe_{:016x}.asm", fw::hash_str(&probe)));
    let _ = std::fs::write(&main, &probe);
    let o = fw::build_file(&main, &[dir.clone()]);
    let _ = std::fs::remove_file(&main);
    if o.is_ok() {
        (probe, Some(dir))
    } else {
        (format!(".device {}\n", pf.device), None)
    }
}

fn partfile_cases(pf: &PartFile, rng: &mut Rng, out: &mut Vec<Case>) {
    let (prefix, dir) = partfile_prefix(pf);
    let flash_words = pf.flash_bytes / 2;
    for (mem, cap) in [("flash", flash_words as u64), ("eeprom", pf.eeprom as u64), ("ram", pf.ram_size as u64)] {
        for usage in [cap.wrapping_sub(1), cap, cap + 1] {
            if usage == u64::MAX {
                continue;
            }
            for m in [methods(mem)[0], methods(mem)[1]] {
                if let Some(body) = body_for(mem, m, usage, pf.ram_start, rng) {
                    out.push(Case {
                        device: Some(pf.device.clone()),
                        prefix: prefix.clone(),
                        include_dir: dir.clone(),
                        mem,
                        method: m,
                        usage,
                        cap,
                        body,
                        exp_flash_words: flash_words,
                        exp_eeprom: pf.eeprom,
                        exp_ram: pf.ram_size,
                        source_of_cap: "partfile",
                        placement: "top",
                    });
                }
            }
        }
    }
}

/// RAM start: a data-segment label must equal the declared start address
fn check_ram_start(ctx: &Ctx, dev: &str, prefix: &str, include_dir: Option<&PathBuf>, want: u32, ram_size: u32, from: &'static str) {
    if ram_size < 2 {
        // parts without RAM cannot hold the two probe bytes; the capacity cases cover them
        ctx.count("ram_start_probe_skipped_no_ram", 1);
        return;
    }
    let src = format!("{}.dseg\nfirst_var: .byte 1\nsecond_var: .byte 1\n.cseg\n.dw first_var, second_var\n", prefix);
    let out = match include_dir {
        None => fw::build_str(&src),
        Some(dir) => {
            let main = scratch_dir().join(format!("c12rs_{:016x}.asm", fw::hash_str(&src)));
            let _ = std::fs::write(&main, &src);
            let o = fw::build_file(&main, &[dir.clone()]);
            let _ = std::fs::remove_file(&main);
            o
        }
    };
    ctx.eval(1);
    let replay = json!({"source": src, "include_dir": include_dir.map(|p| p.display().to_string()), "device": dev, "ram_start": want, "capacity_from": from, "observed": out.brief()});
    match &out {
        Outcome::Ok(b) if b.code.len() == 4 => {
            let a = u16::from_le_bytes([b.code[0], b.code[1]]) as u32;
            let a2 = u16::from_le_bytes([b.code[2], b.code[3]]) as u32;
            if a != (want & 0xffff) || a2 != ((want + 1) & 0xffff) || b.ram_filling != 2 {
                ctx.violation(format!("cap/{}/{}/ram-start", from, dev), format!("{}: first data-segment label is 0x{:x}, {} says RAM starts at 0x{:x}", dev, a, from, want), replay);
            }
        }
        other => {
            ctx.violation(format!("cap/{}/{}/ram-start-probe", from, dev), format!("{}: RAM start probe did not build: {:?}", dev, other.kind()), replay);
        }
    }
}

/// Usages far beyond any capacity whose low 32 (or 16) bits look like a legal usage: a size that is
/// narrowed before it is compared passes exactly these. All must fail.
fn wrapped_usages(ctx: &Ctx) {
    use crate::monitor::worker::{self, Case as WCase, Verdict};
    let table = devices::table();
    let mut devs: Vec<(Option<String>, Device)> = vec![(None, Device::new(0))];
    for (n, d) in table.iter().step_by(5) {
        devs.push((Some(n.clone()), d.clone()));
    }
    // these builds run in isolated worker processes with a heap cap and a step budget: code that lets
    // such a size through goes on to reserve it, which must not take the monitor down with it
    let mut cases: Vec<WCase> = vec![];
    let mut meta: Vec<(String, &'static str, &'static str, u64, u64)> = vec![];
    for (name, dev) in &devs {
        let prefix = name.as_ref().map(|n| format!(".device {}\n", n)).unwrap_or_default();
        for base in [1u64 << 32, 1u64 << 33, 1u64 << 40, 1u64 << 16, 1u64 << 31] {
            for k in [0u64, 1, 8] {
                let n = base + k;
                let list = [
                    ("ram", "byte", format!(".dseg\nbuf: .byte {}\n", n), dev.ram_size as u64),
                    ("ram", "org+byte", format!(".dseg\n.org {}\n.byte 1\n", n + dev.ram_start as u64), dev.ram_size as u64),
                    ("eeprom", "byte", format!(".eseg\n.byte {}\n", n), dev.eeprom_size as u64),
                    ("eeprom", "org+db", format!(".eseg\n.org {}\n.db 1\n", n), dev.eeprom_size as u64),
                    ("flash", "org+nop", format!(".org {}\nnop\n", n), dev.flash_size as u64),
                ];
                for (mem, method, body, cap) in list {
                    if n <= cap {
                        continue;
                    }
                    let dname = name.clone().unwrap_or_else(|| "none".into());
                    ctx.distinct(fw::hash_str(&format!("wrap|{}|{}|{}|{}", dname, mem, method, n)));
                    cases.push(WCase { kind: b'S', text: format!("{}{}", prefix, body).into_bytes(), construct: format!("{}/{}", dname, mem), family: "wrapped" });
                    meta.push((dname, mem, method, n, cap));
                }
            }
        }
    }
    worker::supervise(&cases, fw::threads(), 0, &[], |idx, v| {
        let (dname, mem, method, n, cap) = &meta[idx];
        ctx.eval(1);
        ctx.count("wrapped_usage_cases", 1);
        let src = String::from_utf8_lossy(&cases[idx].text).to_string();
        let how = match v {
            Verdict::Done { kind, .. } if kind == "err" => return,
            Verdict::Done { kind, .. } => format!("build returned {}", kind),
            Verdict::Hang { steps } => format!("not rejected: ran into the step budget ({} steps)", steps),
            Verdict::Memory { live } => format!("not rejected: went on to allocate {} MiB", live >> 20),
            Verdict::Churn { calls } => format!("not rejected: ran into the allocator-call budget ({} calls)", calls),
            Verdict::Crash { how, .. } => format!("not rejected: worker died ({})", how),
            Verdict::Inconclusive(w) => {
                ctx.inconclusive(format!("wrapped usage case: {}", w));
                return;
            }
        };
        ctx.violation(
            format!("cap/table/{}/{}/wrapped-size-accepted", dname, mem),
            format!("{}: {} usage {} (capacity {}) via {}: {}", dname, mem, n, cap, method, how),
            json!({"source": src, "device": dname, "memory": mem, "method": method, "usage": n, "capacity": cap, "wrapped": true}),
        );
    });
}

fn misc_device_cases(ctx: &Ctx) {
    let cases: Vec<(&str, String, bool)> = vec![
        ("unknown", ".device ATnothing99\nnop\n".to_string(), false),
        ("unknown-case", ".device atmega8\nnop\n".to_string(), false),
        ("second-same", ".device ATmega8\n.device ATmega8\nnop\n".to_string(), false),
        ("second-different", ".device ATmega8\nnop\n.device ATmega16\n".to_string(), false),
        ("second-after-code", ".device ATtiny13\nnop\nnop\n.device ATtiny13\n".to_string(), false),
        ("two-operands", ".device ATmega8, ATmega16\nnop\n".to_string(), false),
        ("two-operands-same", ".device ATtiny13, ATtiny13\nnop\n".to_string(), false),
        ("two-operands-second-unknown", ".device ATmega8, nothing\nnop\n".to_string(), false),
        // both selections come out of macro expansions
        ("second-both-through-one-macro", ".macro chip\n.device @0\n.endm\n\tchip ATtiny20\n\tchip ATmega8\n\tnop\n".to_string(), false),
        ("second-both-through-nested-macros", ".macro chip\n.device @0\n.endm\n.macro small_board\n\tchip ATtiny20\n.endm\n.macro big_board\n\tchip ATmega8\n.endm\n\tsmall_board\n\tbig_board\n.dseg\n.byte 129\n".to_string(), false),
        ("second-same-both-through-macros", ".macro chip\n.device ATtiny13\n.endm\n\tchip\n\tnop\n\tchip\n".to_string(), false),
        ("second-first-through-macro", ".macro chip\n.device ATtiny13\n.endm\n\tchip\n.device ATmega8\n".to_string(), false),
        ("second-second-through-macro", ".device ATmega8\n.macro chip\n.device ATtiny13\n.endm\n\tnop\n\tchip\n".to_string(), false),
        ("second-in-both-arms-of-taken-branches", ".if 1\n.device ATmega8\n.endif\n.ifndef nothing\n.device ATmega16\n.endif\n".to_string(), false),
        ("single-through-nested-macros", ".macro chip\n.device @0\n.endm\n.macro board\n\tchip ATmega8\n.endm\n\tboard\n\tnop\n".to_string(), true),
        ("single", ".device ATmega8\nnop\n".to_string(), true),
    ];
    // names next to the table's names: a grade letter more, a letter less, a digit more - each is in the table or unknown
    let table = devices::table();
    let known: std::collections::HashSet<&str> = table.iter().map(|(n, _)| n.as_str()).collect();
    let mut near: Vec<(String, String, bool)> = vec![];
    for (n, _) in table.iter() {
        for v in [format!("{}A", n), format!("{}L", n), format!("{}V", n), format!("{}P", n), format!("{}PA", n), format!("{}AA", n), format!("{}X", n), format!("{}0", n), n[..n.len() - 1].to_string(), format!("X{}", n), n.replace("AT", "AT_")] {
            if !known.contains(v.as_str()) && !near.iter().any(|(_, s, _)| s.contains(&format!(" {}\n", v))) {
                let via_macro = near.len() % 3 == 2;
                near.push((format!("unknown-next-to-a-known-name"), if via_macro { format!(".macro part\n.device @0\n.endm\n\tpart {}\n\tnop\n", v) } else { format!(".device {}\n\tnop\n", v) }, false));
            }
        }
    }
    ctx.put("unknown_names_next_to_known_ones", json!(near.len()));
    let cases: Vec<(&str, String, bool)> = cases.into_iter().chain(near.iter().map(|(a, b, c)| (a.as_str(), b.clone(), *c))).collect();
    for (name, src, ok) in cases {
        let out = fw::build_str(&src);
        ctx.eval(1);
        ctx.distinct(fw::hash_str(name));
        let replay = json!({"source": src, "misc": name, "must_build": ok, "observed": out.brief()});
        match (&out, ok) {
            (Outcome::Panic(p), _) => ctx.violation(format!("device/{}/panic", name), fw::clip(p, 120), replay),
            (Outcome::Ok(_), false) if name != "unknown-case" => ctx.violation(format!("device/{}/accepted", name), format!("`.device` case `{}` built although it must be an error", name), replay),
            (Outcome::Err(e), true) => ctx.violation(format!("device/{}/rejected", name), fw::clip(e, 120), replay),
            _ => {}
        }
    }
}

fn all_cases(ctx: &Ctx) -> (Vec<Case>, Vec<PartFile>, Vec<String>) {
    let mut rng = Rng::for_case(ctx.seed, 0xC12, 0);
    let mut cases = vec![];
    let table = devices::table();
    device_cases(None, &Device::new(0), "top", &mut rng, &mut cases);
    for (i, (name, dev)) in table.iter().enumerate() {
        device_cases(Some(name), dev, "top", &mut rng, &mut cases);
        // the same limits with the device selected from expanded or conditional code
        let placement = ["macro", "if", "else", "nested-macro"][i % 4];
        let equs = ["equs-small", "equs-large"][i % 2];
        device_cases(Some(name), dev, placement, &mut rng, &mut cases);
        device_cases(Some(name), dev, equs, &mut rng, &mut cases);
        if ctx.tier == Tier::Thorough {
            for pl in ["macro", "if", "else", "nested-macro", "equs-small", "equs-large"] {
                if pl != placement && pl != equs {
                    device_cases(Some(name), dev, pl, &mut rng, &mut cases);
                }
            }
        }
    }
    let parts = devices::part_files();
    let mut skipped = vec![];
    for pf in &parts {
        if !avra_lib::device::DEVICES.contains_key(pf.device.as_str()) {
            skipped.push(format!("{} ({})", pf.file.file_name().unwrap().to_string_lossy(), pf.device));
            continue;
        }
        partfile_cases(pf, &mut rng, &mut cases);
    }
    (cases, parts, skipped)
}

pub fn run(ctx: &Ctx) -> i32 {
    let (cases, parts, skipped) = all_cases(ctx);
    let table = devices::table();
    ctx.put("devices_in_table", json!(table.len()));
    ctx.put("part_files_with_memory_pragmas", json!(parts.len()));
    ctx.put("part_files_whose_device_is_not_in_table_skipped", json!(skipped));
    let with_file: std::collections::BTreeSet<&str> = parts.iter().map(|p| p.device.as_str()).collect();
    let without: Vec<&String> = table.iter().map(|(n, _)| n).filter(|n| !with_file.contains(n.as_str())).collect();
    ctx.put("table_devices_without_part_file", json!(without));
    for c in &cases {
        ctx.distinct(fw::hash_str(&format!("{:?}|{}|{}|{}|{}|{}", c.device, c.source_of_cap, c.mem, c.method, c.usage as i64 - c.cap as i64, c.placement)));
        if c.placement != "top" {
            ctx.count(&format!("device_selected_via_{}", c.placement), 1);
        }
    }
    for c in cases.iter().step_by(cases.len() / 9 + 1) {
        ctx.sample(json!({"device": c.device, "via": c.source_of_cap, "memory": c.mem, "method": c.method, "usage": c.usage, "capacity": c.cap, "source": format!("{}{}", c.prefix, fw::clip(&c.body, 160))}));
    }
    // big images first so that threads stay balanced
    let mut order: Vec<usize> = (0..cases.len()).collect();
    order.sort_by_key(|i| std::cmp::Reverse(if cases[*i].mem == "flash" { cases[*i].usage } else { 0 }));
    fw::par_for(order.len() as u64, 1, |i| check(ctx, &cases[order[i as usize]]));
    // RAM start
    check_ram_start(ctx, "none", "", None, Device::new(0).ram_start, Device::new(0).ram_size, "table");
    for (name, dev) in &table {
        check_ram_start(ctx, name, &format!(".device {}\n", name), None, dev.ram_start, dev.ram_size, "table");
    }
    for pf in &parts {
        if avra_lib::device::DEVICES.contains_key(pf.device.as_str()) {
            let (prefix, dir) = partfile_prefix(pf);
            ctx.set_add(if dir.is_some() { "part_files_assembled_via_include" } else { "part_files_not_assemblable_checked_via_device_name" }, &pf.file.file_name().unwrap().to_string_lossy());
            check_ram_start(ctx, &pf.device, &prefix, dir.as_ref(), pf.ram_start, pf.ram_size, "partfile");
        }
    }
    misc_device_cases(ctx);
    wrapped_usages(ctx);
    if ctx.tier == Tier::Thorough {
        // extra: random usages strictly inside / far outside, all methods, all devices
        let mut rng = Rng::for_case(ctx.seed, 0xC12, 7);
        let mut extra = vec![];
        for (name, dev) in &table {
            for _ in 0..20 {
                let mem = *rng.pick(&["flash", "eeprom", "ram"]);
                let cap = match mem {
                    "flash" => dev.flash_size,
                    "eeprom" => dev.eeprom_size,
                    _ => dev.ram_size,
                } as u64;
                let usage = if rng.chance(1, 2) { rng.below(cap + 1) } else { cap + 1 + rng.below(cap + 50) };
                let m = *rng.pick(methods(mem));
                if m == "org+jmp" && devices::forbidding_flag(dev, "jmp").is_some() {
                    continue;
                }
                // (stepping back to the start is an error of its own below capacity: that method only says
                // something one unit above it, where the build must fail whichever way the step back is taken)
                if m == "full-then-back-to-start" && usage <= cap {
                    continue;
                }
                if let Some(body) = body_for(mem, m, usage, dev.ram_start, &mut rng) {
                    extra.push(Case { device: Some(name.clone()), prefix: format!(".device {}\n", name), include_dir: None, mem, method: m, usage, cap, body,
                        exp_flash_words: dev.flash_size, exp_eeprom: dev.eeprom_size, exp_ram: dev.ram_size, source_of_cap: "table", placement: "top" });
                }
            }
        }
        for c in &extra {
            ctx.distinct(fw::hash_str(&format!("{:?}|rnd|{}|{}|{}", c.device, c.mem, c.method, c.usage)));
        }
        fw::par_for(extra.len() as u64, 1, |i| check(ctx, &extra[i as usize]));
    }
    ctx.exhaustive.store(true, std::sync::atomic::Ordering::Relaxed);
    let _ = std::fs::remove_dir_all(scratch_dir());
    fw::finish(
        ctx,
        "every device of DEVICES and the no-device default x {flash, EEPROM, RAM} x usage {capacity-1, capacity, capacity+1} x fill methods, the `.device` line at top level and (one placement per device in quick, all four in thorough) inside a called macro, a macro called by a macro with the name as argument, a taken .if and the .else of an untaken .ifdef, or followed by `.equ` definitions of the part files' symbol names (SRAM_SIZE, E2END, FLASHEND, RAMEND ... in mixed case) with much smaller / much larger values (.org + one item, .org + two-word instruction straddling the limit, on parts of up to 9000 words flash filled by nop/lds/sts/rjmp coming out of nested macro calls - lds/sts counting one word on the reduced core -, data runs of mixed widths, instruction runs, .byte reservations, .org in dseg/eseg, interleaved data segments); every shipped includes/*def.inc whose device is in the table built through build_file with capacities taken from its #pragma AVRPART MEMORY lines; RAM start via data-segment labels; unknown and repeated .device; usages of 2^16/2^31/2^32/2^33/2^40 (+0,1,8) units in every memory, which must fail although their low bits look legal; distinct_nontrivial = distinct (device, capacity source, memory, method, usage-capacity) tuples",
        &[
            "for table rows without a shipped part file and for the defaults only enforced == reported == table row can be checked",
            "PROG_FLASH in the part files is in bytes (two per flash word)",
        ],
    )
}

pub fn replay(ctx: &Ctx, case: &Value) -> i32 {
    // regenerate all cases and re-run the ones matching device/memory/method/usage/source
    let (cases, _, _) = all_cases(ctx);
    let dev = case["device"].as_str().unwrap_or("");
    let mut n = 0;
    for c in &cases {
        let cdev = c.device.clone().unwrap_or_else(|| "none".to_string());
        if cdev == dev
            && Some(c.mem) == case["memory"].as_str()
            && Some(c.method) == case["method"].as_str()
            && Some(c.usage) == case["usage"].as_u64()
            && Some(c.source_of_cap) == case["capacity_from"].as_str()
        {
            check(ctx, c);
            n += 1;
        }
    }
    if n == 0 && case["wrapped"].as_bool() == Some(true) {
        wrapped_usages(ctx);
        n = 1;
    }
    if n == 0 {
        if case["ram_start"].is_u64() || case["misc"].is_string() {
            // RAM-start and .device cases: cheap enough to re-run wholesale
            let table = devices::table();
            for (name, d) in &table {
                if name == dev {
                    check_ram_start(ctx, name, &format!(".device {}\n", name), None, d.ram_start, d.ram_size, "table");
                }
            }
            for pf in devices::part_files() {
                if pf.device == dev && avra_lib::device::DEVICES.contains_key(dev) {
                    let (prefix, dir) = partfile_prefix(&pf);
                    check_ram_start(ctx, &pf.device, &prefix, dir.as_ref(), pf.ram_start, pf.ram_size, "partfile");
                }
            }
            misc_device_cases(ctx);
        } else {
            println!("replay: no matching case regenerated");
            return 2;
        }
    }
    ctx.distinct(1);
    ctx.distinct(2);
    fw::finish(ctx, "replay", &[])
}
