//! Reference semantics of the program IR: an independent (IR-level, parser-free) assembler.
//!
//! IR -> flash image, EEPROM image, RAM extent, label values, messages — or "must fail" with the
//! reason and the line at fault. Composed from refmodel::{isa, expr}; device figures are read
//! from the library's table at run time (C12 checks that table against vendor data separately).

use crate::gen::ir::{Arm, Cond, DataOp, MsgKind, Node, Opnd, Seg};
use crate::refmodel::expr::{self, Env, Expected, E};
use crate::refmodel::isa::{self, Core, Opk};
use std::collections::{HashMap, HashSet};

#[derive(Clone, Debug, PartialEq, Eq)]
pub enum FailKind {
    Undefined(String),
    DuplicateLabel(String),
    DuplicateSymbol(String),
    Range,
    Overlap,
    WrongSegment,
    UndefAlias(String),
    ErrorDirective,
    UnknownDevice,
    SecondDevice,
    Capacity,
    BadOperand,
    StringInWord,
    Arithmetic,
    UndefinedMacro(String),
    MissingArg,
    MissingInclude(String),
    Garbage,
    DeviceLacksInstruction,
}

#[derive(Clone, Debug, PartialEq, Eq)]
pub struct RefFail {
    pub kind: FailKind,
    pub file: usize,
    pub line: usize,
}

#[derive(Clone, Debug, PartialEq, Eq)]
pub struct RefMsg {
    pub kind: MsgKind,
    pub text: String,
    pub file: usize,
    pub line: usize,
}

#[derive(Clone, Debug, Default)]
pub struct RefOut {
    pub code: Vec<u8>,
    pub eeprom: Vec<u8>,
    pub ram_filling: u32,
    pub messages: Vec<RefMsg>,
    pub labels: HashMap<String, (Seg, u32)>,
    pub device: Option<String>,
    /// (file, line) of every body line inside an unselected conditional branch
    pub unselected: Vec<(usize, usize)>,
    /// (file, line) of every primitive line that is assembled at top level (not inside macro bodies)
    pub selected: Vec<(usize, usize)>,
    /// (file, line) of the conditional directive lines (.if/.elif/.else/.endif) of chains met on the assembling path
    pub cond_lines: Vec<(usize, usize)>,
    /// where each emitting item landed: (file, line, seg, address, bytes)
    pub placed: Vec<(usize, usize, Seg, u32, usize)>,
    pub flash_words: u32,
    pub eeprom_size: u32,
    pub ram_size: u32,
}

/// The reference cannot decide this program (a construct whose outcome the statements leave open).
#[derive(Clone, Debug, PartialEq, Eq)]
pub enum RefErr {
    Fail(RefFail),
    Indeterminate(String),
}

pub type RefResult = Result<RefOut, RefErr>;

pub struct SourceFile {
    pub nodes: Vec<Node>,
    /// whether the file exists where it will be looked for (C11 negatives)
    pub present: bool,
}

#[derive(Clone, Debug)]
enum Item {
    Seg(Seg),
    Org(i64),
    Label(String),
    Instr { form: usize, ops: Vec<Opnd> },
    Data { width: u8, ops: Vec<DataOp> },
    Reserve(i64),
    Set(String, E),
    Def(String, u8),
    Undef(String),
    Call { name: String, args: Vec<Opnd> },
}

#[derive(Clone, Debug)]
struct Placed {
    item: Item,
    file: usize,
    line: usize,
}

pub fn count_lines(nodes: &[Node]) -> usize {
    let mut n = 0;
    for x in nodes {
        n += match x {
            Node::Cond { arms, else_body } => arms.iter().map(|a| 1 + count_lines(&a.body)).sum::<usize>() + else_body.as_ref().map(|b| 1 + count_lines(b)).unwrap_or(0) + 1,
            Node::MacroDef { body, .. } => 2 + count_lines(body),
            _ => 1,
        };
    }
    n
}

struct Flat<'a> {
    files: &'a [SourceFile],
    equs: HashMap<String, E>,
    defines: HashSet<String>,
    macros: HashMap<String, Vec<Node>>,
    device: Option<String>,
    messages: Vec<RefMsg>,
    items: Vec<Placed>,
    unselected: Vec<(usize, usize)>,
    selected: Vec<(usize, usize)>,
    cond_lines: Vec<(usize, usize)>,
}

fn fail<T>(kind: FailKind, file: usize, line: usize) -> Result<T, RefErr> {
    Err(RefErr::Fail(RefFail { kind, file, line }))
}

enum Flow {
    Continue,
    Exit,
}

impl<'a> Flat<'a> {
    /// evaluate a parse-time expression (conditions, .org, .byte): only literals and .equ constants defined so far
    fn parse_time(&self, e: &E, file: usize, line: usize) -> Result<i64, RefErr> {
        let mut env = Env::new();
        let mut stack = vec![];
        self.collect_equs(e, &mut env, &mut stack, file, line)?;
        match expr::eval(e, &env, 0) {
            Some(Expected::Value(v)) => Ok(v),
            Some(Expected::Fail(expr::Fail::Undefined)) => fail(FailKind::Undefined(first_undefined(e, &env)), file, line),
            Some(Expected::Fail(_)) => fail(FailKind::Arithmetic, file, line),
            _ => Err(RefErr::Indeterminate("parse-time expression with open outcome".into())),
        }
    }

    fn collect_equs(&self, e: &E, env: &mut Env, stack: &mut Vec<String>, file: usize, line: usize) -> Result<(), RefErr> {
        match e {
            E::Sym(s) => {
                let k = s.to_lowercase();
                if env.contains_key(&k) {
                    return Ok(());
                }
                if let Some(def) = self.equs.get(&k) {
                    if stack.contains(&k) {
                        return Err(RefErr::Indeterminate("recursive .equ".into()));
                    }
                    stack.push(k.clone());
                    self.collect_equs(def, env, stack, file, line)?;
                    stack.pop();
                    match expr::eval(def, env, 0) {
                        Some(Expected::Value(v)) => {
                            env.insert(k, v);
                        }
                        Some(Expected::Fail(expr::Fail::Undefined)) => {} // stays undefined
                        Some(Expected::Fail(_)) => return fail(FailKind::Arithmetic, file, line),
                        _ => return Err(RefErr::Indeterminate("equ with open outcome".into())),
                    }
                } else if self.defines.contains(s) {
                    // a #define'd flag evaluates to 0 in expressions
                    env.insert(k, 0);
                }
                Ok(())
            }
            _ => {
                for c in e.children() {
                    self.collect_equs(c, env, stack, file, line)?;
                }
                Ok(())
            }
        }
    }

    fn mark_unselected(&mut self, nodes: &[Node], file: usize, first_line: usize) {
        let n = count_lines(nodes);
        for l in first_line..first_line + n {
            self.unselected.push((file, l));
        }
    }

    /// walk one file's nodes; `line` is the 1-based number of the next line
    fn walk(&mut self, nodes: &[Node], file: usize, line: &mut usize, top: bool) -> Result<Flow, RefErr> {
        for n in nodes {
            let here = *line;
            match n {
                Node::Cond { arms, else_body } => {
                    let mut taken = false;
                    for a in arms {
                        let cond_line = *line;
                        if top {
                            self.cond_lines.push((file, cond_line));
                        }
                        *line += 1;
                        let body_first = *line;
                        let body_len = count_lines(&a.body);
                        let truth = if taken {
                            false // conditions after the selected branch are not even evaluated
                        } else {
                            self.truth(a, file, cond_line)?
                        };
                        if truth {
                            taken = true;
                            let mut l = body_first;
                            if let Flow::Exit = self.walk(&a.body, file, &mut l, top)? {
                                return Ok(Flow::Exit);
                            }
                        } else {
                            self.mark_unselected(&a.body, file, body_first);
                        }
                        *line = body_first + body_len;
                    }
                    if let Some(b) = else_body {
                        if top {
                            self.cond_lines.push((file, *line));
                        }
                        *line += 1;
                        let body_first = *line;
                        if !taken {
                            let mut l = body_first;
                            if let Flow::Exit = self.walk(b, file, &mut l, top)? {
                                return Ok(Flow::Exit);
                            }
                        } else {
                            self.mark_unselected(b, file, body_first);
                        }
                        *line = body_first + count_lines(b);
                    }
                    if top {
                        self.cond_lines.push((file, *line));
                    }
                    *line += 1; // .endif
                    continue;
                }
                Node::MacroDef { name, body, .. } => {
                    self.macros.insert(name.to_lowercase(), body.clone());
                    *line += 2 + count_lines(body);
                    continue;
                }
                _ => {}
            }
            *line += 1;
            if top {
                self.selected.push((file, here));
            }
            let mut push = |s: &mut Self, item: Item| s.items.push(Placed { item, file, line: here });
            match n {
                Node::Seg(s) => push(self, Item::Seg(*s)),
                Node::Org(e) => {
                    let v = self.parse_time(e, file, here)?;
                    push(self, Item::Org(v));
                }
                Node::Label(l) => push(self, Item::Label(l.clone())),
                Node::Instr { label, form, ops } => {
                    if let Some(l) = label {
                        push(self, Item::Label(l.clone()));
                    }
                    push(self, Item::Instr { form: *form, ops: ops.clone() });
                }
                Node::Data { label, width, ops } => {
                    if let Some(l) = label {
                        push(self, Item::Label(l.clone()));
                    }
                    push(self, Item::Data { width: *width, ops: ops.clone() });
                }
                Node::Reserve { label, n } => {
                    if let Some(l) = label {
                        push(self, Item::Label(l.clone()));
                    }
                    let v = self.parse_time(n, file, here)?;
                    push(self, Item::Reserve(v));
                }
                Node::Equ(name, e) => {
                    let k = name.to_lowercase();
                    // one definition per name: not a second .equ, not the location counter, not (in any letter
                    // case) a name that is #defined - the #define would be what a use in that spelling reads
                    if self.equs.contains_key(&k) || k == "pc" || self.defines.iter().any(|d| d.eq_ignore_ascii_case(&k)) {
                        return fail(FailKind::DuplicateSymbol(name.clone()), file, here);
                    }
                    self.equs.insert(k, e.clone());
                }
                Node::Set(name, e) => push(self, Item::Set(name.clone(), e.clone())),
                Node::Def(name, r) => push(self, Item::Def(name.clone(), *r)),
                Node::Undef(name) => push(self, Item::Undef(name.clone())),
                Node::Define(name) => {
                    if self.equs.contains_key(&name.to_lowercase()) || name.eq_ignore_ascii_case("pc") {
                        return fail(FailKind::DuplicateSymbol(name.clone()), file, here);
                    }
                    self.defines.insert(name.clone());
                }
                Node::Message(k, t) => {
                    self.messages.push(RefMsg { kind: *k, text: t.clone(), file, line: here });
                    if *k == MsgKind::Error {
                        return fail(FailKind::ErrorDirective, file, here);
                    }
                }
                Node::Device(d) => {
                    if !avra_lib::device::DEVICES.contains_key(d.as_str()) {
                        return fail(FailKind::UnknownDevice, file, here);
                    }
                    if self.device.is_some() {
                        return fail(FailKind::SecondDevice, file, here);
                    }
                    self.device = Some(d.clone());
                }
                Node::MacroCall { name, args } => push(self, Item::Call { name: name.clone(), args: args.clone() }),
                Node::Include { path, file: fi } => {
                    let f = &self.files[*fi];
                    if !f.present {
                        return fail(FailKind::MissingInclude(path.clone()), file, here);
                    }
                    let mut l = 1;
                    // `.exit` inside the included file ends only that file
                    let _ = self.walk(&f.nodes, *fi, &mut l, top)?;
                }
                Node::IncludePath(_) | Node::Comment(_) | Node::Blank => {}
                Node::Exit => return Ok(Flow::Exit),
                Node::Raw(_) => return fail(FailKind::Garbage, file, here),
                Node::Cond { .. } | Node::MacroDef { .. } => unreachable!(),
            }
        }
        Ok(Flow::Continue)
    }

    fn truth(&self, a: &Arm, file: usize, line: usize) -> Result<bool, RefErr> {
        Ok(match &a.cond {
            Cond::Expr(e) => self.parse_time(e, file, line)? != 0,
            Cond::Def(n) => self.defines.contains(n),
            Cond::NDef(n) => !self.defines.contains(n),
        })
    }
}

fn first_undefined(e: &E, env: &Env) -> String {
    match e {
        E::Sym(s) => {
            if env.contains_key(&s.to_lowercase()) {
                String::new()
            } else {
                s.clone()
            }
        }
        _ => {
            for c in e.children() {
                let u = first_undefined(c, env);
                if !u.is_empty() {
                    return u;
                }
            }
            String::new()
        }
    }
}

// ------------------------------------------------------------------------------------------
// macro expansion on the IR (the argument is substituted *as a value*)

fn subst_expr(e: &E, args: &[Opnd], used_missing: &mut bool, whole: bool) -> Result<E, Opnd> {
    match e {
        E::Sym(s) if s.starts_with('@') => {
            let n: usize = s[1..].parse().unwrap_or(99);
            match args.get(n) {
                None => {
                    *used_missing = true;
                    Ok(E::Lit(0, 0))
                }
                Some(Opnd::Expr(a)) => {
                    if whole {
                        Ok(a.clone())
                    } else {
                        Ok(E::Paren(Box::new(a.clone())))
                    }
                }
                // a register / index argument in expression position: only legal as a whole operand
                Some(other) => Err(other.clone()),
            }
        }
        E::Un(u, x) => Ok(E::Un(*u, Box::new(subst_expr(x, args, used_missing, false)?))),
        E::Bin(b, l, r) => Ok(E::Bin(*b, Box::new(subst_expr(l, args, used_missing, false)?), Box::new(subst_expr(r, args, used_missing, false)?))),
        E::Func(f, x) => Ok(E::Func(f, Box::new(subst_expr(x, args, used_missing, true)?))),
        E::Paren(x) => Ok(E::Paren(Box::new(subst_expr(x, args, used_missing, true)?))),
        other => Ok(other.clone()),
    }
}

fn subst_opnd(o: &Opnd, args: &[Opnd], used_missing: &mut bool) -> Opnd {
    match o {
        Opnd::Param(n) => match args.get(*n as usize) {
            Some(a) => a.clone(),
            None => {
                *used_missing = true;
                Opnd::Reg(0)
            }
        },
        Opnd::Expr(e) => match subst_expr(e, args, used_missing, true) {
            Ok(x) => Opnd::Expr(x),
            Err(whole) => whole, // `@n` alone written as an expression operand, given a register/index
        },
        Opnd::Disp(r, e) => match subst_expr(e, args, used_missing, false) {
            Ok(x) => Opnd::Disp(*r, x),
            Err(_) => {
                *used_missing = true;
                o.clone()
            }
        },
        other => other.clone(),
    }
}

/// After substitution the addressing form of ld/st/ldd/std/lpm/elpm follows from the operand that was passed.
fn fix_form(form: usize, ops: &[Opnd]) -> usize {
    let f = &isa::forms()[form];
    if !matches!(f.mn, "ld" | "st" | "ldd" | "std" | "lpm" | "elpm") {
        return form;
    }
    for (i, cand) in isa::forms().iter().enumerate() {
        if cand.mn != f.mn || cand.ops.len() != ops.len() {
            continue;
        }
        let ok = cand.ops.iter().zip(ops).all(|(k, o)| match (k, o) {
            (Opk::Index(a), Opnd::Idx(b)) => a == b,
            (Opk::Disp { reg, .. }, Opnd::Disp(r, _)) => *reg == r.to_ascii_uppercase(),
            (Opk::Reg { .. }, Opnd::Reg(_) | Opnd::Alias(_)) => true,
            _ => false,
        });
        if ok {
            return i;
        }
    }
    form
}

fn subst_nodes(nodes: &[Node], args: &[Opnd], used_missing: &mut bool) -> Vec<Node> {
    let se = |e: &E, um: &mut bool| subst_expr(e, args, um, true).unwrap_or(E::Lit(0, 0));
    nodes
        .iter()
        .map(|n| match n {
            Node::Instr { label, form, ops } => {
                let ops: Vec<Opnd> = ops.iter().map(|o| subst_opnd(o, args, used_missing)).collect();
                Node::Instr { label: label.clone(), form: fix_form(*form, &ops), ops }
            }
            Node::Data { label, width, ops } => Node::Data {
                label: label.clone(),
                width: *width,
                ops: ops
                    .iter()
                    .map(|d| match d {
                        DataOp::E(e) => DataOp::E(se(e, used_missing)),
                        s => s.clone(),
                    })
                    .collect(),
            },
            Node::Cond { arms, else_body } => Node::Cond {
                arms: arms
                    .iter()
                    .map(|a| Arm {
                        cond: match &a.cond {
                            Cond::Expr(e) => Cond::Expr(se(e, used_missing)),
                            c => c.clone(),
                        },
                        body: subst_nodes(&a.body, args, used_missing),
                    })
                    .collect(),
                else_body: else_body.as_ref().map(|b| subst_nodes(b, args, used_missing)),
            },
            Node::MacroCall { name, args: a } => Node::MacroCall { name: name.clone(), args: a.iter().map(|o| subst_opnd(o, args, used_missing)).collect() },
            Node::Set(nm, e) => Node::Set(nm.clone(), se(e, used_missing)),
            Node::Reserve { label, n } => Node::Reserve { label: label.clone(), n: se(n, used_missing) },
            Node::Org(e) => Node::Org(se(e, used_missing)),
            other => other.clone(),
        })
        .collect()
}

/// Expand all macro calls of a node list (recursively). Used by the reference and to print the
/// hand-expanded program.
pub fn expand_macros(nodes: &[Node], macros: &HashMap<String, Vec<Node>>, depth: u32) -> Result<Vec<Node>, FailKind> {
    if depth > 16 {
        return Err(FailKind::Garbage);
    }
    let mut out = vec![];
    for n in nodes {
        match n {
            Node::MacroCall { name, args } => {
                let Some(body) = macros.get(&name.to_lowercase()) else { return Err(FailKind::UndefinedMacro(name.clone())) };
                let mut missing = false;
                let b = subst_nodes(body, args, &mut missing);
                if missing {
                    return Err(FailKind::MissingArg);
                }
                out.extend(expand_macros(&b, macros, depth + 1)?);
            }
            Node::MacroDef { .. } => {}
            Node::Cond { arms, else_body } => {
                let mut new_arms = vec![];
                for a in arms {
                    new_arms.push(Arm { cond: a.cond.clone(), body: expand_macros(&a.body, macros, depth)? });
                }
                let eb = match else_body {
                    Some(b) => Some(expand_macros(b, macros, depth)?),
                    None => None,
                };
                out.push(Node::Cond { arms: new_arms, else_body: eb });
            }
            other => out.push(other.clone()),
        }
    }
    Ok(out)
}

pub fn collect_macros(nodes: &[Node], into: &mut HashMap<String, Vec<Node>>) {
    for n in nodes {
        match n {
            Node::MacroDef { name, body, .. } => {
                into.insert(name.to_lowercase(), body.clone());
            }
            Node::Cond { arms, else_body } => {
                // definitions inside conditionals are not generated
                let _ = (arms, else_body);
            }
            _ => {}
        }
    }
}

// ------------------------------------------------------------------------------------------
// assemble

struct DevInfo {
    flash_words: u32,
    ram_start: u32,
    ram_size: u32,
    eeprom_size: u32,
    reduced: bool,
    dev: avra_lib::device::Device,
}

fn dev_info(name: &Option<String>) -> DevInfo {
    let d = match name {
        Some(n) => avra_lib::device::DEVICES[n.as_str()].clone(),
        None => avra_lib::device::Device::new(0),
    };
    DevInfo { flash_words: d.flash_size, ram_start: d.ram_start, ram_size: d.ram_size, eeprom_size: d.eeprom_size, reduced: crate::refmodel::devices::is_reduced(&d), dev: d }
}

fn eval_single(e: &E, env: &Env, pc: i64, file: usize, line: usize) -> Result<i64, RefErr> {
    match expr::eval(e, env, pc) {
        Some(Expected::Value(v)) => Ok(v),
        Some(Expected::Fail(expr::Fail::Undefined)) => fail(FailKind::Undefined(first_undefined(e, env)), file, line),
        Some(Expected::Fail(_)) => fail(FailKind::Arithmetic, file, line),
        _ => Err(RefErr::Indeterminate("expression with open outcome".into())),
    }
}

pub fn fits(width: u8, v: i64) -> bool {
    match width {
        1 => (-128..=255).contains(&v),
        2 => (-32768..=65535).contains(&v),
        4 => (-(1i64 << 31)..=(1i64 << 32) - 1).contains(&v),
        _ => true,
    }
}

fn data_len(width: u8, ops: &[DataOp]) -> usize {
    ops.iter()
        .map(|o| match o {
            DataOp::E(_) => width as usize,
            DataOp::S(s) => s.len(), // only legal for width 1; checked at emission
        })
        .sum()
}

/// Assemble a program given as a tree of files (files[0] is the main file).
pub fn assemble(files: &[SourceFile]) -> RefResult {
    let mut fl = Flat { files, equs: HashMap::new(), defines: HashSet::new(), macros: HashMap::new(), device: None, messages: vec![], items: vec![], unselected: vec![], selected: vec![], cond_lines: vec![] };
    let mut line = 1;
    fl.walk(&files[0].nodes, 0, &mut line, true)?;

    // ---- macro expansion ("pass 0"): after the whole parse, with the complete macro/equ/define tables
    let mut items: Vec<Placed> = vec![];
    let top_items = std::mem::take(&mut fl.items);
    for p in top_items {
        match &p.item {
            Item::Call { name, args } => {
                let call = Node::MacroCall { name: name.clone(), args: args.clone() };
                let expanded = match expand_macros(std::slice::from_ref(&call), &fl.macros, 0) {
                    Ok(x) => x,
                    Err(k) => return fail(k, p.file, p.line),
                };
                // the body is walked like source text (conditionals evaluated now); line numbers inside
                // bodies are not modelled (file index usize::MAX marks "inside a macro")
                let mut l = 1;
                let before = fl.items.len();
                let saved_sel = std::mem::take(&mut fl.selected);
                let saved_unsel = std::mem::take(&mut fl.unselected);
                let r = fl.walk(&expanded, p.file, &mut l, false);
                fl.selected = saved_sel;
                fl.unselected = saved_unsel;
                match r {
                    Ok(_) => {}
                    Err(RefErr::Fail(f)) => return Err(RefErr::Fail(RefFail { kind: f.kind, file: p.file, line: p.line })),
                    Err(e) => return Err(e),
                }
                let new: Vec<Placed> = fl.items.drain(before..).collect();
                for mut q in new {
                    q.file = p.file;
                    q.line = p.line;
                    items.push(q);
                }
            }
            _ => items.push(p),
        }
    }

    let di = dev_info(&fl.device);

    // ---- layout ("pass 1")
    let mut counters: HashMap<Seg, u32> = HashMap::new();
    counters.insert(Seg::Code, 0);
    counters.insert(Seg::Data, di.ram_start);
    counters.insert(Seg::Eeprom, 0);
    let mut seg = Seg::Code;
    let mut labels: HashMap<String, (Seg, u32)> = HashMap::new();
    let mut addr_of: Vec<u32> = Vec::with_capacity(items.len());
    for p in &items {
        let cur = counters[&seg];
        addr_of.push(cur);
        match &p.item {
            Item::Seg(s) => seg = *s,
            Item::Org(n) => {
                if *n < 0 || *n > u32::MAX as i64 {
                    return fail(FailKind::Range, p.file, p.line);
                }
                if (*n as u32) < cur {
                    return fail(FailKind::Overlap, p.file, p.line);
                }
                counters.insert(seg, *n as u32);
            }
            Item::Label(l) => {
                let k = l.to_lowercase();
                if labels.contains_key(&k) {
                    return fail(FailKind::DuplicateLabel(l.clone()), p.file, p.line);
                }
                // a name has one definition: a label cannot share its name with an .equ, the location counter
                // or (in any letter case) a #define
                if fl.equs.contains_key(&k) || k == "pc" || fl.defines.iter().any(|d| d.eq_ignore_ascii_case(&k)) {
                    return fail(FailKind::DuplicateSymbol(l.clone()), p.file, p.line);
                }
                labels.insert(k, (seg, cur));
            }
            Item::Instr { form, .. } => {
                if seg != Seg::Code {
                    return fail(FailKind::WrongSegment, p.file, p.line);
                }
                let f = &isa::forms()[*form];
                counters.insert(seg, cur + f.words() as u32);
            }
            Item::Data { width, ops } => {
                let n = data_len(*width, ops);
                match seg {
                    Seg::Code => counters.insert(seg, cur + ((n + 1) / 2) as u32),
                    Seg::Eeprom => counters.insert(seg, cur + n as u32),
                    Seg::Data => return fail(FailKind::WrongSegment, p.file, p.line),
                };
            }
            Item::Reserve(n) => {
                if seg == Seg::Code {
                    return fail(FailKind::WrongSegment, p.file, p.line);
                }
                if *n < 0 || *n > (1 << 30) {
                    return fail(FailKind::Range, p.file, p.line);
                }
                counters.insert(seg, cur + *n as u32);
            }
            Item::Set(..) | Item::Def(..) | Item::Undef(..) => {}
            Item::Call { .. } => unreachable!(),
        }
    }

    // ---- environment: labels + lazily evaluated .equ
    let mut env = Env::new();
    for (k, (_, a)) in &labels {
        env.insert(k.clone(), *a as i64);
    }
    // symbols must be unique across kinds (generators keep them so; a clash is left undecided)
    for k in fl.equs.keys() {
        if labels.contains_key(k) {
            return Err(RefErr::Indeterminate("name used as label and .equ".into()));
        }
    }
    // resolve equs to values where possible (dependencies first)
    let equ_names: Vec<String> = fl.equs.keys().cloned().collect();
    let mut progress = true;
    let mut bad_equ: HashMap<String, FailKind> = HashMap::new();
    while progress {
        progress = false;
        for k in &equ_names {
            if env.contains_key(k) || bad_equ.contains_key(k) {
                continue;
            }
            let def = &fl.equs[k];
            // are all symbols it needs resolved (or certainly undefined)?
            let mut ready = true;
            let mut visit = vec![def];
            while let Some(x) = visit.pop() {
                if let E::Sym(s) = x {
                    let sk = s.to_lowercase();
                    if !env.contains_key(&sk) && fl.equs.contains_key(&sk) && !bad_equ.contains_key(&sk) {
                        ready = false;
                    }
                }
                visit.extend(x.children());
            }
            if !ready {
                continue;
            }
            match expr::eval(def, &env, 0) {
                Some(Expected::Value(v)) => {
                    env.insert(k.clone(), v);
                }
                Some(Expected::Fail(expr::Fail::Undefined)) => {
                    bad_equ.insert(k.clone(), FailKind::Undefined(first_undefined(def, &env)));
                }
                Some(Expected::Fail(_)) => {
                    bad_equ.insert(k.clone(), FailKind::Arithmetic);
                }
                _ => return Err(RefErr::Indeterminate("equ with open outcome".into())),
            }
            progress = true;
        }
    }
    if equ_names.iter().any(|k| !env.contains_key(k) && !bad_equ.contains_key(k)) {
        return Err(RefErr::Indeterminate("cyclic .equ".into()));
    }
    for d in &fl.defines {
        env.entry(d.to_lowercase()).or_insert(0);
    }

    // ---- emission ("pass 2")
    let mut out = RefOut { device: fl.device.clone(), messages: fl.messages.clone(), labels: labels.clone(), ..Default::default() };
    out.unselected = fl.unselected.clone();
    out.selected = fl.selected.clone();
    out.cond_lines = fl.cond_lines.clone();
    let mut defs: HashMap<String, u8> = HashMap::new();
    let mut set_names: HashSet<String> = HashSet::new();
    let mut seg = Seg::Code;
    for (idx, p) in items.iter().enumerate() {
        let at = addr_of[idx];
        let (file, line) = (p.file, p.line);
        let image_len = |o: &RefOut, s: Seg| match s {
            Seg::Code => o.code.len() as u32 / 2,
            Seg::Eeprom => o.eeprom.len() as u32,
            Seg::Data => 0,
        };
        // zero fill up to the item's address
        let mut pad_to = |o: &mut RefOut, s: Seg, a: u32| match s {
            Seg::Code => {
                while (o.code.len() as u32) < a * 2 {
                    o.code.push(0);
                }
            }
            Seg::Eeprom => {
                while (o.eeprom.len() as u32) < a {
                    o.eeprom.push(0);
                }
            }
            Seg::Data => {}
        };
        match &p.item {
            Item::Seg(s) => seg = *s,
            Item::Org(_) | Item::Label(_) => {
                // a label at the very end of a segment after an .org still defines the extent only when an item follows;
                // the real tool pads when the segment holds any item (a label counts): mirror the statement, which speaks of "the next item"
                if let Item::Label(_) = &p.item {
                    if image_len(&out, seg) < at && seg != Seg::Data {
                        // label after a gap: bytes up to the label are zero (nothing else can be there)
                        pad_to(&mut out, seg, at);
                    }
                }
            }
            Item::Set(name, e) => {
                let v = eval_single(e, &env, at as i64, file, line)?;
                let k = name.to_lowercase();
                if !set_names.contains(&k) && (env.contains_key(&k) || defs.contains_key(&k) || k == "pc" || fl.defines.iter().any(|d| d.eq_ignore_ascii_case(&k))) {
                    return fail(FailKind::DuplicateSymbol(name.clone()), file, line);
                }
                set_names.insert(k.clone());
                env.insert(k, v);
            }
            Item::Def(name, r) => {
                let k = name.to_lowercase();
                // a register keeps its name; pc and #define names are taken
                let is_register = k.strip_prefix('r').map(|n| !n.is_empty() && n.len() <= 2 && n.chars().all(|c| c.is_ascii_digit()) && !(n.len() == 2 && n.starts_with('0')) && n.parse::<u8>().map(|v| v < 32).unwrap_or(false)).unwrap_or(false);
                if is_register || k == "pc" || fl.defines.iter().any(|d| d.eq_ignore_ascii_case(&k)) {
                    return fail(FailKind::DuplicateSymbol(name.clone()), file, line);
                }
                if defs.contains_key(&k) {
                    return Err(RefErr::Indeterminate("re-.def without .undef".into()));
                }
                if env.contains_key(&k) {
                    return Err(RefErr::Indeterminate(".def of a name that is also an expression symbol".into()));
                }
                defs.insert(k, *r);
            }
            Item::Undef(name) => {
                // (`.undef a, b` ends both)
                for n in name.split(',') {
                    if defs.remove(&n.trim().to_lowercase()).is_none() {
                        return fail(FailKind::UndefAlias(name.clone()), file, line);
                    }
                }
            }
            Item::Instr { form, ops } => {
                let f = &isa::forms()[*form];
                if (f.core == Core::Reduced) != di.reduced && f.core != Core::Any {
                    return Err(RefErr::Indeterminate("lds/sts form does not match the device core".into()));
                }
                if crate::refmodel::devices::forbidding_flag(&di.dev, &f.name).is_some() {
                    return fail(FailKind::DeviceLacksInstruction, file, line);
                }
                if ops.len() != f.ops.len() {
                    return fail(FailKind::BadOperand, file, line);
                }
                let mut vals = vec![];
                for (o, k) in ops.iter().zip(&f.ops) {
                    let v = match (o, k) {
                        (Opnd::Reg(n), Opk::Reg { .. }) => *n as i64,
                        (Opnd::Alias(a), Opk::Reg { .. }) => match defs.get(&a.to_lowercase()) {
                            Some(r) => *r as i64,
                            None => return fail(FailKind::UndefAlias(a.clone()), file, line),
                        },
                        (Opnd::Idx(ix), Opk::Index(want)) => {
                            if ix != want {
                                return fail(FailKind::BadOperand, file, line);
                            }
                            0
                        }
                        (Opnd::Disp(r, e), Opk::Disp { reg, .. }) => {
                            if r.to_ascii_uppercase() != *reg {
                                return fail(FailKind::BadOperand, file, line);
                            }
                            eval_single(e, &env, at as i64, file, line)?
                        }
                        (Opnd::Expr(e), Opk::Rel { .. }) => {
                            let target = eval_single(e, &env, at as i64, file, line)?;
                            target - (at as i64 + 1)
                        }
                        (Opnd::Expr(e), Opk::Imm { .. } | Opk::ImmCom { .. } | Opk::Addr8l { .. }) => eval_single(e, &env, at as i64, file, line)?,
                        _ => return fail(FailKind::BadOperand, file, line),
                    };
                    vals.push(v);
                }
                // 8-bit immediates may be written as negative two's complement: left undecided
                for (v, k) in vals.iter().zip(&f.ops) {
                    let eight = matches!(k, Opk::ImmCom { .. }) || matches!(k, Opk::Imm { lo: 0, hi: 255, .. });
                    if eight && (-128..0).contains(v) {
                        return Err(RefErr::Indeterminate("negative 8-bit immediate".into()));
                    }
                }
                if !f.legal(&vals) {
                    return fail(FailKind::Range, file, line);
                }
                pad_to(&mut out, Seg::Code, at);
                let bytes = isa::words_to_bytes(&isa::encode(f, &vals));
                out.placed.push((file, line, Seg::Code, at, bytes.len()));
                out.code.extend(bytes);
            }
            Item::Data { width, ops } => {
                let mut bytes = vec![];
                for o in ops {
                    match o {
                        DataOp::S(s) => {
                            if *width != 1 {
                                return fail(FailKind::StringInWord, file, line);
                            }
                            bytes.extend_from_slice(s.as_bytes());
                        }
                        DataOp::E(e) => {
                            let v = eval_single(e, &env, at as i64, file, line)?;
                            if !fits(*width, v) {
                                return fail(FailKind::Range, file, line);
                            }
                            bytes.extend_from_slice(&v.to_le_bytes()[..*width as usize]);
                        }
                    }
                }
                if seg == Seg::Code && bytes.len() % 2 == 1 {
                    bytes.push(0);
                }
                pad_to(&mut out, seg, at);
                out.placed.push((file, line, seg, at, bytes.len()));
                match seg {
                    Seg::Code => out.code.extend(bytes),
                    Seg::Eeprom => out.eeprom.extend(bytes),
                    Seg::Data => unreachable!(),
                }
            }
            Item::Reserve(n) => {
                if seg == Seg::Eeprom {
                    pad_to(&mut out, seg, at);
                    out.placed.push((file, line, seg, at, *n as usize));
                    out.eeprom.extend(std::iter::repeat(0u8).take(*n as usize));
                } else {
                    out.placed.push((file, line, seg, at, *n as usize));
                }
            }
            Item::Call { .. } => unreachable!(),
        }
    }
    // an .equ that could not be evaluated only matters when used; uses were evaluated above through env (absent -> Undefined)
    let _ = bad_equ;
    out.ram_filling = counters[&Seg::Data] - di.ram_start;
    out.flash_words = di.flash_words;
    out.eeprom_size = di.eeprom_size;
    out.ram_size = di.ram_size;
    if out.code.len() as u64 > di.flash_words as u64 * 2 || out.eeprom.len() as u32 > di.eeprom_size || out.ram_filling > di.ram_size {
        return fail(FailKind::Capacity, 0, 0);
    }
    Ok(out)
}

pub fn single(nodes: Vec<Node>) -> Vec<SourceFile> {
    vec![SourceFile { nodes, present: true }]
}
