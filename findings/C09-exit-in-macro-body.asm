; C09 known finding: .exit inside a macro body ends only that expansion
.macro m
 nop
.exit
.endm
 m
 ret
; written out (nop / .exit / ret) the source ends behind the nop: 00 00; with the macro: 00 00 08 95
