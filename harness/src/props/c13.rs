//! C13 — instructions the selected device lacks are rejected; all others are unaffected.
//!
//! Complete in both tiers: every device of the table x every instruction form of the reference
//! ISA x lowest/highest legal operand tuple (thorough: + 64 random tuples). Oracle: flag→forms map
//! transcribed from the DisabledOptions documentation, flags read from DEVICES at run time; an
//! allowed form must assemble to the reference (no-device) encoding, lds/sts taking the one-word
//! form on reduced cores.

use crate::fw::{self, Ctx, Outcome, Rng, Tier};
use crate::refmodel::{devices, isa::{self, Core, Opk}};
use serde_json::{json, Value};

fn tuples(form: &isa::Form, rng: &mut Rng, extra: usize) -> Vec<Vec<i64>> {
    let space = form.space();
    let mut v = vec![form.tuple_at(0), form.tuple_at(space - 1)];
    for _ in 0..extra {
        v.push(form.tuple_at(rng.below(space)));
    }
    // relative operands: keep the displacement small (no .org on 512-word parts)
    for t in v.iter_mut() {
        for (i, o) in form.ops.iter().enumerate() {
            if let Opk::Rel { .. } = o {
                t[i] = t[i].clamp(-64, 63);
            }
        }
    }
    v.sort();
    v.dedup();
    v
}

fn check(ctx: &Ctx, dev_name: &str, form: &isa::Form, vals: &[i64]) {
    let dev = &avra_lib::device::DEVICES[dev_name];
    let forbidden = devices::forbidding_flag(dev, &form.name);
    let text = form.text(vals);
    let src = format!(".device {}\n{}\n", dev_name, text);
    let out = fw::build_str(&src);
    ctx.eval(1);
    let expect = isa::words_to_bytes(&isa::encode(form, vals));
    let replay = json!({"source": src, "device": dev_name, "form": form.name, "vals": vals,
        "forbidden_by": forbidden.as_ref().map(|f| format!("{:?}", f)), "expect_code": fw::hex(&expect, 8), "observed": out.brief()});
    match (&forbidden, &out) {
        (_, Outcome::Panic(p)) => ctx.violation(format!("gate/{}/panic", form.name), format!("{} on {} panicked: {}", text, dev_name, fw::clip(p, 120)), replay),
        (Some(flag), Outcome::Ok(b)) => ctx.violation(
            format!("gate/{:?}/{}/accepted", flag, form.name),
            format!("`{}` assembled ({}) on {} although the device has {:?}", text, fw::hex(&b.code, 4), dev_name, flag),
            replay,
        ),
        (Some(_), Outcome::Err(_)) => {}
        (None, Outcome::Err(e)) => ctx.violation(
            format!("gate/allowed/{}/rejected", form.name),
            format!("`{}` rejected on {} although no flag of the device forbids it: {}", text, dev_name, fw::clip(e, 120)),
            replay,
        ),
        (None, Outcome::Ok(b)) => {
            if b.code != expect {
                ctx.violation(
                    format!("gate/allowed/{}/bytes", form.name),
                    format!("`{}` on {} assembled to {} but {} without a device", text, dev_name, fw::hex(&b.code, 4), fw::hex(&expect, 4)),
                    replay,
                );
            }
        }
    }
    ctx.count(if forbidden.is_some() { "forbidden_pairs_runs" } else { "allowed_pairs_runs" }, 1);
}

pub fn run(ctx: &Ctx) -> i32 {
    if let Err(e) = isa::selfcheck() {
        println!("HARNESS-FAILURE property=C13 {}", e);
        return 2;
    }
    let table = devices::table();
    let forms = isa::forms();
    let extra = ctx.tier.pick(0usize, 64usize);
    let mut work: Vec<(String, usize, Vec<i64>)> = vec![];
    let mut rng = Rng::for_case(ctx.seed, 0xC13, 0);
    let mut pairs = 0u64;
    let mut forbidden_pairs = 0u64;
    for (name, dev) in &table {
        let reduced = devices::is_reduced(dev);
        for (fi, form) in forms.iter().enumerate() {
            // lds/sts: the form that exists on this core
            if (form.core == Core::Reduced && !reduced) || (form.core == Core::Full && reduced) {
                continue;
            }
            pairs += 1;
            if devices::forbidding_flag(dev, &form.name).is_some() {
                forbidden_pairs += 1;
            }
            ctx.distinct(fw::hash_str(&format!("{}|{}", name, form.name)));
            for t in tuples(form, &mut rng, extra) {
                work.push((name.clone(), fi, t));
            }
        }
    }
    ctx.put("devices", json!(table.len()));
    ctx.put("forms", json!(forms.len()));
    ctx.put("device_form_pairs", json!(pairs));
    ctx.put("forbidden_pairs", json!(forbidden_pairs));
    ctx.put("flag_histogram", json!(devices::flags_histogram()));
    for (name, fi, t) in work.iter().step_by(work.len() / 10 + 1) {
        let dev = &avra_lib::device::DEVICES[name.as_str()];
        ctx.sample(json!({"device": name, "line": forms[*fi].text(t), "forbidden_by": devices::forbidding_flag(dev, &forms[*fi].name).map(|f| format!("{:?}", f))}));
    }
    fw::par_for(work.len() as u64, 64, |i| {
        let (name, fi, t) = &work[i as usize];
        check(ctx, name, &forms[*fi], t);
    });
    ctx.exhaustive.store(true, std::sync::atomic::Ordering::Relaxed);
    fw::finish(
        ctx,
        "every device of DEVICES x every instruction form of the reference ISA (the lds/sts form of the device's core) x lowest and highest legal operand tuple (thorough: + 64 random tuples); forbidden iff a flag of the device forbids the form per the DisabledOptions documentation; distinct_nontrivial = distinct (device, form) pairs",
        &["flag→forms map transcribed from the doc comments of DisabledOptions (refmodel/devices.rs); flags read from the DEVICES table at run time, as the statement says"],
    )
}

pub fn replay(ctx: &Ctx, case: &Value) -> i32 {
    let dev = case["device"].as_str().unwrap_or("");
    let form = isa::form(case["form"].as_str().unwrap_or("nop"));
    let vals: Vec<i64> = case["vals"].as_array().map(|a| a.iter().filter_map(|x| x.as_i64()).collect()).unwrap_or_default();
    if !avra_lib::device::DEVICES.contains_key(dev) {
        println!("replay: device {} no longer in table", dev);
        return 2;
    }
    check(ctx, dev, form, &vals);
    ctx.distinct(1);
    ctx.distinct(2);
    fw::finish(ctx, "replay", &[])
}
