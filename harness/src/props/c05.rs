//! C05 — constant expressions evaluate with the documented operator semantics.
//!
//! Expressions are rendered with only the parentheses the documented precedence table requires and
//! observed through `.dq <expr>` (eight little-endian bytes in flash). Oracle: refmodel::expr on i128.
//! Workloads: (i) random trees over all operators/functions/literal spellings/symbols; (ii) complete
//! operator x boundary-operand grid; (iii) every ordered pair of operators without parentheses.

use crate::fw::{self, Ctx, Outcome, Rng, Tier};
use crate::refmodel::expr::{self, Bin, Env, Expected, Fail, Style, Un, BINOPS, E, FUNCS, UNOPS};
use serde_json::{json, Value};

struct Case {
    e: E,
    text: String,
    exp: Expected,
    /// signature family for a failure at the root: op / prec / tree / literal
    family: String,
}

struct Envir {
    prelude: String,
    epilogue: String,
    env: Env,
    syms: Vec<String>,
    pc_base: i64, // word address of the first .dq
}

/// Symbols of all four kinds the statement lists: `.equ` (incl. chained and forward-defined),
/// `.set` variables and labels.
fn environment(rng: &mut Rng) -> Envir {
    let mut env = Env::new();
    let mut prelude = String::from("; C05 environment\n");
    let a = rng.range(0, 1000);
    let b = rng.range(0, 0xffff);
    let big = rng.range(0, i64::MAX / 4);
    prelude.push_str(&format!(".equ EqA = {}\n", a));
    prelude.push_str(&format!(".equ eq_b = 0x{:x}\n", b));
    prelude.push_str(".equ EQ_CHAIN = EqA + eq_b\n");
    prelude.push_str(&format!(".equ eqBig = {}\n", big));
    // names that begin like a pointer register, a register, a function or the location counter
    let (zv, xv, rv, lv) = (rng.range(0, 9), rng.range(1, 200), rng.range(0, 70000), rng.range(0, 255));
    prelude.push_str(&format!(".equ zero_ish = {}\n.equ Xval = {}\n.equ r2d2 = {}\n.equ lowest = {}\n.equ yes = {}\n.equ pc_copy = {}\n", zv, xv, rv, lv, xv + 1, lv + 1));
    for (k, v) in [("zero_ish", zv), ("xval", xv), ("r2d2", rv), ("lowest", lv), ("yes", xv + 1), ("pc_copy", lv + 1)] {
        env.insert(k.into(), v);
    }
    let sv = rng.range(0, 300);
    prelude.push_str(&format!(".set SetV = {}\n", sv));
    prelude.push_str("lbl_first:\n\tnop\n\tnop\nLbl_Second:\n\tnop\n");
    env.insert("setv".into(), sv);
    env.insert("eqa".into(), a);
    env.insert("eq_b".into(), b);
    env.insert("eq_chain".into(), a + b);
    env.insert("eqbig".into(), big);
    env.insert("lbl_first".into(), 0);
    env.insert("lbl_second".into(), 2);
    let fwd = rng.range(0, 5000);
    env.insert("eq_fwd".into(), fwd);
    env.insert("lbl_after".into(), -1); // patched per program (depends on the number of .dq lines)
    let epilogue = format!(".equ Eq_Fwd = {}\nlbl_after:\n\tnop\n", fwd);
    let syms = vec!["EqA".into(), "eq_b".into(), "EQ_CHAIN".into(), "eqBig".into(), "lbl_first".into(), "Lbl_Second".into(), "Eq_Fwd".into(), "lbl_after".into(), "zero_ish".into(), "Xval".into(), "R2D2".into(), "lowest".into(), "Yes".into(), "PC_copy".into()];
    Envir { prelude, epilogue, env, syms, pc_base: 3 }
}

fn set_name() -> &'static str {
    "SetV"
}

fn program(envir: &Envir, texts: &[&str]) -> String {
    let mut s = envir.prelude.clone();
    for t in texts {
        s.push_str("\t.dq ");
        s.push_str(t);
        s.push('\n');
    }
    s.push_str(&envir.epilogue);
    s
}

fn env_for(envir: &Envir, n_exprs: usize) -> Env {
    let mut e = envir.env.clone();
    e.insert("lbl_after".into(), envir.pc_base + 4 * n_exprs as i64);
    e
}

fn qword_at(code: &[u8], envir: &Envir, i: usize) -> Option<i64> {
    let off = (envir.pc_base as usize) * 2 + i * 8;
    code.get(off..off + 8).map(|b| i64::from_le_bytes(b.try_into().unwrap()))
}

/// Observe one expression alone. Returns Ok(value) / Err(kind, text)
fn observe(envir: &Envir, text: &str) -> (Outcome, Option<i64>) {
    let src = program(envir, &[text]);
    let out = fw::build_str(&src);
    let v = match &out {
        Outcome::Ok(b) => qword_at(&b.code, envir, 0),
        _ => None,
    };
    (out, v)
}

fn verdict(exp: &Expected, out: &Outcome, v: Option<i64>) -> Option<&'static str> {
    match out {
        Outcome::Panic(_) => Some("panic"),
        Outcome::Err(_) => {
            if exp.accepts_err() {
                None
            } else {
                Some("spurious-error")
            }
        }
        Outcome::Ok(_) => match v {
            None => Some("no-bytes"),
            Some(v) => {
                if exp.accepts_value(v) {
                    None
                } else if matches!(exp, Expected::Fail(_)) {
                    Some("missing-error")
                } else {
                    Some("wrong-value")
                }
            }
        },
    }
}

/// Find a minimal failing sub-expression (all of whose children evaluate correctly on the real code).
fn shrink<'a>(envir: &Envir, e: &'a E, env: &Env) -> &'a E {
    for c in e.children() {
        if let Some(exp) = expr::eval(c, env, envir.pc_base) {
            let text = expr::render(c, &mut Style::plain());
            let (out, v) = observe(envir, &text);
            if verdict(&exp, &out, v).is_some() {
                return shrink(envir, c, env);
            }
        }
    }
    e
}

fn report(ctx: &Ctx, envir: &Envir, c: &Case, env: &Env) {
    // re-observe alone (batch position does not matter for the verdict, pc-dependent cases are generated for slot 0)
    let (out, v) = observe(envir, &c.text);
    ctx.count("single_expression_builds", 1);
    let Some(aspect) = verdict(&c.exp, &out, v) else { return };
    let min = shrink(envir, &c.e, env);
    let min_text = expr::render(min, &mut Style::plain());
    let sig = if std::ptr::eq(min, &c.e) {
        format!("expr/{}/{}", c.family, aspect)
    } else {
        // attribute to the smallest failing construct
        let kids_atomic = min.children().iter().all(|k| k.children().is_empty());
        if kids_atomic {
            format!("expr/op/{}/{}", min.root_name(), aspect)
        } else {
            format!("expr/node/{}/{}", min.root_name(), aspect)
        }
    };
    let (mout, mv) = observe(envir, &min_text);
    ctx.violation(
        sig,
        format!(
            "`{}` expected {:?}, observed {} (minimal failing part `{}` -> {})",
            fw::clip(&c.text, 120),
            c.exp,
            match (&out, v) {
                (Outcome::Ok(_), Some(v)) => format!("{}", v),
                (o, _) => format!("{}: {}", o.kind(), fw::clip(&format!("{:?}", o.brief()), 100)),
            },
            fw::clip(&min_text, 80),
            match (&mout, mv) {
                (Outcome::Ok(_), Some(v)) => format!("{}", v),
                (o, _) => o.kind().to_string(),
            }
        ),
        json!({"source": program(envir, &[&c.text]), "expression": c.text, "expected": format!("{:?}", c.exp), "minimal": min_text,
            "qword_word_addr": envir.pc_base, "observed": out.brief()}),
    );
}

/// Run cases in batches: all expected-single-value cases of a batch in one program; others alone.
fn run_cases(ctx: &Ctx, envir: &Envir, cases: &[Case]) {
    let env1 = env_for(envir, 1);
    let mut batch: Vec<&Case> = vec![];
    let flush = |batch: &mut Vec<&Case>| {
        if batch.is_empty() {
            return;
        }
        let texts: Vec<&str> = batch.iter().map(|c| c.text.as_str()).collect();
        let src = program(envir, &texts);
        let out = fw::build_str(&src);
        ctx.count("batched_programs", 1);
        let mut all_ok = false;
        if let Outcome::Ok(b) = &out {
            all_ok = batch.iter().enumerate().all(|(i, c)| match qword_at(&b.code, envir, i) {
                Some(v) => c.exp.accepts_value(v),
                None => false,
            });
        }
        if !all_ok {
            for c in batch.iter() {
                report(ctx, envir, c, &env1);
            }
        }
        batch.clear();
    };
    for c in cases {
        ctx.eval(1);
        // pc / lbl_after dependent expressions and non-single expectations run alone (slot 0)
        let alone = !matches!(c.exp, Expected::Value(_)) || c.text.to_lowercase().contains("pc") || c.text.to_lowercase().contains("lbl_after");
        if alone {
            let (out, v) = observe(envir, &c.text);
            ctx.count("single_expression_builds", 1);
            if verdict(&c.exp, &out, v).is_some() {
                report(ctx, envir, c, &env1);
            }
        } else {
            batch.push(c);
            if batch.len() >= 24 {
                flush(&mut batch);
            }
        }
    }
    flush(&mut batch);
}

/// The same expressions observed through a macro argument (`ev <expr>` with body `.dq @0`): the
/// argument is turned into text and parsed again, which must not change its value.
fn run_cases_through_macro(ctx: &Ctx, envir: &Envir, cases: &[&Case]) {
    let mut envir2 = Envir { prelude: format!("{}.macro ev\n\t.dq @0\n.endm\n", envir.prelude), epilogue: envir.epilogue.clone(), env: envir.env.clone(), syms: envir.syms.clone(), pc_base: envir.pc_base };
    envir2.pc_base = envir.pc_base;
    let usable: Vec<&&Case> = cases.iter().filter(|c| matches!(c.exp, Expected::Value(_)) && !c.text.to_lowercase().contains("pc") && !c.text.to_lowercase().contains("lbl_after")).collect();
    // the argument handed on to a second macro, and used as one operand of a larger expression: it
    // keeps the value the caller wrote (2 * @0 is twice that value, whatever the argument's own operators)
    envir2.prelude.push_str(".macro ev_outer\n\tev_inner @0\n.endm\n.macro ev_inner\n\t.dq @0\n.endm\n.macro ev_twice\n\t.dq 2 * @0\n.endm\n.macro ev_outer_twice\n\tev_inner 2 * @0\n.endm\n.macro ev_outer_minus\n\tev_inner 0 - @0\n.endm\n");
    for (mac, what) in [("ev_outer", "handed-on"), ("ev_twice", "as-operand"), ("ev_outer_twice", "handed-on-as-operand"), ("ev_outer_minus", "handed-on-negated")] {
        for chunk in usable.chunks(24) {
            let want = |c: &Case| -> Option<i64> {
                match (&c.exp, mac) {
                    (Expected::Value(v), "ev_twice") | (Expected::Value(v), "ev_outer_twice") => if v.unsigned_abs() < (1u64 << 62) { Some(2 * *v) } else { None },
                    (Expected::Value(v), "ev_outer_minus") => if *v != i64::MIN { Some(-*v) } else { None },
                    (Expected::Value(v), _) => Some(*v),
                    _ => None,
                }
            };
            let chunk: Vec<&&&Case> = chunk.iter().filter(|c| want(c).is_some()).collect();
            if chunk.is_empty() {
                continue;
            }
            let mut src = envir2.prelude.clone();
            for c in &chunk {
                src.push_str(&format!("\t{} {}\n", mac, c.text));
            }
            src.push_str(&envir2.epilogue);
            let out = fw::build_str(&src);
            ctx.eval(chunk.len() as u64);
            ctx.count(&format!("expressions_through_macro_argument_{}", what), chunk.len() as u64);
            let ok = match &out {
                Outcome::Ok(b) => chunk.iter().enumerate().all(|(i, c)| qword_at(&b.code, &envir2, i) == want(c)),
                _ => false,
            };
            if !ok {
                for c in &chunk {
                    let src1 = format!("{}\t{} {}\n{}", envir2.prelude, mac, c.text, envir2.epilogue);
                    let o = fw::build_str(&src1);
                    let v = match &o {
                        Outcome::Ok(b) => qword_at(&b.code, &envir2, 0),
                        _ => None,
                    };
                    if v != want(c) {
                        ctx.violation(
                            format!("expr/macro-argument-{}/{}/wrong-value", what, c.e.root_name()),
                            format!("`{}` as argument of `{}`: expected {:?}, observed {}", fw::clip(&c.text, 100), mac, want(c), match (&o, v) { (Outcome::Ok(_), Some(v)) => format!("{}", v), (o, _) => o.kind().to_string() }),
                            json!({"source": src1, "expression": c.text, "expected_value": want(c), "through_macro": what, "qword_word_addr": envir2.pc_base, "observed": o.brief()}),
                        );
                    }
                }
            }
        }
    }
    for chunk in usable.chunks(24) {
        let mut src = envir2.prelude.clone();
        for c in chunk {
            src.push_str("\tev ");
            src.push_str(&c.text);
            src.push('\n');
        }
        src.push_str(&envir2.epilogue);
        let out = fw::build_str(&src);
        ctx.eval(chunk.len() as u64);
        ctx.count("expressions_through_macro_argument", chunk.len() as u64);
        let ok = match &out {
            Outcome::Ok(b) => chunk.iter().enumerate().all(|(i, c)| qword_at(&b.code, &envir2, i).map(|v| c.exp.accepts_value(v)).unwrap_or(false)),
            _ => false,
        };
        if !ok {
            // pinpoint
            for c in chunk {
                let src1 = format!("{}\tev {}\n{}", envir2.prelude, c.text, envir2.epilogue);
                let o = fw::build_str(&src1);
                let v = match &o {
                    Outcome::Ok(b) => qword_at(&b.code, &envir2, 0),
                    _ => None,
                };
                if let Some(aspect) = verdict(&c.exp, &o, v) {
                    ctx.violation(
                        format!("expr/macro-argument/{}/{}", c.e.root_name(), aspect),
                        format!("`{}` passed as a macro argument: expected {:?}, observed {}", fw::clip(&c.text, 100), c.exp, match (&o, v) { (Outcome::Ok(_), Some(v)) => format!("{}", v), (o, _) => o.kind().to_string() }),
                        json!({"source": src1, "expression": c.text, "expected": format!("{:?}", c.exp), "through_macro": true, "qword_word_addr": envir2.pc_base, "observed": o.brief()}),
                    );
                }
            }
        }
    }
}

/// The same expressions as the value of an `.equ` (defined before the labels and later symbols it names
/// have a value) and as the value of a `.set`, read back through `.dq name`: a symbol stands for the
/// value of its expression, whenever and however the assembler chooses to evaluate it.
fn run_cases_through_symbols(ctx: &Ctx, envir: &Envir, cases: &[&Case]) {
    let usable: Vec<&&Case> = cases.iter().filter(|c| matches!(c.exp, Expected::Value(_)) && !c.text.to_lowercase().contains("pc") && !c.text.to_lowercase().contains("lbl_after")).collect();
    for (kind, directive) in [("equ", ".equ"), ("set", ".set")] {
        for chunk in usable.chunks(24) {
            // .set is sequential: it can only name what is defined above it
            let chunk: Vec<&&&Case> = chunk.iter().filter(|c| kind == "equ" || !c.text.to_lowercase().contains("eq_fwd")).collect();
            if chunk.is_empty() {
                continue;
            }
            let mut src = envir.prelude.clone();
            for (i, c) in chunk.iter().enumerate() {
                src.push_str(&format!("{} c05_named_{} = {}\n", directive, i, c.text));
            }
            for i in 0..chunk.len() {
                src.push_str(&format!("\t.dq C05_Named_{}\n", i));
            }
            src.push_str(&envir.epilogue);
            let out = fw::build_str(&src);
            ctx.eval(chunk.len() as u64);
            ctx.count(&format!("expressions_through_{}", kind), chunk.len() as u64);
            let ok = match &out {
                Outcome::Ok(b) => chunk.iter().enumerate().all(|(i, c)| qword_at(&b.code, envir, i).map(|v| c.exp.accepts_value(v)).unwrap_or(false)),
                _ => false,
            };
            if !ok {
                for c in &chunk {
                    let src1 = format!("{}{} c05_named = {}\n\t.dq c05_named\n{}", envir.prelude, directive, c.text, envir.epilogue);
                    let o = fw::build_str(&src1);
                    let v = match &o {
                        Outcome::Ok(b) => qword_at(&b.code, envir, 0),
                        _ => None,
                    };
                    if !v.map(|v| c.exp.accepts_value(v)).unwrap_or(false) {
                        let want = if let Expected::Value(v) = c.exp { Some(v) } else { None };
                        ctx.violation(
                            format!("expr/through-{}/{}/wrong-value", kind, c.e.root_name()),
                            format!("`{} name = {}` read back through .dq: expected {:?}, observed {}", directive, fw::clip(&c.text, 100), c.exp, match (&o, v) { (Outcome::Ok(_), Some(v)) => format!("{}", v), (o, _) => o.kind().to_string() }),
                            json!({"source": src1, "expression": c.text, "expected_value": want, "through_macro": kind, "qword_word_addr": envir.pc_base, "observed": o.brief()}),
                        );
                    }
                }
            }
        }
    }
}

/// The same expressions as conditions: `.if <expr>` assembles its branch iff the value is not zero,
/// and an expression that must fail (division by zero, overflow, also in an operand that cannot change
/// the value) fails the build there too. Only what is known while the file is read can stand in a
/// condition: literals and the .equ constants defined before.
fn run_cases_as_conditions(ctx: &Ctx, envir: &Envir, cases: &[&Case]) {
    let parse_time = |c: &&&Case| -> bool {
        let t = c.text.to_lowercase();
        !["pc", "lbl_", "setv", "eq_fwd"].iter().any(|w| t.contains(w))
    };
    let prelude: String = envir.prelude.lines().filter(|l| l.starts_with(".equ") || l.starts_with(';')).map(|l| format!("{}\n", l)).collect();
    let values: Vec<&&Case> = cases.iter().filter(|c| matches!(c.exp, Expected::Value(_))).filter(parse_time).collect();
    for chunk in values.chunks(24) {
        let mut src = prelude.clone();
        let mut expect: Vec<u8> = vec![];
        for c in chunk {
            src.push_str(&format!(".if {}\n\t.dw 1\n.else\n\t.dw 2\n.endif\n", c.text));
            let Expected::Value(v) = c.exp else { unreachable!() };
            expect.extend(if v != 0 { [1u8, 0] } else { [2u8, 0] });
        }
        let out = fw::build_str(&src);
        ctx.eval(chunk.len() as u64);
        ctx.count("expressions_as_conditions", chunk.len() as u64);
        if !matches!(&out, Outcome::Ok(b) if b.code == expect) {
            for c in chunk {
                let Expected::Value(v) = c.exp else { unreachable!() };
                let src1 = format!("{}.if {}\n\t.dw 1\n.else\n\t.dw 2\n.endif\n", prelude, c.text);
                let o = fw::build_str(&src1);
                let want: [u8; 2] = if v != 0 { [1, 0] } else { [2, 0] };
                if !matches!(&o, Outcome::Ok(b) if b.code == want) {
                    ctx.violation(
                        format!("expr/as-condition/{}/wrong-branch", c.e.root_name()),
                        format!("`.if {}` (value {}): {}", fw::clip(&c.text, 100), v, fw::clip(&format!("{:?}", o.brief()), 120)),
                        json!({"source": src1, "expression": c.text, "as_condition": true, "expected_code": fw::hex(&want, 8), "observed": o.brief()}),
                    );
                }
            }
        }
    }
    let failing: Vec<&&Case> = cases.iter().filter(|c| matches!(c.exp, Expected::Fail(_))).filter(parse_time).collect();
    for c in failing.iter().take(400) {
        let src1 = format!("{}.if {}\n\t.dw 1\n.else\n\t.dw 2\n.endif\n", prelude, c.text);
        let o = fw::build_str(&src1);
        ctx.eval(1);
        ctx.count("failing_expressions_as_conditions", 1);
        if !o.is_err() {
            ctx.violation(
                format!("expr/as-condition/{}/error-swallowed", c.e.root_name()),
                format!("`.if {}` must fail ({:?}) but: {}", fw::clip(&c.text, 100), c.exp, fw::clip(&format!("{:?}", o.brief()), 100)),
                json!({"source": src1, "expression": c.text, "as_condition": true, "must_fail": true, "observed": o.brief()}),
            );
        }
    }
}

fn grid_values() -> Vec<i64> {
    vec![0, 1, -1, 2, -2, 7, 8, 63, 64, 255, 256, 1 << 15, 1 << 16, 1 << 31, 1 << 32, 1 << 62, i64::MAX, i64::MIN]
}

fn mk(envir: &Envir, e: E, family: String, rng: Option<&mut Rng>) -> Option<Case> {
    let env = env_for(envir, 1);
    let exp = expr::eval(&e, &env, envir.pc_base)?;
    let text = expr::render(&e, &mut Style { rng, unary_blanks: false });
    Some(Case { e, text, exp, family })
}

fn grid_cases(envir: &Envir) -> Vec<Case> {
    let mut v = vec![];
    let g = grid_values();
    for op in BINOPS {
        for a in &g {
            for b in &g {
                if let Some(c) = mk(envir, E::bin(op, E::lit(*a), E::lit(*b)), format!("op/{}", op.text()), None) {
                    v.push(c);
                }
            }
        }
        // shift counts around the word size
        if matches!(op, Bin::Shl | Bin::Shr) {
            for a in &g {
                for b in [0i64, 1, 31, 32, 62, 63, 64, 65, 127, 128, -1, -64] {
                    if let Some(c) = mk(envir, E::bin(op, E::lit(*a), E::lit(b)), format!("op/{}", op.text()), None) {
                        v.push(c);
                    }
                }
            }
        }
    }
    for u in UNOPS {
        for a in &g {
            if let Some(c) = mk(envir, E::un(u, E::lit(*a)), format!("op/un{}", u.text()), None) {
                v.push(c);
            }
        }
    }
    for f in FUNCS {
        for a in g.iter().chain([0x1234_5678_9abc_def0u64 as i64, 0x0102_0304, -0x0102_0304, 62, 65].iter()) {
            if let Some(c) = mk(envir, E::Func(f, Box::new(E::lit(*a))), format!("op/{}", f), None) {
                v.push(c);
            }
        }
    }
    // literal spellings, incl. ones that do not fit i64 (must fail the build, not wrap, not panic)
    for (text, exp) in [
        ("0x7fffffffffffffff", Expected::Value(i64::MAX)),
        ("$7FFFFFFFFFFFFFFF", Expected::Value(i64::MAX)),
        ("0777777777777777777777", Expected::Value(i64::MAX)),
        ("0b111111111111111111111111111111111111111111111111111111111111111", Expected::Value(i64::MAX)),
        ("9223372036854775807", Expected::Value(i64::MAX)),
        ("9223372036854775808", Expected::Fail(Fail::Overflow)),
        ("18446744073709551616", Expected::Fail(Fail::Overflow)),
        ("123456789012345678901234567890", Expected::Fail(Fail::Overflow)),
        ("0x8000000000000000", Expected::Fail(Fail::Overflow)),
        ("0x10000000000000000", Expected::Fail(Fail::Overflow)),
        ("$FFFFFFFFFFFFFFFFFFFF", Expected::Fail(Fail::Overflow)),
        ("01000000000000000000000", Expected::Fail(Fail::Overflow)),
        ("0b11111111111111111111111111111111111111111111111111111111111111111", Expected::Fail(Fail::Overflow)),
        ("00", Expected::Value(0)),
        ("010", Expected::Value(8)),
        ("0b10", Expected::Value(2)),
        ("$10", Expected::Value(16)),
        ("0x10", Expected::Value(16)),
        ("'A'", Expected::Value(65)),
        ("' '", Expected::Value(32)),
        ("';'", Expected::Value(59)),
        ("'\"'", Expected::Value(34)),
        ("','", Expected::Value(44)),
    ] {
        v.push(Case { e: E::Sym(text.to_string()), text: text.to_string(), exp, family: format!("literal/{}", crate::gen::spell::radix_name(text)) });
    }
    // a symbol plus or minus a number that takes the result out of 64 bits: an error like any other overflow,
    // whichever kind of symbol it is (a label behind code, the location counter, an .equ, a .set) and whichever side
    for sym in ["Lbl_Second", "lbl_after", "pc", "EqA", "eq_fwd", "SetV", "lbl_first"] {
        for (shape, lit) in [("{s} + {l}", i64::MAX), ("{s} + {l}", i64::MAX - 1), ("{l} + {s}", i64::MAX), ("{s} - {l}", i64::MIN + 1), ("{s} + {l}", i64::MAX - 2), ("{s} * {l}", i64::MAX / 2 + 1), ("-{l} - {s} - 2", i64::MAX)] {
            let lt = if lit < 0 { format!("(-{})", (lit as i128).abs()) } else { lit.to_string() };
            let text = shape.replace("{s}", sym).replace("{l}", &lt);
            let e = match shape {
                "{s} + {l}" => E::bin(Bin::Add, E::Sym(sym.into()), E::lit(lit)),
                "{l} + {s}" => E::bin(Bin::Add, E::lit(lit), E::Sym(sym.into())),
                "{s} - {l}" => E::bin(Bin::Sub, E::Sym(sym.into()), E::lit(lit)),
                "{s} * {l}" => E::bin(Bin::Mul, E::Sym(sym.into()), E::lit(lit)),
                _ => E::bin(Bin::Sub, E::bin(Bin::Sub, E::un(crate::refmodel::expr::Un::Neg, E::lit(lit)), E::Sym(sym.into())), E::lit(2)),
            };
            let e = if sym == "pc" { replace_pc(e) } else { e };
            if let Some(exp) = expr::eval(&e, &env_for(envir, 1), envir.pc_base) {
                v.push(Case { e, text, exp, family: format!("symbol-and-huge-number/{}", if sym == "pc" { "pc" } else if sym.to_lowercase().starts_with("lbl") { "label" } else if sym == "SetV" { "set" } else { "equ" }) });
            }
        }
    }
    // a character literal stands for its code, whatever the character: controls, blanks of every kind, wide ones
    let specials = [0x1680u32, 0x180e, 0x2000, 0x2001, 0x2009, 0x200a, 0x200b, 0x2028, 0x2029, 0x202f, 0x205f, 0x3000, 0xfeff, 0xfffd, 0xffff, 0x10000, 0x1f600, 0x10ffff];
    for cp in (1u32..0x250).chain(specials) {
        let c = match char::from_u32(cp) {
            Some(c) if c != '\n' && c != '\r' && c != '\'' => c,
            _ => continue,
        };
        let class = if cp < 0x20 || cp == 0x7f { "control" } else if c.is_whitespace() { "blank" } else if cp < 0x80 { "ascii" } else { "wide" };
        v.push(Case { e: E::Sym(format!("'{}'", c)), text: format!("'{}'", c), exp: Expected::Value(cp as i64), family: format!("literal/char/{}", class) });
        if class != "ascii" {
            v.push(Case { e: E::Sym(format!("'{}'", c)), text: format!("'{}' + 1", c), exp: Expected::Value(cp as i64 + 1), family: format!("literal/char/{}", class) });
            v.push(Case { e: E::Sym(format!("'{}'", c)), text: format!("low('{}')<' '", c), exp: Expected::Value(((cp & 0xff) < 32) as i64), family: format!("literal/char/{}", class) });
        }
    }
    v
}

fn replace_pc(e: E) -> E {
    match e {
        E::Sym(s) if s == "pc" => E::Pc,
        E::Bin(op, a, b) => E::Bin(op, Box::new(replace_pc(*a)), Box::new(replace_pc(*b))),
        E::Un(op, a) => E::Un(op, Box::new(replace_pc(*a))),
        other => other,
    }
}

fn pair_cases(envir: &Envir) -> Vec<Case> {
    let mut v = vec![];
    let triples: [(i64, i64, i64); 7] = [(7, 3, 2), (1, 2, 3), (0, 5, 1), (12, 4, 3), (2, 2, 2), (5, 1, 0), (9, 7, 5)];
    for o1 in BINOPS {
        for o2 in BINOPS {
            for (a, b, c) in triples {
                // both association shapes; the renderer adds parentheses only where the table requires them
                let left = E::bin(o2, E::bin(o1, E::lit(a), E::lit(b)), E::lit(c));
                let right = E::bin(o1, E::lit(a), E::bin(o2, E::lit(b), E::lit(c)));
                for e in [left, right] {
                    if let Some(c) = mk(envir, e, format!("prec/{}/{}", o1.text(), o2.text()), None) {
                        v.push(c);
                    }
                }
            }
        }
    }
    for u in UNOPS {
        for o in BINOPS {
            for (a, b, _) in triples {
                let inner = E::bin(o, E::un(u, E::lit(a)), E::lit(b)); // `~a*b` == (~a)*b
                let inner_r = E::bin(o, E::lit(a), E::un(u, E::lit(b))); // `a*~b`
                let outer = E::un(u, E::bin(o, E::lit(a), E::lit(b))); // `~(a*b)`
                for e in [inner, inner_r, outer] {
                    if let Some(c) = mk(envir, e, format!("prec/un{}/{}", u.text(), o.text()), None) {
                        v.push(c);
                    }
                }
            }
        }
        for u2 in UNOPS {
            for a in [0i64, 1, 5] {
                if let Some(c) = mk(envir, E::un(u, E::un(u2, E::lit(a))), format!("prec/un{}/un{}", u.text(), u2.text()), None) {
                    v.push(c);
                }
            }
        }
    }
    v
}

fn random_cases(envir: &Envir, rng: &mut Rng, n: usize, depth: u32) -> Vec<Case> {
    let mut v = Vec::with_capacity(n);
    let mut syms = envir.syms.clone();
    syms.push(set_name().to_string());
    // (the .set variable keeps its spelling: letter case of .set names is C10's subject)
    let env = env_for(envir, 1);
    let mut tries = 0;
    while v.len() < n && tries < n * 20 {
        tries += 1;
        let d = 1 + rng.below(depth as u64) as u32;
        let mut e = expr::rand_tree(rng, d, &syms, true);
        fix_set_case(&mut e);
        let Some(exp) = expr::eval(&e, &env, envir.pc_base) else { continue };
        // keep a healthy share of value-producing expressions
        if !matches!(exp, Expected::Value(_)) && rng.chance(2, 3) {
            continue;
        }
        let text = expr::render(&e, &mut Style::with(rng));
        if text.len() > 400 {
            continue;
        }
        v.push(Case { e, text, exp, family: "tree".to_string() });
    }
    v
}

fn fix_set_case(e: &mut E) {
    match e {
        E::Sym(s) => {
            if s.eq_ignore_ascii_case(set_name()) {
                *s = set_name().to_string();
            }
        }
        E::Un(_, x) | E::Func(_, x) | E::Paren(x) => fix_set_case(x),
        E::Bin(_, l, r) => {
            fix_set_case(l);
            fix_set_case(r);
        }
        _ => {}
    }
}

pub fn run(ctx: &Ctx) -> i32 {
    match expr::selfcheck() {
        Ok(n) => ctx.put("expr_model_selfcheck_cases", json!(n)),
        Err(e) => {
            println!("HARNESS-FAILURE property=C05 {}", e);
            return 2;
        }
    }
    let mut rng0 = Rng::for_case(ctx.seed, 0xC05, 0);
    let envir = environment(&mut rng0);
    // sanity: the environment itself must build (otherwise every verdict would be noise)
    let (o, v) = observe(&envir, "1");
    if !(o.is_ok() && v == Some(1)) {
        println!("HARNESS-FAILURE property=C05 environment program does not build: {:?}", o.brief());
        return 2;
    }
    // symbols directly after a build on the same thread that defined the same names with other values and
    // ended because the evaluation budget of the whole build ran out (the last history program)
    {
        type Want = fn(&Env) -> i64;
        let texts: Vec<(&str, Want)> = vec![
            ("EQ_CHAIN", |e| e["eq_chain"]),
            ("eq_chain + 0", |e| e["eq_chain"]),
            ("EqA + eq_b", |e| e["eqa"] + e["eq_b"]),
            ("Eq_Fwd", |e| e["eq_fwd"]),
            ("eqBig", |e| e["eqbig"]),
            ("zero_ish + Xval", |e| e["zero_ish"] + e["xval"]),
            ("yes", |e| e["yes"]),
            ("lowest", |e| e["lowest"]),
            ("2 * EQ_CHAIN - EQ_CHAIN", |e| e["eq_chain"]),
            ("low(EQ_CHAIN)", |e| e["eq_chain"] & 0xff),
            ("SetV + EQ_CHAIN", |e| e["setv"] + e["eq_chain"]),
            ("Xval", |e| e["xval"]),
        ];
        let n = texts.len() as u64 * ctx.tier.pick(1u64, 4u64);
        fw::par_for(n, 1, |i| {
            let mut rng = Rng::for_case(ctx.seed, 0xC05_B, i);
            let envir = environment(&mut rng);
            let (text, want) = texts[i as usize % texts.len()];
            let want = want(&envir.env);
            // the expression is the first thing the build evaluates: only the .equ lines of the environment in front
            let equs: String = envir.prelude.lines().chain(envir.epilogue.lines()).filter(|l| l.starts_with(".equ")).map(|l| format!("{}\n", l)).collect();
            let src = format!("{}\t.dq {}\n", equs, text);
            if text.contains("SetV") {
                return;
            }
            fw::run_history_program(fw::history_programs().len() - 1);
            let out = fw::build_str(&src);
            let v = match &out {
                Outcome::Ok(b) => b.code.get(0..8).map(|b| i64::from_le_bytes(b.try_into().unwrap())),
                _ => None,
            };
            ctx.eval(1);
            ctx.count("symbols_after_an_exhausted_build", 1);
            if v != Some(want) {
                ctx.violation(
                    "expr/symbols/after-a-build-that-ran-out-of-evaluation-budget",
                    format!("`{}` should be {} here, observed {:?} ({})", text, want, v, fw::clip(&format!("{:?}", out.brief()), 100)),
                    json!({"source": src, "after_exhausted_build": true, "want": want, "pc_base": 0}),
                );
            }
        });
    }
    let grid = grid_cases(&envir);
    let pairs = pair_cases(&envir);
    ctx.put("grid_cases", json!(grid.len()));
    ctx.put("operator_pair_cases", json!(pairs.len()));
    let nrandom = ctx.tier.pick(30_000usize, 20_000_000usize);
    let depth = ctx.tier.pick(5u32, 8u32);
    ctx.put("random_trees", json!(nrandom));
    let chunks = 64usize;
    // enumerated parts
    let all: Vec<&[Case]> = grid.chunks(512).chain(pairs.chunks(512)).collect();
    fw::par_items(&all, |_, cs| run_cases(ctx, &envir, cs));
    for c in grid.iter().chain(pairs.iter()) {
        ctx.distinct(fw::hash_str(&c.text));
    }
    // every operator pair again through a macro argument
    let pair_refs: Vec<&Case> = pairs.iter().collect();
    let pchunks: Vec<&[&Case]> = pair_refs.chunks(480).collect();
    fw::par_items(&pchunks, |_, cs| run_cases_through_macro(ctx, &envir, cs));
    fw::par_items(&pchunks, |_, cs| run_cases_as_conditions(ctx, &envir, cs));
    fw::par_items(&pchunks, |_, cs| run_cases_through_symbols(ctx, &envir, cs));
    // random parts, generated per chunk on the worker threads
    let per = nrandom / chunks;
    let idx: Vec<u64> = (0..chunks as u64).collect();
    fw::par_items(&idx, |_, i| {
        let mut rng = Rng::for_case(ctx.seed, 0xC05_1, *i);
        let cs = random_cases(&envir, &mut rng, per, depth);
        let mut ops = std::collections::BTreeMap::new();
        for c in &cs {
            count_ops(&c.e, &mut ops);
        }
        ctx.merge_counts(&ops);
        ctx.distinct_many(cs.iter().map(|c| fw::hash_str(&c.text)));
        if *i < 6 {
            for c in cs.iter().filter(|c| c.text.len() > 20).take(2) {
                ctx.sample(json!({"expression": c.text, "expected": format!("{:?}", c.exp), "nodes": c.e.nodes()}));
            }
        }
        run_cases(ctx, &envir, &cs);
        // a quarter of the random trees also through a macro argument
        let some: Vec<&Case> = cs.iter().step_by(4).collect();
        run_cases_through_macro(ctx, &envir, &some);
        // ... another quarter as the value of an .equ / .set, and as an .if condition
        let other: Vec<&Case> = cs.iter().skip(1).step_by(4).collect();
        run_cases_through_symbols(ctx, &envir, &other);
        run_cases_as_conditions(ctx, &envir, &other);
        // offsets from names that have no value yet when an .equ is read (labels, later symbols):
        // name - a - b, name - a + b, a - name - b, ... in every sign combination
        if *i == 0 {
            let mut shaped: Vec<Case> = vec![];
            for name in ["lbl_first", "Lbl_Second", "Eq_Fwd", "SetV", "EqA"] {
                for (o1, o2) in [(Bin::Sub, Bin::Sub), (Bin::Sub, Bin::Add), (Bin::Add, Bin::Sub), (Bin::Add, Bin::Add), (Bin::Mul, Bin::Sub), (Bin::Sub, Bin::Mul), (Bin::Shl, Bin::Sub), (Bin::Sub, Bin::Shr), (Bin::Div, Bin::Mul), (Bin::Mul, Bin::Div), (Bin::Rem, Bin::Mul), (Bin::Sub, Bin::Rem)] {
                    for (a, b) in [(2i64, 1i64), (7, 3), (1, 5)] {
                        for shape in 0..3 {
                            let e = match shape {
                                0 => E::bin(o2, E::bin(o1, E::Sym(name.into()), E::lit(a)), E::lit(b)),
                                1 => E::bin(o2, E::bin(o1, E::lit(a + 100), E::Sym(name.into())), E::lit(b)),
                                _ => E::bin(o1, E::lit(a + 1000), E::Paren(Box::new(E::bin(o2, E::Sym(name.into()), E::lit(b))))),
                            };
                            if let Some(c) = mk(&envir, e, format!("offsets/{}{}", o1.text(), o2.text()), None) {
                                shaped.push(c);
                            }
                        }
                    }
                }
            }
            run_cases(ctx, &envir, &shaped);
            let refs: Vec<&Case> = shaped.iter().collect();
            run_cases_through_symbols(ctx, &envir, &refs);
            run_cases_through_macro(ctx, &envir, &refs);
            ctx.count("offset_shapes", shaped.len() as u64);
        }
    });
    ctx.put("environment", json!(envir.prelude.lines().collect::<Vec<_>>()));
    fw::finish(
        ctx,
        "`.dq <expr>` observed in flash for (i) random expression trees over the 18 binary and 3 unary operators, 8 functions, literals in all spellings, .equ (chained, forward), .set, label and pc symbols, rendered with minimal parentheses and random blanks; (ii) the complete operator x boundary-operand grid (18 values squared, shift counts around 64, functions, literal range limits); (iii) every ordered pair of operators in both association shapes without redundant parentheses; (iv) all of (iii) and a quarter of (i) again as the argument of a macro whose body is `.dq @0`; distinct_nontrivial = distinct rendered expression texts; counters = operator occurrences in the random trees",
        &[
            "refmodel/expr.rs (i128 evaluator, documented precedence table)",
            "tolerated because the statement is silent: `<<`/exp2 whose exact result leaves i64 and shift counts >= 64 may fail or give the low 64 bits; `>>` of a negative value may be arithmetic or logical; i64::MIN % -1 may fail or give 0; negative shift counts must fail",
        ],
    )
}

fn count_ops(e: &E, m: &mut std::collections::BTreeMap<String, u64>) {
    *m.entry(format!("node:{}", e.root_name())).or_insert(0) += 1;
    for c in e.children() {
        count_ops(c, m);
    }
}

pub fn replay(ctx: &Ctx, case: &Value) -> i32 {
    if case["after_exhausted_build"].as_bool() == Some(true) {
        fw::run_history_program(fw::history_programs().len() - 1);
        let out = fw::build_str(case["source"].as_str().unwrap_or(""));
        ctx.eval(1);
        ctx.distinct(1);
        ctx.distinct(2);
        let off = case["pc_base"].as_u64().unwrap_or(0) as usize * 2;
        let v = match &out {
            Outcome::Ok(b) => b.code.get(off..off + 8).map(|b| i64::from_le_bytes(b.try_into().unwrap())),
            _ => None,
        };
        if v != case["want"].as_i64() {
            ctx.violation("expr/symbols/after-a-build-that-ran-out-of-evaluation-budget/replay", "still deviates", case.clone());
        }
        return fw::finish(ctx, "replay", &[]);
    }
    if case["as_condition"].as_bool() == Some(true) {
        let out = fw::build_str(case["source"].as_str().unwrap_or(""));
        ctx.eval(1);
        ctx.distinct(1);
        ctx.distinct(2);
        let bad = if case["must_fail"].as_bool() == Some(true) { !out.is_err() } else { !matches!(&out, Outcome::Ok(b) if fw::hex(&b.code, 8) == case["expected_code"].as_str().unwrap_or("")) };
        if bad {
            ctx.violation("expr/as-condition/replay", "still deviates", case.clone());
        }
        return fw::finish(ctx, "replay", &[]);
    }
    if case["through_macro"].as_bool() == Some(true) || case["through_macro"].is_string() {
        // stored program + expected set in debug form: only single values are replayable
        let src = case["source"].as_str().unwrap_or("");
        let out = fw::build_str(src);
        ctx.eval(1);
        ctx.distinct(1);
        ctx.distinct(2);
        let want = case["expected_value"].as_i64().or_else(|| case["expected"].as_str().and_then(|e| e.strip_prefix("Value(")).and_then(|e| e.strip_suffix(')')).and_then(|e| e.parse::<i64>().ok()));
        let off = case["qword_word_addr"].as_u64().unwrap_or(0) as usize * 2;
        let got = match &out {
            Outcome::Ok(b) => b.code.get(off..off + 8).map(|x| i64::from_le_bytes(x.try_into().unwrap())),
            _ => None,
        };
        if want.is_none() || got != want {
            ctx.violation("expr/macro-argument/replay", format!("still deviates: {:?} vs {:?}", got, want), case.clone());
        }
        return fw::finish(ctx, "replay", &[]);
    }
    // the replay file stores the literal program and the expected outcome set in debug form; the
    // verdict is recomputed from the stored expression by regenerating the case list
    let text = case["expression"].as_str().unwrap_or("");
    let mut rng0 = Rng::for_case(ctx.seed, 0xC05, 0);
    let envir = environment(&mut rng0);
    let mut found = false;
    let grid = grid_cases(&envir);
    let pairs = pair_cases(&envir);
    for c in grid.iter().chain(pairs.iter()) {
        if c.text == text {
            run_cases(ctx, &envir, std::slice::from_ref(c));
            found = true;
            break;
        }
    }
    if !found {
        // random tree: regenerate the streams until the text is met (quick-tier streams only)
        'outer: for i in 0..64u64 {
            let mut rng = Rng::for_case(ctx.seed, 0xC05_1, i);
            let cs = random_cases(&envir, &mut rng, 30_000 / 64, 5);
            for c in &cs {
                if c.text == text {
                    run_cases(ctx, &envir, std::slice::from_ref(c));
                    found = true;
                    break 'outer;
                }
            }
        }
    }
    if !found {
        // last resort: re-run the stored program and compare with the stored observation class
        let src = case["source"].as_str().unwrap_or("");
        let out = fw::build_str(src);
        ctx.eval(1);
        println!("replay: expression not regenerable from seed; program now yields {}", out.kind());
        return 2;
    }
    ctx.distinct(1);
    ctx.distinct(2);
    fw::finish(ctx, "replay", &[])
}
