//! Program IR shared by the program-level monitors, and its printer.
//!
//! Every primitive node prints as exactly ONE source line; compound nodes (conditionals, macro
//! definitions) print one line per directive plus their bodies. The reference semantics
//! (refmodel::layout) relies on that rule to predict line numbers without parsing any text.

use crate::fw::Rng;
use crate::gen::spell;
use crate::refmodel::expr::{self, E};
use crate::refmodel::isa::{self, Idx};

#[derive(Clone, Copy, PartialEq, Eq, Debug, Hash, PartialOrd, Ord)]
pub enum Seg {
    Code,
    Data,
    Eeprom,
}

impl Seg {
    pub fn directive(self) -> &'static str {
        match self {
            Seg::Code => ".cseg",
            Seg::Data => ".dseg",
            Seg::Eeprom => ".eseg",
        }
    }
}

/// Instruction operand as written
#[derive(Clone, PartialEq, Eq, Debug)]
pub enum Opnd {
    Reg(u8),
    /// `.def` alias, as spelled at this use
    Alias(String),
    Idx(Idx),
    /// `Y+expr` / `Z+expr`
    Disp(char, E),
    Expr(E),
    /// macro parameter used as a whole operand: `@n`
    Param(u8),
}

#[derive(Clone, PartialEq, Eq, Debug)]
pub enum DataOp {
    E(E),
    S(String),
}

#[derive(Clone, Copy, PartialEq, Eq, Debug)]
pub enum MsgKind {
    Message,
    Warning,
    Error,
}

#[derive(Clone, PartialEq, Eq, Debug)]
pub enum Cond {
    /// `.if expr` / `.elif expr`
    Expr(E),
    /// `.ifdef NAME`
    Def(String),
    /// `.ifndef NAME`
    NDef(String),
}

#[derive(Clone, PartialEq, Eq, Debug)]
pub struct Arm {
    pub cond: Cond,
    pub body: Vec<Node>,
}

#[derive(Clone, PartialEq, Eq, Debug)]
pub enum Node {
    Seg(Seg),
    Org(E),
    Label(String),
    Instr { label: Option<String>, form: usize, ops: Vec<Opnd> },
    Data { label: Option<String>, width: u8, ops: Vec<DataOp> },
    Reserve { label: Option<String>, n: E },
    Equ(String, E),
    Set(String, E),
    Def(String, u8),
    Undef(String),
    Define(String),
    Message(MsgKind, String),
    Device(String),
    /// first arm is the .if/.ifdef/.ifndef, the others are .elif
    Cond { arms: Vec<Arm>, else_body: Option<Vec<Node>> },
    MacroDef { name: String, body: Vec<Node>, end_long: bool },
    MacroCall { name: String, args: Vec<Opnd> },
    /// `.include "path"`; the contents live in the file tree, index into Program::files
    Include { path: String, file: usize },
    IncludePath(String),
    Exit,
    /// arbitrary text (one line, no newline)
    Raw(String),
    Comment(String),
    Blank,
}

impl Node {
    pub fn instr(form: &str, ops: Vec<Opnd>) -> Node {
        Node::Instr { label: None, form: isa::form_index(form), ops }
    }
    pub fn data(width: u8, ops: Vec<DataOp>) -> Node {
        Node::Data { label: None, width, ops }
    }
    pub fn dw_e(e: E) -> Node {
        Node::Data { label: None, width: 2, ops: vec![DataOp::E(e)] }
    }
}

// ------------------------------------------------------------------------------------------
// Printer

/// Which meaning-free spelling dimensions are randomised (all off = canonical text).
#[derive(Clone)]
pub struct Style {
    pub rng: Option<Rng>,
    pub comments: bool,
    pub extra_lines: bool,
    pub crlf: bool,
    pub case: bool,
    pub radix: bool,
    pub blanks: bool,
    /// blanks after unary operators and around the `+` of a displacement
    pub unary_blanks: bool,
}

impl Style {
    pub fn canonical() -> Style {
        Style { rng: None, comments: false, extra_lines: false, crlf: false, case: false, radix: false, blanks: false, unary_blanks: false }
    }
    pub fn random(rng: Rng) -> Style {
        Style { rng: Some(rng), comments: true, extra_lines: true, crlf: false, case: true, radix: true, blanks: true, unary_blanks: true }
    }
    fn r(&mut self) -> Option<&mut Rng> {
        self.rng.as_mut()
    }
    fn sp(&mut self) -> &'static str {
        if self.blanks {
            if let Some(r) = self.r() {
                return spell::blanks(r);
            }
        }
        ""
    }
    fn sp1(&mut self) -> &'static str {
        if self.blanks {
            if let Some(r) = self.r() {
                return spell::blanks1(r);
            }
        }
        " "
    }
    fn kw(&mut self, s: &str) -> String {
        if self.case {
            if let Some(r) = self.r() {
                return spell::case(s, r);
            }
        }
        s.to_string()
    }
}

/// String contents that a careless handling of text would treat specially: byte count and character count
/// differ, what looks like an escape, a comment opener, a label colon, a macro parameter, a line
/// continuation.  The assembler has no escapes: a string is every byte up to the next `"`.
pub const HOSTILE_STRINGS: [&str; 28] = [
    "\u{e9}", "\u{e9}\u{e9}", "\u{b0}C", "\u{20ac}", "\u{65e5}\u{672c}", "\u{1f600}", "a\\x41b", "23\\xDFC", "\\x4", "\\n\\t\\0", "back\\", "c:\\avr\\", "a:b", "semi;colon", "// no", "/* no */",
    "it's", "tab\there", "x\u{a0}y", "#", ".db 1", "'", ",", "  ", "%d\\",
    // the last three hold a macro parameter and only make sense outside macro bodies
    "@0", "x@1y", "\u{e9}@0",
];

/// one of HOSTILE_STRINGS; `in_macro_body` leaves out those that contain a macro parameter
pub fn hostile_string(rng: &mut Rng, in_macro_body: bool) -> &'static str {
    let n = if in_macro_body { HOSTILE_STRINGS.len() - 3 } else { HOSTILE_STRINGS.len() };
    HOSTILE_STRINGS[rng.usize(n)]
}

pub const COMMENT_TEXTS: [&str; 33] = [
    "masks are listed in doc/*.txt",
    "built from src/*.asm /* never closed",
    "a closing */ only",
    "@0 and @1",
    "back\\slash \\",
    "tab\there",
    "\u{b5}C \u{2014} non-ASCII",
    "'c' and 'x",
    "\"unterminated",
    "(paren",
    "0x 0b $ff",
    ".exit",
    ".include \"nowhere.inc\"",
    ".device ATmega8",
    ".error \"no\"",
    ".org 0x100",
    "plain comment",
    "with \"quotes\" inside",
    "a, b, c",
    "semi; colon",
    ".if 0",
    ".endif",
    ".macro foo",
    ".endm",
    "ldi r16, 1",
    "it's",
    "x: y:",
    "#define Z",
    ".else .elif 1",
    "100% /path //",
    "tools live in C:\\avr\\",
    "note: fallback",
    "ends with a backslash \\",
];

/// a comment text made of operator characters only, longer than any per-line limit on operators
const OPERATOR_RICH: &str = "+-+-+-+-+-+-+-+-+-+-+-+-+-+-+-+-+-+-+-+-+-+-+-+-+-+-+-+-+-+-+-+-+-+-+-+-+-+-+-+-+-+-+-+-+-+-+-+-+-+-+-+-+-+-+-+-+-+-+-+-+-+-+-+-+-+-+-+-+-+-+-+-+-+-+-+-+-+-+-+-+-+-+-+-+-+-+-+-+-+-+-+-+-+-+-+-+-+-+-+-+-+-+-+-+-+-+-+-+-+-+-+-+-+-+-+-+-+-+-+-+-+-+-+-+-+-+-+-+-+-+-+-+-+-+-+-+-+-+-+-+-+-+-+-+-+-+-+-+-+-+-+-+-+-+-+-+-+-+-+-+-+-+-+-+-+-+-+-+-+-+-+-+-+-+-+-+-+-+-+-+-+-+-+-+-+-+-+-+-+-+-+-+-+-+-+-+-+-+-+-+-+-+-+-+-+-+-+-+-+-+-+-+-+-+-+-+-+-+-+-+-+-+-+-+-+-+-+-+-+-+-+-+-+-+-+-+-+-+-+-+-+-+-+-+-+-+-+-+-+-+-+-+-+-+-+-+-+-+-+-+-+-+-+-+-+-+-+-+-+-+-+-+-+-+-+-+-+-+-+-+-+-+-+-+-+-+-+-+-+-+-+-+-+-+-+-+-+-+-+-+-+-+-+-+ (((((( << >> && || == != ~~!!";

fn comment(st: &mut Style) -> String {
    let Some(r) = st.r() else { return String::new() };
    let t = if r.chance(1, 12) { OPERATOR_RICH } else { *r.pick(&COMMENT_TEXTS) };
    match r.below(3) {
        0 => format!("; {}", t),
        1 => format!("// {}", t),
        _ => {
            // a block comment may be followed by blanks and by further comments
            let tail = match r.below(6) {
                0 => " ".to_string(),
                1 => "\t \t".to_string(),
                2 => " /* second */".to_string(),
                3 => " ; and a third".to_string(),
                4 => "/**/ // done".to_string(),
                _ => String::new(),
            };
            format!("/* {} */{}", t.replace("*/", "* /").replace("/*", "/ *"), tail)
        }
    }
}

/// vary literal radix and symbol-reference case inside an expression
fn vary_expr(e: &E, st: &mut Style) -> E {
    match e {
        E::Lit(v, k) => {
            if st.radix && *k != 5 {
                if let Some(r) = st.r() {
                    let nk = match r.below(8) {
                        0 => 1,
                        1 => 2,
                        6 => 6,
                        7 => 7,
                        2 => {
                            if *v < (1 << 20) {
                                3
                            } else {
                                0
                            }
                        }
                        3 => 4,
                        _ => 0,
                    };
                    return E::Lit(*v, nk);
                }
            }
            E::Lit(*v, *k)
        }
        E::Sym(s) => {
            if st.case && !s.starts_with('@') {
                if let Some(r) = st.r() {
                    return E::Sym(spell::case(s, r));
                }
            }
            E::Sym(s.clone())
        }
        E::Pc => E::Pc,
        E::Un(u, x) => E::Un(*u, Box::new(vary_expr(x, st))),
        E::Bin(b, l, r) => E::Bin(*b, Box::new(vary_expr(l, st)), Box::new(vary_expr(r, st))),
        E::Func(f, x) => E::Func(f, Box::new(vary_expr(x, st))),
        E::Paren(x) => E::Paren(Box::new(vary_expr(x, st))),
    }
}

pub fn expr_text(e: &E, st: &mut Style) -> String {
    let v = vary_expr(e, st);
    let unary_blanks = st.unary_blanks;
    let mut es = expr::Style { rng: if st.blanks { st.rng.as_mut() } else { None }, unary_blanks };
    expr::render(&v, &mut es)
}

fn reg_text(n: u8, st: &mut Style) -> String {
    if st.case {
        if let Some(r) = st.r() {
            return spell::reg(n as i64, r);
        }
    }
    format!("r{}", n)
}

pub fn opnd_text(o: &Opnd, st: &mut Style) -> String {
    match o {
        Opnd::Reg(n) => reg_text(*n, st),
        Opnd::Alias(a) => {
            if st.case {
                if let Some(r) = st.r() {
                    return spell::case(a, r);
                }
            }
            a.clone()
        }
        Opnd::Idx(ix) => {
            // blanks between the pointer register and its + or - mean nothing either
            let t = st.kw(ix.text());
            if st.unary_blanks {
                let b = st.sp();
                if let Some(r) = t.strip_prefix('-') {
                    return format!("-{}{}", b, r);
                }
                if let Some(r) = t.strip_suffix('+') {
                    return format!("{}{}+", r, b);
                }
            }
            t
        }
        Opnd::Disp(reg, e) => {
            let r = st.kw(&reg.to_string());
            let (a, b) = if st.unary_blanks { (st.sp(), st.sp()) } else { ("", "") };
            format!("{}{}+{}{}", r, a, b, expr_text(e, st))
        }
        Opnd::Expr(e) => expr_text(e, st),
        Opnd::Param(n) => format!("@{}", n),
    }
}

fn label_prefix(label: &Option<String>, st: &mut Style) -> String {
    match label {
        // no indentation before a label (the grammar does not allow it)
        Some(l) => format!("{}:{}", l, st.sp1()),
        None => {
            if st.blanks {
                st.sp().to_string()
            } else {
                "\t".to_string()
            }
        }
    }
}

fn string_lit(s: &str) -> String {
    format!("\"{}\"", s)
}

pub struct Printed {
    pub text: String,
    /// number of lines (without the extra blank/comment lines a style may insert this is the node line count)
    pub lines: usize,
}

fn push_line(out: &mut Vec<String>, mut line: String, st: &mut Style, allow_comment: bool) {
    if st.extra_lines {
        if let Some(r) = st.r() {
            if r.chance(1, 7) {
                let extra = match r.below(4) {
                    0 => String::new(),
                    1 => "  \t ".to_string(),
                    _ => {
                        let ind = spell::blanks(r).to_string();
                        format!("{}{}", ind, comment(st))
                    }
                };
                out.push(extra);
            }
        }
    }
    if allow_comment && st.comments {
        let add = st.r().map(|r| r.chance(1, 4)).unwrap_or(false);
        if add {
            let c = comment(st);
            line = format!("{}{}{}", line, st.sp1(), c);
        } else if st.blanks && st.r().map(|r| r.chance(1, 6)).unwrap_or(false) {
            line.push_str(st.sp1());
        }
    }
    out.push(line);
}

pub fn node_line(n: &Node, st: &mut Style) -> String {
    match n {
        Node::Seg(s) => s.directive().to_string(),
        Node::Org(e) => format!(".org{}{}", st.sp1(), expr_text(e, st)),
        Node::Label(l) => format!("{}:", l),
        Node::Instr { label, form, ops } => {
            let f = &isa::forms()[*form];
            let mut s = label_prefix(label, st);
            s.push_str(&st.kw(f.mn));
            for (i, o) in ops.iter().enumerate() {
                if i == 0 {
                    s.push_str(st.sp1());
                } else {
                    s.push_str(st.sp());
                    s.push(',');
                    s.push_str(st.sp());
                }
                s.push_str(&opnd_text(o, st));
            }
            s
        }
        Node::Data { label, width, ops } => {
            let d = match width {
                1 => ".db",
                2 => ".dw",
                4 => ".dd",
                _ => ".dq",
            };
            let mut s = label_prefix(label, st);
            s.push_str(d);
            for (i, o) in ops.iter().enumerate() {
                if i == 0 {
                    s.push_str(st.sp1());
                } else {
                    s.push_str(st.sp());
                    s.push(',');
                    s.push_str(st.sp());
                }
                match o {
                    DataOp::E(e) => s.push_str(&expr_text(e, st)),
                    DataOp::S(t) => s.push_str(&string_lit(t)),
                }
            }
            s
        }
        Node::Reserve { label, n } => format!("{}.byte{}{}", label_prefix(label, st), st.sp1(), expr_text(n, st)),
        Node::Equ(n, e) => format!(".equ{}{}{}={}{}", st.sp1(), n, st.sp(), st.sp(), expr_text(e, st)),
        Node::Set(n, e) => format!(".set{}{}{}={}{}", st.sp1(), n, st.sp(), st.sp(), expr_text(e, st)),
        Node::Def(n, r) => format!(".def{}{}{}={}{}", st.sp1(), n, st.sp(), st.sp(), reg_text(*r, st)),
        Node::Undef(n) => format!(".undef{}{}", st.sp1(), n),
        Node::Define(n) => format!("#define{}{}", st.sp1(), n),
        Node::Message(k, t) => {
            let d = match k {
                MsgKind::Message => ".message",
                MsgKind::Warning => ".warning",
                MsgKind::Error => ".error",
            };
            format!("{}{}{}", d, st.sp1(), string_lit(t))
        }
        Node::Device(d) => format!(".device{}{}", st.sp1(), d),
        Node::MacroCall { name, args } => {
            let mut s = label_prefix(&None, st);
            s.push_str(name);
            for (i, o) in args.iter().enumerate() {
                if i == 0 {
                    s.push_str(st.sp1());
                } else {
                    s.push_str(st.sp());
                    s.push(',');
                    s.push_str(st.sp());
                }
                s.push_str(&opnd_text(o, st));
            }
            s
        }
        Node::Include { path, .. } => format!(".include{}{}", st.sp1(), string_lit(path)),
        Node::IncludePath(p) => format!(".includepath{}{}", st.sp1(), string_lit(p)),
        Node::Exit => ".exit".to_string(),
        Node::Raw(t) => t.clone(),
        Node::Comment(t) => format!("; {}", t),
        Node::Blank => String::new(),
        Node::Cond { .. } | Node::MacroDef { .. } => unreachable!("compound node"),
    }
}

fn cond_line(first: bool, c: &Cond, st: &mut Style) -> String {
    match c {
        Cond::Expr(e) => format!("{}{}{}", if first { ".if" } else { ".elif" }, st.sp1(), expr_text(e, st)),
        Cond::Def(n) => format!(".ifdef{}{}", st.sp1(), n),
        Cond::NDef(n) => format!(".ifndef{}{}", st.sp1(), n),
    }
}

fn print_nodes(nodes: &[Node], st: &mut Style, out: &mut Vec<String>, in_macro: bool) {
    for n in nodes {
        match n {
            Node::Cond { arms, else_body } => {
                for (i, a) in arms.iter().enumerate() {
                    let l = cond_line(i == 0, &a.cond, st);
                    push_line(out, l, st, true);
                    print_nodes(&a.body, st, out, in_macro);
                }
                if let Some(b) = else_body {
                    push_line(out, ".else".to_string(), st, true);
                    print_nodes(b, st, out, in_macro);
                }
                push_line(out, ".endif".to_string(), st, true);
            }
            Node::MacroDef { name, body, end_long } => {
                let l = format!(".macro{}{}", st.sp1(), name);
                push_line(out, l, st, true);
                // inside a macro body no extra lines / comments are inserted: the body is stored as raw text
                let saved = (st.extra_lines, st.comments);
                st.extra_lines = false;
                st.comments = false;
                print_nodes(body, st, out, true);
                st.extra_lines = saved.0;
                st.comments = saved.1;
                push_line(out, if *end_long { ".endmacro".to_string() } else { ".endm".to_string() }, st, true);
            }
            Node::Raw(t) => out.push(t.clone()),
            Node::Comment(_) | Node::Blank => {
                let l = node_line(n, st);
                out.push(l);
            }
            other => {
                let l = node_line(other, st);
                // strings may contain comment-like text, that is fine; raw/garbage lines get no decoration
                push_line(out, l, st, true);
            }
        }
    }
}

/// Print one file. Returns the text (LF or CRLF line ends, always terminated).
pub fn print(nodes: &[Node], st: &mut Style) -> String {
    let mut lines = vec![];
    print_nodes(nodes, st, &mut lines, false);
    let nl = if st.crlf { "\r\n" } else { "\n" };
    let mut s = String::new();
    for l in lines {
        s.push_str(&l);
        s.push_str(nl);
    }
    s
}

pub fn print_canonical(nodes: &[Node]) -> String {
    print(nodes, &mut Style::canonical())
}

// ------------------------------------------------------------------------------------------
// Names

pub struct Names {
    n: u32,
}

impl Names {
    pub fn new() -> Names {
        Names { n: 0 }
    }
    /// fresh identifier that is not a register, X/Y/Z, pc, a mnemonic or a function name (but may begin like one)
    pub fn fresh(&mut self, kind: &str, rng: &mut Rng) -> String {
        self.n += 1;
        // (a third of the names begin like a register, a pointer register, `pc` or a function)
        const HEADS: [&str; 20] = ["a", "b", "c", "d", "g", "k", "m", "q", "t", "_", "a", "b", "c", "r1", "R31", "x", "Y", "zero", "pc", "low"];
        let head = rng.pick(&HEADS);
        let tail: String = (0..rng.below(4)).map(|_| *rng.pick(&['a', 'e', 'k', '_', '3', 'Z', 'x', '9'])).collect();
        format!("{}{}_{}{}", head, kind, tail, self.n)
    }
}

// ------------------------------------------------------------------------------------------
// Meaning-preserving transformation: move runs of top-level nodes into argument-less macros

/// Moves up to `max` contiguous runs of top-level nodes into macros without parameters that are
/// called (once) where the run stood. The call always sits in the code segment (macro calls are
/// instructions); the run itself may switch segments, start with `.org`, end with a segment switch.
/// The program means the same: "a macro call behaves as its body".
pub fn wrap_in_macros(nodes: &[Node], rng: &mut Rng, max: usize) -> Vec<Node> {
    let mut out: Vec<Node> = nodes.to_vec();
    let mut made = 0;
    let mut tries = 0;
    while made < max && tries < 12 {
        tries += 1;
        if out.len() < 4 {
            break;
        }
        // segment in force before each index
        let mut seg = Seg::Code;
        let mut seg_before = Vec::with_capacity(out.len());
        for n in &out {
            seg_before.push(seg);
            match n {
                Node::Seg(s) => seg = *s,
                // a call leaves the assembler in the segment its body ends in
                Node::MacroCall { name, .. } => {
                    for d in &out {
                        if let Node::MacroDef { name: dn, body, .. } = d {
                            if dn == name {
                                if let Some(s) = body.iter().rev().find_map(|x| if let Node::Seg(s) = x { Some(*s) } else { None }) {
                                    seg = s;
                                }
                            }
                        }
                    }
                }
                _ => {}
            }
        }
        let a = 1 + rng.usize(out.len() - 1);
        if seg_before[a] != Seg::Code {
            continue;
        }
        let len = 1 + rng.usize((out.len() - a).min(8));
        let b = a + len;
        let run = &out[a..b];
        // not movable: device selection (must stay first), existing macro machinery, compound nodes
        if run.iter().any(|n| matches!(n, Node::Device(_) | Node::MacroDef { .. } | Node::MacroCall { .. } | Node::Cond { .. } | Node::Comment(_) | Node::Equ(..) | Node::Define(_))) {
            continue;
        }
        // the run must hand back the segment it was given (code): a body that ends in another segment than
        // its call started in is a separate matter (known finding macro/state/*, probed in C09)
        if let Some(s) = run.iter().rev().find_map(|x| if let Node::Seg(s) = x { Some(*s) } else { None }) {
            if s != Seg::Code {
                continue;
            }
        }
        made += 1;
        let name = format!("wrap_mac_{}", made);
        let body: Vec<Node> = out.drain(a..b).collect();
        out.insert(a, Node::MacroCall { name: name.clone(), args: vec![] });
        // definition before or after the call
        let def = Node::MacroDef { name, body, end_long: rng.chance(1, 2) };
        if rng.chance(1, 2) {
            out.insert(1, def);
        } else {
            out.push(def);
        }
    }
    // the device selection itself may come out of a macro: the part is then only known once macros are expanded
    if let Some(at) = out.iter().take(3).position(|n| matches!(n, Node::Device(_))) {
        if made > 0 && rng.chance(1, 2) {
            let d = out.remove(at);
            out.insert(at, Node::MacroCall { name: "wrap_pick_part".into(), args: vec![] });
            out.push(Node::MacroDef { name: "wrap_pick_part".into(), body: vec![d], end_long: false });
        }
    }
    out
}
