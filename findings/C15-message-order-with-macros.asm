.macro chk
.message "in body"
.endm
	chk
.message "mid"
	chk
