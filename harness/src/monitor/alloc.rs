//! Counting global allocator: live / peak heap bytes with an optional hard cap.
//! Disabled (pure pass-through to System) unless a worker process switches it on, so the
//! multi-threaded monitors pay one relaxed load per allocation.

use std::alloc::{GlobalAlloc, Layout, System};
use std::sync::atomic::{AtomicBool, AtomicI64, AtomicU64, Ordering};

pub struct Counting;

static ENABLED: AtomicBool = AtomicBool::new(false);
static LIVE: AtomicI64 = AtomicI64::new(0);
static PEAK: AtomicI64 = AtomicI64::new(0);
static CAP: AtomicI64 = AtomicI64::new(i64::MAX);
pub static CURRENT_CASE: AtomicU64 = AtomicU64::new(0);
static ALLOCS: AtomicU64 = AtomicU64::new(0);
/// allocator calls a single case may make before the worker gives it up (`A <idx> <calls>`, exit 96);
/// u64::MAX = no limit. Deterministic, so it does not depend on how busy the machine is.
static CALL_CAP: AtomicU64 = AtomicU64::new(u64::MAX);
static CALL_MARK: AtomicU64 = AtomicU64::new(0);

fn over_calls(calls: u64) -> ! {
    let mut buf = [0u8; 64];
    let mut n = 0;
    for c in b"A " {
        buf[n] = *c;
        n += 1;
    }
    for v in [CURRENT_CASE.load(Ordering::Relaxed), calls] {
        let mut d = [0u8; 20];
        let mut k = 0;
        let mut v = v;
        if v == 0 {
            d[0] = b'0';
            k = 1;
        }
        while v > 0 {
            d[k] = b'0' + (v % 10) as u8;
            v /= 10;
            k += 1;
        }
        while k > 0 {
            k -= 1;
            buf[n] = d[k];
            n += 1;
        }
        buf[n] = b' ';
        n += 1;
    }
    buf[n - 1] = b'\n';
    unsafe {
        libc::write(1, buf.as_ptr() as *const libc::c_void, n);
        libc::_exit(96);
    }
}

#[inline]
fn count_call() {
    let calls = ALLOCS.fetch_add(1, Ordering::Relaxed) + 1;
    if calls.wrapping_sub(CALL_MARK.load(Ordering::Relaxed)) > CALL_CAP.load(Ordering::Relaxed) {
        over_calls(calls - CALL_MARK.load(Ordering::Relaxed));
    }
}

fn over_cap(live: i64) -> ! {
    // no allocation allowed here: raw write of a marker line, then leave without unwinding
    let mut buf = [0u8; 64];
    let mut n = 0;
    let put = |b: &mut [u8; 64], n: &mut usize, s: &[u8]| {
        for c in s {
            if *n < 63 {
                b[*n] = *c;
                *n += 1;
            }
        }
    };
    let num = |b: &mut [u8; 64], n: &mut usize, mut v: u64| {
        let mut d = [0u8; 20];
        let mut k = 0;
        if v == 0 {
            d[0] = b'0';
            k = 1;
        }
        while v > 0 {
            d[k] = b'0' + (v % 10) as u8;
            v /= 10;
            k += 1;
        }
        while k > 0 {
            k -= 1;
            if *n < 63 {
                b[*n] = d[k];
                *n += 1;
            }
        }
    };
    put(&mut buf, &mut n, b"M ");
    num(&mut buf, &mut n, CURRENT_CASE.load(Ordering::Relaxed));
    put(&mut buf, &mut n, b" ");
    num(&mut buf, &mut n, live as u64);
    put(&mut buf, &mut n, b"\n");
    unsafe {
        libc::write(1, buf.as_ptr() as *const libc::c_void, n);
        libc::_exit(98);
    }
}

unsafe impl GlobalAlloc for Counting {
    unsafe fn alloc(&self, l: Layout) -> *mut u8 {
        if ENABLED.load(Ordering::Relaxed) {
            let live = LIVE.fetch_add(l.size() as i64, Ordering::Relaxed) + l.size() as i64;
            count_call();
            if live > PEAK.load(Ordering::Relaxed) {
                PEAK.store(live, Ordering::Relaxed);
            }
            if live > CAP.load(Ordering::Relaxed) {
                over_cap(live);
            }
        }
        System.alloc(l)
    }
    unsafe fn dealloc(&self, p: *mut u8, l: Layout) {
        if ENABLED.load(Ordering::Relaxed) {
            LIVE.fetch_sub(l.size() as i64, Ordering::Relaxed);
        }
        System.dealloc(p, l)
    }
    unsafe fn realloc(&self, p: *mut u8, l: Layout, new_size: usize) -> *mut u8 {
        if ENABLED.load(Ordering::Relaxed) {
            let delta = new_size as i64 - l.size() as i64;
            count_call();
            let live = LIVE.fetch_add(delta, Ordering::Relaxed) + delta;
            if live > PEAK.load(Ordering::Relaxed) {
                PEAK.store(live, Ordering::Relaxed);
            }
            if live > CAP.load(Ordering::Relaxed) {
                over_cap(live);
            }
        }
        System.realloc(p, l, new_size)
    }
}

pub fn enable(cap: i64) {
    CAP.store(cap, Ordering::SeqCst);
    ENABLED.store(true, Ordering::SeqCst);
}

/// start a measurement: peak := live
pub fn mark() -> i64 {
    let l = LIVE.load(Ordering::Relaxed);
    PEAK.store(l, Ordering::Relaxed);
    l
}

pub fn peak_since(mark: i64) -> i64 {
    (PEAK.load(Ordering::Relaxed) - mark).max(0)
}

/// start counting allocator calls for one case; `cap` = calls after which the case is given up
pub fn mark_calls(cap: u64) {
    CALL_MARK.store(ALLOCS.load(Ordering::Relaxed), Ordering::Relaxed);
    CALL_CAP.store(cap, Ordering::Relaxed);
}

pub fn calls_since_mark() -> u64 {
    CALL_CAP.store(u64::MAX, Ordering::Relaxed);
    ALLOCS.load(Ordering::Relaxed).wrapping_sub(CALL_MARK.load(Ordering::Relaxed))
}
