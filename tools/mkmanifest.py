#!/usr/bin/env python3
"""Writes /verif/MANIFEST.json from the table below (one entry per claimed property)."""
import json, os, subprocess
ROOT = os.path.dirname(os.path.dirname(os.path.abspath(__file__)))

CLAIMED = {
 "C01": dict(
   technique="reference-model monitor over exhaustive operand enumeration (runtime execution of build_str, independent encoder+decoder oracle, llvm-mc cross-check of the oracle)",
   text="Runs the real assembler on every ISA-legal operand tuple of every supported instruction form (complete one-word space and reduced-core lds/sts in quick; additionally the complete 2^22 jmp/call and 32x2^16 lds/sts spaces in thorough) and compares the emitted bytes with an independently transcribed ISA encoder and a hand-coded decoder; plus slices that vary what surrounds the instruction: high addresses (behind .org 0x12345), operands arriving through .def aliases, .equ/.set symbols and macro arguments, and 3000 single-line builds on one thread alternating between the reduced core and no device. The oracle itself is cross-checked against LLVM's AVR assembler. A slice of tuples per form is also assembled behind `.org 0x12345`, through `.def` aliases / `.equ`,`.set` symbols / macro arguments (every other round with the definitions that count written inside .dseg/.eseg, replacing stale ones), and as interleaved single-line builds on one thread alternating reduced core and no device. Letter-case twins: per form and letter two lines that differ only in the case of mnemonic/registers and of a character-literal operand, in one build and in builds that follow each other on one thread.",
   note="Trusted base: refmodel/isa.rs (manual transcription; decode∘encode self-check; llvm-mc-14 agreement except the reduced-core lds/sts form, which LLVM 14 lacks, and pc-relative fields, which LLVM leaves to fixups). Relative operands are written pc±k; label targets are C03.",
   design="§6 C01"),
 "C03": dict(
   technique="reference-layout monitor over enumerated displacements (runtime execution, independent decoder oracle)",
   text="Builds programs that put each of the 18 br<cond>, brbs/brbc x 8 flags, rjmp and rcall at every displacement across and beyond both range limits (forward/backward; label, label±k, pc±k targets; random mixes of one/two-word instructions, data and .org gaps in between), at far displacements around ±2^k (pc-relative and labels placed with .org) and inside one-line macro bodies expanded several times back to back; requires: build Ok iff the displacement fits, the emitted word decodes to exactly that displacement, the whole image equals the reference layout. Every form is also placed inside one-line macro bodies expanded several times, and with the target as a macro parameter (pc-relative text at both limits and one beyond, labels; 0-2 instructions in front of the branch inside the body; macro defined and called inside taken branches). A third filler mix builds under `.device ATtiny20` with the one-word lds/sts of the reduced core between branch and target.",
   note="Trusted base: refmodel/isa.rs encodings of filler items and decoder. Windows: branches -80..80; rjmp/rcall around ±2048 and 0 (quick) or -2100..2100 (thorough).",
   design="§6 C03"),
 "C04": dict(
   technique="reference-model monitor over bounded-exhaustive out-of-domain operand enumeration (runtime execution of build_str)",
   text="For every instruction form one operand at a time (thorough: two) leaves its ISA domain: every register r0..r31 in every register position, every number in [lo-300, hi+300] plus ±2^k(±1), ±i64::MAX and i64::MIN in every numeric position, operand-kind substitutions and operand-count errors; for two-operand forms the complete cross product of registers / boundary values; and a device sweep (every device of the table x every form it has x each operand just outside, just inside and far outside its field). Must-reject inputs have to return Err (never Ok, never panic); every Ok image must equal the reference encoding. Register, cross-product and kind-confusion lines (and a quarter of the numeric windows; thorough: all) are repeated with registers through .def aliases and numbers through .equ symbols, and as a macro body with the operands as arguments; a device sweep repeats the numeric guards under every device. Kind confusions include malformed literals and the ld/ldd, st/std cross forms.",
   note="Legality from refmodel/isa.rs. 8-bit immediates written -128..-1 may be accepted as two's complement or rejected (statement silent). `ldd Rd, Y` without displacement is not probed.",
   design="§6 C04"),
 "C12": dict(
   technique="boundary-enumeration monitor against vendor part-file figures (runtime execution of build_str/build_file)",
   text="Every device of the table and the no-device default x flash/EEPROM/RAM x usage capacity-1/capacity/capacity+1 x several fill methods must build or fail exactly at the limit and report the device's sizes and RAM usage; the same with capacities read from the #pragma AVRPART MEMORY lines of every shipped part-definition file; RAM start via data-segment labels; unknown/second .device must fail; usages of 2^16..2^40 (+k) units, whose low bits look legal, must fail (run in isolated workers with a heap cap). Complete for the stated grid. The .device line is also reached through a called macro, a nested macro, a taken .if, the .else of an untaken .ifdef, and followed by .equ definitions of the part files' symbol names with misleading values; usages of 2^16..2^40 units run in isolated workers.",
   note="Independent data: includes/*def.inc pragmas. For rows without a part file and the defaults only self-consistency (enforced == reported == row). 17 shipped part files do not assemble (pragma with `lpm rd,z+`); for those the figures are checked via `.device <name>`.",
   design="§6 C12"),
 "C13": dict(
   technique="complete device x instruction-form enumeration monitor (runtime execution, flag→form oracle + reference encoder)",
   text="Every device of the table x every instruction form x lowest/highest legal operands (thorough + 256 random tuples): a form forbidden by a feature flag of the device must fail; every other form must assemble to the no-device reference encoding (one-word lds/sts on reduced cores); plus whole programs per device (allowed instructions only must build to the concatenated encodings; each forbidden form placed after allowed instructions incl. allowed forms of the same mnemonic must fail). Complete for the stated grid. Whole programs per device put every forbidden form behind allowed instructions (also of the same mnemonic) with inert lines in between, and behind every kind of inert line (.csegsize, #pragma, unused definitions, unselected .device, other segments with content) right after .device. The second `.device` line of the must-fail programs also sits in an included file.",
   note="Flag→forms map transcribed from the DisabledOptions doc comments; flags are read from the DEVICES table at run time, as the statement prescribes.",
   design="§6 C13"),
 "C05": dict(
   technique="reference-evaluator monitor over generated and enumerated expressions (runtime execution, i128 oracle, observation through emitted .dq bytes)",
   text="Evaluates expressions on the real assembler through `.dq <expr>` - written directly and as the argument of a macro - and compares with an i128 reference evaluator: random trees over all 18 binary / 3 unary operators, 8 functions, literals in every spelling, .equ/.set/label/pc symbols, rendered with only the parentheses the documented precedence table requires; the complete operator x boundary-operand grid; every ordered operator pair in both association shapes. Failing cases are shrunk to the smallest failing sub-expression on the real code. Every operator pair and a quarter of the random trees are also passed as macro arguments: plain, handed on to a second macro, as operand of a larger expression (2 * @0) and both at once on the line of a nested call. Symbol names include ones that begin like registers, pointer registers, functions and pc. Twelve symbol expressions per run are evaluated first thing in a build that directly follows, on the same thread, a build that defined the same names with other values and ran out of the build-wide evaluation budget.",
   note="Trusted base: refmodel/expr.rs. Tolerated where the statement is silent: `<<`/exp2 leaving i64 or counts >= 64 may fail or give the low 64 bits; `>>` of negatives arithmetic or logical; i64::MIN % -1 may fail or be 0.",
   design="§6 C05"),
 "C07": dict(
   technique="independent-reader monitor over enumerated image lengths (runtime execution of the HEX writers, strict Intel HEX decoder oracle)",
   text="Calls write_code_hex/write_eeprom_hex on images of every length 0..600 and every length within ±20 of each 64 KiB multiple up to the largest flash in the device table (thorough: more lengths up to 8 MiB and the full build_str→writer pipeline), with position-dependent contents, and on the same lengths repeatedly with different contents (one BuildResult patched in place, fresh objects, both writers alternating); each file is decoded with a strict independent reader: only well-formed records, valid checksums, one final EOF, every image byte exactly once at its address, none elsewhere. The declared memory sizes of the result vary per image; half of the images hold whole records of 0xFF/0x00/':'/CR/LF at the start, the end and around every 64 KiB boundary; every device of the table is built from source with both memories filled to the last byte and written.",
   note="Trusted base: refmodel/ihex.rs (self-tested on hand-made good and bad files).",
   design="§6 C07"),
 "C02": dict(
   technique="reference-layout monitor over generated programs + hook-trace checker (runtime execution of build_str, pass-1/pass-2 event log)",
   text="Random layout programs (interleaved .cseg/.dseg/.eseg, both instruction lengths, odd/even .db, word data, .byte, own-line/inline labels, forward .org, devices with different RAM starts and the reduced core) are assembled by the real tool; both images, RAM extent and sizes must equal an independent IR-level reference layout (labels are exposed through `.dd label` tables), and the hook trace must show every pass-1 size equal to the pass-2 emission and every label event equal to the reference value. 1 in 12 programs carries a backward .org that must fail. A third of the .org lines are followed by an excursion to another segment before the first item arrives; every second valid program is rebuilt with runs of its lines moved into argument-less macros. `.byte` with a size that is not a plain number between two labels, nine spellings in .eseg and .dseg: laid out, refused, nothing reserved (the listed finding), or labels and bytes disagreeing (another signature).",
   note="Trusted base: refmodel/layout.rs + isa.rs; device figures from DEVICES. Every second valid program is also rebuilt with runs of its lines moved into argument-less macros. Two open known findings (`.org 0` after code, `.byte <non-literal>`), see KNOWN_FINDINGS.txt.",
   design="§6 C02"),
 "C06": dict(
   technique="reference-model monitor over generated data programs + boundary grid (runtime execution, byte-exact oracle, hook-trace checker)",
   text="Programs of .db/.dw/.dd/.dq lines in flash and EEPROM with 0-12 operands mixing boundary literals, computed values, symbols, random expressions and strings (empty, comment look-alikes, non-ASCII), `.byte n` between EEPROM data, and single faults (value that does not fit, string in a word directive, data in .dseg) must produce exactly the reference bytes or fail; plus the complete width x boundary-value grid in both segments. Every second valid program is rebuilt with runs of lines moved into macros. Sibling data lines: equal up to a `;` `//` `:` `,` `@0` ... inside a literal, or but for letter case / blanks inside a literal, in one build and in builds that follow each other.",
   note="Trusted base: refmodel/layout.rs data rules; fits = signed or unsigned representation of the element width.",
   design="§6 C06"),
 "C08": dict(
   technique="metamorphic + reference monitor over enumerated truth assignments and random nested chains, with a hook-trace checker of lines reaching the assembling path",
   text="For all truth assignments of all chain shapes up to 3 arms (thorough 5), nested and with hostile unselected content, and for random chains nested up to 4 deep: build(full) must equal build(program with unselected and conditional lines blanked) and the reference image/messages; the LINE hook trace must contain every selected line and no line of an unselected branch. Chains hosted in macro bodies that test #define flags set by the expansions themselves are compared with the program in which every call is replaced by its body. Also: chains hosted in macro bodies that test flags the expansions set; macros with an optional last parameter (unselected branches name parameters the call does not pass); malformed nested blocks inside unselected branches; every program once more with labels in front of its conditional directives. 260 and 70000 (thorough up to 140000) complete chains of twelve shapes in a row, also inside a macro body.",
   note="Trusted base: refmodel/layout.rs conditional semantics and the IR printer (one line per primitive node). Unselected branches contain .error, clobbering definitions, duplicate labels, garbage, unterminated .macro, missing .include, other .device.",
   design="§6 C08"),
 "C09": dict(
   technique="metamorphic monitor: macro program vs IR-level hand expansion vs reference image (runtime execution of build_str)",
   text="Random programs with 1-4 macro definitions (0-10 parameters; register, index, displacement and expression parameters; parameters inside larger expressions; .if on a parameter; nested calls; segment switches incl. as the last line of a body; emit-once blocks and #define flags shared between macros; mixed-case names) and 1-6 calls in any letter case (also repeated verbatim), before or after the definition, must build to exactly what the hand-expanded program (expanded on the IR, arguments substituted as values) builds to and to the reference image; calls of undefined macros or with an omitted used argument must fail; fixed probes cover the argument shapes the statement names. Plus 'placing bodies' (.org as first/middle/last body line in all three segments, nested, the caller going on behind the call with labels referenced across calls, calls written under .dseg/.eseg) compared with the program written out. 66000 and 140000 (thorough up to 1050000) calls in one source in five shapes against the lines written out.",
   note="Trusted base: refmodel/layout.rs::expand_macros + IR printer. A parameter used inside a larger expression is only called with atomic/parenthesised/function-call arguments; labels and messages inside bodies are not generated; macros that set or test #define flags are only called from the top level. Three open known findings macro/state/* (one root cause), see KNOWN_FINDINGS.txt.",
   design="§6 C09"),
 "C10": dict(
   technique="reference-resolution monitor + single-symbol mutation testing of generated programs (runtime execution; LOOKUP hook events as evidence)",
   text="Valid programs defining and using labels (3 segments), .equ (chained, forward), .set (reassignment chains) and .def/.undef aliases in independently random letter case must build to the reference resolution; every program is mutated one symbol at a time — each referenced definition deleted, each label duplicated, each alias used after its .undef, undefined names in data/instruction/alias position (all must fail) — and every alias replaced by its register (identical image). Further mutants: every .equ defined a second time, every label also by .equ and every .equ also as a label (must fail); a live alias redefined on another register (refused or rebound, never the old register). Names include ones that begin like registers, functions and pc. Undefined names in operands that cannot change the value (18 shapes x 5 contexts) must fail the build.",
   note="Trusted base: refmodel/layout.rs binding rules. A second .def of a live alias may be refused or rebind the alias; silently keeping the old register is a violation.",
   design="§6 C10"),
 "C11": dict(
   technique="metamorphic + reference monitor over generated file trees on disk (runtime execution of build_file; INCLUDE hook events as evidence)",
   text="Generated programs are cut at item boundaries into trees of files (up to 5 deep) written to a scratch directory, each file placed by one documented search rule (absolute path, includer's directory, caller-supplied directory, earlier absolute or relative .includepath); build_file(tree) must equal build_str(flattened program) and the reference (images, sizes, RAM extent, messages with per-file line numbers); `.exit` tails with garbage must have no effect; removing one reachable file must fail with an error naming it. Include names are written as name, ./name, dir/name, ./dir/name, ../dir/name under every rule; further rules: path as written from the working directory, .includepath issued by a file included earlier, a directory bearing the file's name at the path as written; half of the trees hold a file included two or three times that guards parts of itself; after the missing-file build the file is put back and the tree rebuilt on the same thread. Files that list search directories are also reached through one or two files that only include the next one.",
   note="Unique file names per tree; the random splitter never cuts chains or macro definitions across files and puts no .include into macro bodies - those deviate on the pinned tree and are open known findings re-observed by fixed witness trees (KNOWN_FINDINGS.txt). Trusted base: refmodel/layout.rs include/.exit semantics.",
   design="§6 C11"),
 "C14": dict(
   technique="metamorphic monitor: canonical vs randomly respelled print of the same program IR (runtime execution of build_str)",
   text="Programs from the layout, data, conditional, macro and symbol generators (valid and failing) are printed canonically and 8 (thorough 16) times with randomised meaning-free spelling (comments of all three kinds with hostile texts, blank/comment-only lines, LF/CRLF, letter case, literal radix, blanks and tabs around every token class incl. after unary operators and in displacements); images, sizes, RAM extent, Ok/Err status and messages (line numbers removed) must be identical. Comment texts include /*, */, @0, quotes, backslashes, non-ASCII, directive look-alikes and 600 operator characters; block comments are followed by blanks and further comments; base programs include macro bodies whose lines differ only in the letter case of a string or character literal; the repository's own tests/*.asm are respelled at text level. Meaningless lines in volume: 130 / 2000 comment-only, blank and whitespace-only lines inside a macro body called 34000 / 2200 times, 1.2 million between the lines of a program, 900000 in unassembled text.",
   note="Respelling is done by the IR printer, so strings, character literals and macro bodies are never damaged. Directive names, #define names, macro names, label definitions and indentation before a label are not respelled (not listed by the statement).",
   design="§6 C14"),
 "C15": dict(
   technique="fault-injection monitor over every line position x fault kind of generated valid programs (runtime execution of build_str, error-text oracle)",
   text="Into valid base programs one faulty line of each of 24 kinds (incl. undefined names in operands that cannot change the value: 0 && x, 1 || x, 0 * x) is inserted at every position on the assembling path (top level and inside taken branches); the build must fail and the error text must contain the token `line: p`. Message placements (.message/.warning at top level and in taken/untaken branches) must leave the images unchanged and yield exactly the expected message list (text, line, order, kinds distinguishable); .error must fail wherever assembled. Every fault kind is repeated inside the body of a called macro behind blank and comment-only lines (the body line must be named), .message/.warning lines of bodies must carry their own line numbers, and an existing label is defined a second time behind every kind of segment boundary. Fault kind added in round 11: a line holding only a character the language gives no meaning to (NBSP, form feed, U+3000, ...), alone or in front of a comment.",
   note="Programs start with a comment so p >= 2 (PEG errors embed `line: 1`); for duplicate labels either defining line is accepted; a fault inside a macro body is attributed to the body line it is written on; the order of body messages relative to top-level ones is an open known finding (KNOWN_FINDINGS.txt).",
   design="§6 C15"),
 "C16": dict(
   technique="crash/hang/memory monitoring of isolated worker processes: panic hook + catch_unwind, counting allocator with hard cap, hook step budget, signal/exit-status supervision; bounded-exhaustive dictionary lines, structure-aware hostile programs, mutation fuzzing (thorough: + valgrind memcheck and Miri legs)",
   text="Every case is built alone in a worker process (8 MiB main-thread stack) under a panic hook, a counting allocator capped at 256 MiB live heap, a hook step budget of 5e7 (deterministic hang verdict) and signal supervision: all one-line programs head x operand tuples of length 0-2 over a 50-entry hostile dictionary (complete; length 3 sampled in quick, complete in thorough), ~160 structure-aware hostile programs (unbalanced/deep conditionals and macros, recursive macros/.equ, expression ladders to depth 30000, absurd .org/.byte, 60 KB tokens, self-including files) and byte/token mutations of valid generated programs. Any panic, signal death, cap or budget hit is a violation; abnormal verdicts are reproduced alone before they are reported. Dictionary lines of length 0-1 (directives 2; thorough all of length 2) are repeated inside a called macro body, a taken, a skipped and an .else branch; structured cases include multi-byte/zero-width/control characters next to every special character in every lexical position (also in macro bodies and as macro argument) and symbol cycles / doubling ladders through every function and operator kind. Since the eleventh seeding round the workers also count allocator calls per build, a deterministic measure of work the step hooks do not see: more than 2e6 + 400 per source byte or hook step is reported (largest ratio on the unchanged tree: 26), and a build is given up after 3e9 calls.",
   note="\"Promptly\" is restated as <= 5e7 hook steps (lines, items and expression evaluation steps) for inputs <= 64 KiB and \"out of proportion\" as > 256 MiB live heap; a wall-clock backstop firing alone is inconclusive. One open known finding (exponential macro expansion), see KNOWN_FINDINGS.txt.",
   design="§6 C16"),
 "C18": dict(
   technique="black-box process monitor of the real CLI binary: exit status, output capture, directory snapshots with sentinels, independent HEX decoding against the in-process library result (thorough: release binary and strace syscall log)",
   text="The avra-rs binary is rebuilt from the working tree and run in fresh scratch directories over 20 sources x 6 source placements (relative, dotted, no extension, sub-directory, absolute, symbolic link to a file elsewhere) x 6 -o/-e/-v option sets and 5 output faults on either output: on a failing build the exit status must be non-zero, something must be printed and no file may be created, removed or altered (sentinels at the default output places); on success the flash/EEPROM HEX files must sit at the documented paths and decode to exactly the images build_file returns in process; unwritable outputs must be reported with a non-zero status. Thorough adds the release binary and an strace leg showing that failing builds open nothing for writing. Plus source names that are not valid UTF-8 and option sets that send both images to one path.",
   note="Expected images from the library in process (same file); decoding with refmodel/ihex.rs. The flash file is demanded for every successful build, also for an empty image (end-of-file record alone); an empty EEPROM image is not written. HOME/XDG_CONFIG_HOME point into the scratch directory.",
   design="§6 C18"),
 "C17": dict(
   technique="history/schedule monitor with process-isolated reference results: sequential histories, barrier-released concurrent threads with injected yields, fresh processes (new hash keys), BUILD-hook invariant at every build start, DEVICES fingerprint, Miri data-race/UB interpreter on a concurrent workload",
   text="For a pool of ~120 programs whose symbols, macros, #defines, aliases, devices and messages collide by name across programs (valid and failing, build_str and build_file with a shared include directory) the isolated result of each is taken from 8 (thorough 64) fresh processes - which must agree among themselves (hash-order independence) - and must be reproduced exactly in 200 (20000) random sequential histories of 20-100 builds and in 60 (2000) concurrent rounds of 2-16 threads, half with yields injected at the hooks; the BUILD hook must show empty symbol tables and the default device at every build start; the device table's fingerprint must not change; Miri interprets a 3-thread workload under 2 (32) scheduler seeds with its data-race detector. The pool also holds builds that end at the assembler's own limits (evaluation steps, macro nesting, line complexity) with well-behaved twins, and failing programs whose unknown name begins several known names.",
   note="Builds share only the immutable DEVICES table, so the monitors aim at making introduced sharing visible (name collisions, device selection, overlap accounting from global sequence numbers: tens of thousands of overlapping build pairs per run), not at enumerating schedules. Fingerprint = hash of the full BuildResult / error text.",
   design="§6 C17"),
}

PENDING_REASON = "check not built yet in this round (work in progress; design in DESIGN.md §6)"

def main():
    props = [json.loads(l) for l in open(os.path.join(ROOT, "properties.jsonl"))]
    commits = subprocess.run(["git", "-C", "/repo", "log", "--format=%h %s"], capture_output=True, text=True).stdout.splitlines()
    hook_commits = [c.split()[0] for c in commits if "observation hook" in c or "verif" in c.lower() and not c.split(" ",1)[1].startswith("fix:")]
    checks, na = [], []
    for p in props:
        pid = p["id"]
        if pid in CLAIMED:
            c = CLAIMED[pid]
            checks.append({
                "property_id": pid,
                "quick_cmd": f"./check {pid} --tier quick",
                "thorough_cmd": f"./check {pid} --tier thorough",
                "evidence_file": f"/verif/evidence/{pid}.json",
                "replay_cmd_template": f"./check {pid} --replay {{path}}",
                "engine": "avra-verif",
                "level_claimed": {"category": "exploration", "text": c["text"], "design_ref": c["design"]},
                "level_note": c["note"],
                "technique": c["technique"],
            })
        else:
            na.append({"property_id": pid, "reason": PENDING_REASON})
    m = {
        "version": 1,
        "setup_cmd": "./setup.sh",
        "hooks": {
            "guard": "cargo feature `verif` (cfg(feature = \"verif\")), off by default",
            "enable": "the harness crate /verif/harness depends on /repo by path with features = [\"verif\"]; ./check rebuilds it (cargo build --release --offline) before every run",
            "baseline_off_cmd": "cd /repo && cargo test --workspace --no-fail-fast --offline",
            "source_commits": hook_commits,
            "add_only": True,
        },
        "engines": [{
            "name": "avra-verif",
            "path": "/verif/harness",
            "serves_properties": sorted(CLAIMED),
            "kind_free_text": "Rust harness linking the real avra_lib (hooks on): seeded/enumerated workloads, independent reference models as oracles, hook-trace checkers, isolated worker processes; external legs: Miri, valgrind memcheck, strace",
        }],
        "checks": checks,
        "not_applicable": na,
        "notes": "Technique family: runtime monitoring and sanitizers. Every check executes the real code from /repo's working tree and decides by an oracle over observed executions; see DESIGN.md. Known findings: KNOWN_FINDINGS.txt.",
    }
    if not na:
        del m["not_applicable"]
    json.dump(m, open(os.path.join(ROOT, "MANIFEST.json"), "w"), indent=1)
    print("wrote MANIFEST.json:", len(checks), "checks,", len(na), "not_applicable; hook commits", hook_commits)

main()
