//! Reference model of the AVR instruction set: a table of forms transcribed from the bit
//! patterns printed in the AVR Instruction Set Manual, a generic field encoder, and an
//! independently hand-coded decoder. Nothing here is derived from the repository's code.

use std::sync::OnceLock;

#[derive(Clone, Copy, PartialEq, Eq, Debug)]
pub enum Idx {
    X,
    XPlus,
    MinusX,
    Y,
    YPlus,
    MinusY,
    Z,
    ZPlus,
    MinusZ,
}

impl Idx {
    pub fn text(self) -> &'static str {
        match self {
            Idx::X => "X",
            Idx::XPlus => "X+",
            Idx::MinusX => "-X",
            Idx::Y => "Y",
            Idx::YPlus => "Y+",
            Idx::MinusY => "-Y",
            Idx::Z => "Z",
            Idx::ZPlus => "Z+",
            Idx::MinusZ => "-Z",
        }
    }
    pub fn all() -> [Idx; 9] {
        [
            Idx::X,
            Idx::XPlus,
            Idx::MinusX,
            Idx::Y,
            Idx::YPlus,
            Idx::MinusY,
            Idx::Z,
            Idx::ZPlus,
            Idx::MinusZ,
        ]
    }
    pub fn reg(self) -> char {
        match self {
            Idx::X | Idx::XPlus | Idx::MinusX => 'X',
            Idx::Y | Idx::YPlus | Idx::MinusY => 'Y',
            _ => 'Z',
        }
    }
}

/// Operand kind of a form. Operand values are carried as i64.
#[derive(Clone, Copy, PartialEq, Eq, Debug)]
pub enum Opk {
    /// register rN, lo <= N <= hi, (N - lo) % step == 0, field value (N - lo) / step
    Reg {
        lo: u8,
        hi: u8,
        step: u8,
        f: char,
    },
    /// unsigned immediate lo..=hi in field f
    Imm { lo: i64, hi: i64, f: char },
    /// 8-bit immediate stored complemented (cbr)
    ImmCom { f: char },
    /// signed relative displacement in `bits` bits (operand value = displacement d; target = pc+1+d)
    Rel { bits: u8, f: char },
    /// fixed index form (no field)
    Index(Idx),
    /// displacement form Y+q / Z+q
    Disp { reg: char, f: char },
    /// reduced-core data address 0x40..=0xbf (scrambled 7-bit field k)
    Addr8l { f: char },
}

impl Opk {
    pub fn legal(&self, v: i64) -> bool {
        match *self {
            Opk::Reg { lo, hi, step, .. } => {
                v >= lo as i64 && v <= hi as i64 && (v - lo as i64) % step as i64 == 0
            }
            Opk::Imm { lo, hi, .. } => v >= lo && v <= hi,
            Opk::ImmCom { .. } => (0..=255).contains(&v),
            Opk::Rel { bits, .. } => {
                let h = 1i64 << (bits - 1);
                v >= -h && v < h
            }
            Opk::Index(_) => true,
            Opk::Disp { .. } => (0..=63).contains(&v),
            Opk::Addr8l { .. } => (0x40..=0xbf).contains(&v),
        }
    }
    /// number of legal values
    pub fn domain(&self) -> Vec<i64> {
        match *self {
            Opk::Reg { lo, hi, step, .. } => (lo..=hi).step_by(step as usize).map(|x| x as i64).collect(),
            Opk::Imm { lo, hi, .. } => (lo..=hi).collect(),
            Opk::ImmCom { .. } => (0..=255).collect(),
            Opk::Rel { bits, .. } => {
                let h = 1i64 << (bits - 1);
                (-h..h).collect()
            }
            Opk::Index(_) => vec![0],
            Opk::Disp { .. } => (0..=63).collect(),
            Opk::Addr8l { .. } => (0x40..=0xbf).collect(),
        }
    }
    pub fn is_reg(&self) -> bool {
        matches!(self, Opk::Reg { .. })
    }
    pub fn dom_len(&self) -> u64 {
        match *self {
            Opk::Reg { lo, hi, step, .. } => ((hi - lo) / step) as u64 + 1,
            Opk::Imm { lo, hi, .. } => (hi - lo + 1) as u64,
            Opk::ImmCom { .. } => 256,
            Opk::Rel { bits, .. } => 1u64 << bits,
            Opk::Index(_) => 1,
            Opk::Disp { .. } => 64,
            Opk::Addr8l { .. } => 128,
        }
    }
    pub fn dom_at(&self, i: u64) -> i64 {
        match *self {
            Opk::Reg { lo, step, .. } => lo as i64 + i as i64 * step as i64,
            Opk::Imm { lo, .. } => lo + i as i64,
            Opk::ImmCom { .. } => i as i64,
            Opk::Rel { bits, .. } => i as i64 - (1i64 << (bits - 1)),
            Opk::Index(_) => 0,
            Opk::Disp { .. } => i as i64,
            Opk::Addr8l { .. } => 0x40 + i as i64,
        }
    }
}

#[derive(Clone, Copy, PartialEq, Eq, Debug)]
pub enum Core {
    Any,
    /// only on cores with the 32-bit lds/sts
    Full,
    /// only on reduced (AVRrc / avr8l) cores
    Reduced,
}

/// How the decoder is expected to name this form (documented aliases)
#[derive(Clone, Copy, PartialEq, Eq, Debug)]
pub enum Alias {
    None,
    /// tst/clr/lsl/rol Rd  ==  <base> Rd,Rd
    Dup(&'static str),
    /// ser Rd == ldi Rd,255
    Ser,
    /// sbr == ori, cbr == andi with complemented mask
    Same(&'static str),
    /// br<cond> k == brbs/brbc s,k
    Br(bool, u8),
    /// se<f>/cl<f> == bset/bclr s
    Flag(bool, u8),
    /// ld/st Rd,Y|Z == ldd/std Rd,Y|Z+0
    LddZero(&'static str),
}

#[derive(Clone, Debug)]
pub struct Form {
    /// unique name: mnemonic, plus ":<addressing>" where one mnemonic has several forms
    pub name: String,
    /// mnemonic as written in source
    pub mn: &'static str,
    pub ops: Vec<Opk>,
    /// 16 or 32 pattern characters (blanks ignored): 0, 1 or a field letter
    pub pat: &'static str,
    pub alias: Alias,
    pub core: Core,
}

impl Form {
    pub fn words(&self) -> usize {
        self.pat.chars().filter(|c| !c.is_whitespace()).count() / 16
    }
    pub fn legal(&self, vals: &[i64]) -> bool {
        vals.len() == self.ops.len() && self.ops.iter().zip(vals).all(|(o, v)| o.legal(*v))
    }
    /// source text of operand i with value v (decimal); relative operands as pc-relative expression
    pub fn operand_text(&self, i: usize, v: i64) -> String {
        match self.ops[i] {
            Opk::Reg { .. } => format!("r{}", v),
            Opk::Imm { .. } | Opk::ImmCom { .. } | Opk::Addr8l { .. } => format!("{}", v),
            Opk::Rel { .. } => {
                let t = v + 1;
                if t >= 0 {
                    format!("pc+{}", t)
                } else {
                    format!("pc-{}", -t)
                }
            }
            Opk::Index(ix) => ix.text().to_string(),
            Opk::Disp { reg, .. } => format!("{}+{}", reg, v),
        }
    }
    pub fn text(&self, vals: &[i64]) -> String {
        let ops: Vec<String> = vals
            .iter()
            .enumerate()
            .map(|(i, v)| self.operand_text(i, *v))
            .collect();
        if ops.is_empty() {
            self.mn.to_string()
        } else {
            format!("{} {}", self.mn, ops.join(", "))
        }
    }
    /// number of legal tuples
    pub fn space(&self) -> u64 {
        self.ops.iter().map(|o| o.dom_len()).product()
    }
    /// the i-th legal tuple (mixed radix, last operand fastest)
    pub fn tuple_at(&self, mut i: u64) -> Vec<i64> {
        let mut vals = vec![0i64; self.ops.len()];
        for k in (0..self.ops.len()).rev() {
            let n = self.ops[k].dom_len();
            vals[k] = self.ops[k].dom_at(i % n);
            i /= n;
        }
        vals
    }
}

fn field_value(op: &Opk, v: i64) -> (char, u32, bool) {
    // (letter, value, scrambled)
    match *op {
        Opk::Reg { lo, step, f, .. } => (f, ((v - lo as i64) / step as i64) as u32, false),
        Opk::Imm { f, .. } => (f, v as u32, false),
        Opk::ImmCom { f } => (f, (!(v as u32)) & 0xff, false),
        Opk::Rel { bits, f } => (f, (v as u32) & ((1u32 << bits) - 1), false),
        Opk::Index(_) => (' ', 0, false),
        Opk::Disp { f, .. } => (f, v as u32, false),
        Opk::Addr8l { f } => {
            // manual: ADDR[7:0] = (!INST[8], INST[8], INST[10], INST[9], INST[3..0]);
            // the k field, MSB first in the pattern `1010 0kkk dddd kkkk`, is INST[10], INST[9], INST[8], INST[3..0]
            let a = v as u32;
            let k = ((a >> 5) & 1) << 6 | ((a >> 4) & 1) << 5 | ((a >> 6) & 1) << 4 | (a & 0xf);
            (f, k, true)
        }
    }
}

/// Generic encoder: distribute each operand's field value over the positions of its letter, MSB first.
pub fn encode(form: &Form, vals: &[i64]) -> Vec<u16> {
    assert_eq!(vals.len(), form.ops.len());
    let pat: Vec<char> = form.pat.chars().filter(|c| !c.is_whitespace()).collect();
    let nbits = pat.len();
    let mut bits = vec![0u8; nbits];
    for (i, c) in pat.iter().enumerate() {
        match c {
            '0' => bits[i] = 0,
            '1' => bits[i] = 1,
            _ => {}
        }
    }
    let mut fields: Vec<(char, u32)> = vec![];
    for (op, v) in form.ops.iter().zip(vals) {
        let (f, val, _) = field_value(op, *v);
        if f != ' ' {
            fields.push((f, val));
        }
    }
    if let Alias::Dup(_) = form.alias {
        // second field 'r' repeats the first register
        let (_, v) = fields[0];
        fields.push(('r', v));
    }
    for (f, val) in fields {
        let positions: Vec<usize> = pat
            .iter()
            .enumerate()
            .filter(|(_, c)| **c == f)
            .map(|(i, _)| i)
            .collect();
        let n = positions.len();
        assert!(n > 0, "form {} has no field {}", form.name, f);
        for (j, p) in positions.iter().enumerate() {
            bits[*p] = ((val >> (n - 1 - j)) & 1) as u8;
        }
    }
    let mut words = vec![];
    for w in 0..nbits / 16 {
        let mut x = 0u16;
        for b in 0..16 {
            x = (x << 1) | bits[w * 16 + b] as u16;
        }
        words.push(x);
    }
    words
}

pub fn words_to_bytes(ws: &[u16]) -> Vec<u8> {
    let mut v = Vec::with_capacity(ws.len() * 2);
    for w in ws {
        v.push((*w & 0xff) as u8);
        v.push((*w >> 8) as u8);
    }
    v
}

const R5D: Opk = Opk::Reg { lo: 0, hi: 31, step: 1, f: 'd' };
const R5R: Opk = Opk::Reg { lo: 0, hi: 31, step: 1, f: 'r' };
const R4D: Opk = Opk::Reg { lo: 16, hi: 31, step: 1, f: 'd' };
const R4R: Opk = Opk::Reg { lo: 16, hi: 31, step: 1, f: 'r' };
const R3D: Opk = Opk::Reg { lo: 16, hi: 23, step: 1, f: 'd' };
const R3R: Opk = Opk::Reg { lo: 16, hi: 23, step: 1, f: 'r' };

fn build_forms() -> Vec<Form> {
    let mut v: Vec<Form> = vec![];
    let mut add = |name: &str, mn: &'static str, ops: Vec<Opk>, pat: &'static str, alias: Alias, core: Core| {
        v.push(Form { name: name.to_string(), mn, ops, pat, alias, core });
    };
    use Alias as A;
    use Core::*;
    // --- two-register arithmetic/logic
    for (mn, pat) in [
        ("add", "0000 11rd dddd rrrr"),
        ("adc", "0001 11rd dddd rrrr"),
        ("sub", "0001 10rd dddd rrrr"),
        ("sbc", "0000 10rd dddd rrrr"),
        ("and", "0010 00rd dddd rrrr"),
        ("or", "0010 10rd dddd rrrr"),
        ("eor", "0010 01rd dddd rrrr"),
        ("cpse", "0001 00rd dddd rrrr"),
        ("cp", "0001 01rd dddd rrrr"),
        ("cpc", "0000 01rd dddd rrrr"),
        ("mov", "0010 11rd dddd rrrr"),
        ("mul", "1001 11rd dddd rrrr"),
    ] {
        add(mn, mn, vec![R5D, R5R], pat, A::None, Any);
    }
    // --- word immediates
    let rw = Opk::Reg { lo: 24, hi: 30, step: 2, f: 'd' };
    add("adiw", "adiw", vec![rw, Opk::Imm { lo: 0, hi: 63, f: 'K' }], "1001 0110 KKdd KKKK", A::None, Any);
    add("sbiw", "sbiw", vec![rw, Opk::Imm { lo: 0, hi: 63, f: 'K' }], "1001 0111 KKdd KKKK", A::None, Any);
    // --- register-immediate
    let k8 = Opk::Imm { lo: 0, hi: 255, f: 'K' };
    add("subi", "subi", vec![R4D, k8], "0101 KKKK dddd KKKK", A::None, Any);
    add("sbci", "sbci", vec![R4D, k8], "0100 KKKK dddd KKKK", A::None, Any);
    add("andi", "andi", vec![R4D, k8], "0111 KKKK dddd KKKK", A::None, Any);
    add("ori", "ori", vec![R4D, k8], "0110 KKKK dddd KKKK", A::None, Any);
    add("sbr", "sbr", vec![R4D, k8], "0110 KKKK dddd KKKK", A::Same("ori"), Any);
    add("cbr", "cbr", vec![R4D, Opk::ImmCom { f: 'K' }], "0111 KKKK dddd KKKK", A::Same("andi"), Any);
    add("cpi", "cpi", vec![R4D, k8], "0011 KKKK dddd KKKK", A::None, Any);
    add("ldi", "ldi", vec![R4D, k8], "1110 KKKK dddd KKKK", A::None, Any);
    // --- one-register
    for (mn, pat) in [
        ("com", "1001 010d dddd 0000"),
        ("neg", "1001 010d dddd 0001"),
        ("inc", "1001 010d dddd 0011"),
        ("dec", "1001 010d dddd 1010"),
        ("push", "1001 001d dddd 1111"),
        ("pop", "1001 000d dddd 1111"),
        ("lsr", "1001 010d dddd 0110"),
        ("ror", "1001 010d dddd 0111"),
        ("asr", "1001 010d dddd 0101"),
        ("swap", "1001 010d dddd 0010"),
    ] {
        add(mn, mn, vec![R5D], pat, A::None, Any);
    }
    add("tst", "tst", vec![R5D], "0010 00rd dddd rrrr", A::Dup("and"), Any);
    add("clr", "clr", vec![R5D], "0010 01rd dddd rrrr", A::Dup("eor"), Any);
    add("lsl", "lsl", vec![R5D], "0000 11rd dddd rrrr", A::Dup("add"), Any);
    add("rol", "rol", vec![R5D], "0001 11rd dddd rrrr", A::Dup("adc"), Any);
    add("ser", "ser", vec![R4D], "1110 1111 dddd 1111", A::Ser, Any);
    // --- multiplies
    add("muls", "muls", vec![R4D, R4R], "0000 0010 dddd rrrr", A::None, Any);
    add("mulsu", "mulsu", vec![R3D, R3R], "0000 0011 0ddd 0rrr", A::None, Any);
    add("fmul", "fmul", vec![R3D, R3R], "0000 0011 0ddd 1rrr", A::None, Any);
    add("fmuls", "fmuls", vec![R3D, R3R], "0000 0011 1ddd 0rrr", A::None, Any);
    add("fmulsu", "fmulsu", vec![R3D, R3R], "0000 0011 1ddd 1rrr", A::None, Any);
    // --- jumps and calls
    add("rjmp", "rjmp", vec![Opk::Rel { bits: 12, f: 'k' }], "1100 kkkk kkkk kkkk", A::None, Any);
    add("rcall", "rcall", vec![Opk::Rel { bits: 12, f: 'k' }], "1101 kkkk kkkk kkkk", A::None, Any);
    let a22 = Opk::Imm { lo: 0, hi: 4194303, f: 'k' };
    add("jmp", "jmp", vec![a22], "1001 010k kkkk 110k kkkk kkkk kkkk kkkk", A::None, Any);
    add("call", "call", vec![a22], "1001 010k kkkk 111k kkkk kkkk kkkk kkkk", A::None, Any);
    // --- conditional branches
    let rel7 = Opk::Rel { bits: 7, f: 'k' };
    let s3 = Opk::Imm { lo: 0, hi: 7, f: 's' };
    add("brbs", "brbs", vec![s3, rel7], "1111 00kk kkkk ksss", A::None, Any);
    add("brbc", "brbc", vec![s3, rel7], "1111 01kk kkkk ksss", A::None, Any);
    for (mn, set, bit, pat) in [
        ("breq", true, 1u8, "1111 00kk kkkk k001"),
        ("brne", false, 1, "1111 01kk kkkk k001"),
        ("brcs", true, 0, "1111 00kk kkkk k000"),
        ("brcc", false, 0, "1111 01kk kkkk k000"),
        ("brsh", false, 0, "1111 01kk kkkk k000"),
        ("brlo", true, 0, "1111 00kk kkkk k000"),
        ("brmi", true, 2, "1111 00kk kkkk k010"),
        ("brpl", false, 2, "1111 01kk kkkk k010"),
        ("brge", false, 4, "1111 01kk kkkk k100"),
        ("brlt", true, 4, "1111 00kk kkkk k100"),
        ("brhs", true, 5, "1111 00kk kkkk k101"),
        ("brhc", false, 5, "1111 01kk kkkk k101"),
        ("brts", true, 6, "1111 00kk kkkk k110"),
        ("brtc", false, 6, "1111 01kk kkkk k110"),
        ("brvs", true, 3, "1111 00kk kkkk k011"),
        ("brvc", false, 3, "1111 01kk kkkk k011"),
        ("brie", true, 7, "1111 00kk kkkk k111"),
        ("brid", false, 7, "1111 01kk kkkk k111"),
    ] {
        add(mn, mn, vec![rel7], pat, A::Br(set, bit), Any);
    }
    // --- data transfer
    let re = Opk::Reg { lo: 0, hi: 30, step: 2, f: 'd' };
    let re_r = Opk::Reg { lo: 0, hi: 30, step: 2, f: 'r' };
    add("movw", "movw", vec![re, re_r], "0000 0001 dddd rrrr", A::None, Any);
    let a16 = Opk::Imm { lo: 0, hi: 65535, f: 'k' };
    add("lds", "lds", vec![R5D, a16], "1001 000d dddd 0000 kkkk kkkk kkkk kkkk", A::None, Full);
    add("sts", "sts", vec![a16, R5D], "1001 001d dddd 0000 kkkk kkkk kkkk kkkk", A::None, Full);
    add("lds:rc", "lds", vec![R4D, Opk::Addr8l { f: 'k' }], "1010 0kkk dddd kkkk", A::None, Reduced);
    add("sts:rc", "sts", vec![Opk::Addr8l { f: 'k' }, R4D], "1010 1kkk dddd kkkk", A::None, Reduced);
    for (ix, lpat, spat, al) in [
        (Idx::X, "1001 000d dddd 1100", "1001 001d dddd 1100", false),
        (Idx::XPlus, "1001 000d dddd 1101", "1001 001d dddd 1101", false),
        (Idx::MinusX, "1001 000d dddd 1110", "1001 001d dddd 1110", false),
        (Idx::Y, "1000 000d dddd 1000", "1000 001d dddd 1000", true),
        (Idx::YPlus, "1001 000d dddd 1001", "1001 001d dddd 1001", false),
        (Idx::MinusY, "1001 000d dddd 1010", "1001 001d dddd 1010", false),
        (Idx::Z, "1000 000d dddd 0000", "1000 001d dddd 0000", true),
        (Idx::ZPlus, "1001 000d dddd 0001", "1001 001d dddd 0001", false),
        (Idx::MinusZ, "1001 000d dddd 0010", "1001 001d dddd 0010", false),
    ] {
        let (la, sa) = if al {
            if ix == Idx::Y {
                (A::LddZero("ldd:Y"), A::LddZero("std:Y"))
            } else {
                (A::LddZero("ldd:Z"), A::LddZero("std:Z"))
            }
        } else {
            (A::None, A::None)
        };
        add(&format!("ld:{}", ix.text()), "ld", vec![R5D, Opk::Index(ix)], lpat, la, Any);
        add(&format!("st:{}", ix.text()), "st", vec![Opk::Index(ix), R5D], spat, sa, Any);
    }
    add("ldd:Y", "ldd", vec![R5D, Opk::Disp { reg: 'Y', f: 'q' }], "10q0 qq0d dddd 1qqq", A::None, Any);
    add("ldd:Z", "ldd", vec![R5D, Opk::Disp { reg: 'Z', f: 'q' }], "10q0 qq0d dddd 0qqq", A::None, Any);
    add("std:Y", "std", vec![Opk::Disp { reg: 'Y', f: 'q' }, R5D], "10q0 qq1d dddd 1qqq", A::None, Any);
    add("std:Z", "std", vec![Opk::Disp { reg: 'Z', f: 'q' }, R5D], "10q0 qq1d dddd 0qqq", A::None, Any);
    add("lpm", "lpm", vec![], "1001 0101 1100 1000", A::None, Any);
    add("lpm:Z", "lpm", vec![R5D, Opk::Index(Idx::Z)], "1001 000d dddd 0100", A::None, Any);
    add("lpm:Z+", "lpm", vec![R5D, Opk::Index(Idx::ZPlus)], "1001 000d dddd 0101", A::None, Any);
    add("elpm", "elpm", vec![], "1001 0101 1101 1000", A::None, Any);
    add("elpm:Z", "elpm", vec![R5D, Opk::Index(Idx::Z)], "1001 000d dddd 0110", A::None, Any);
    add("elpm:Z+", "elpm", vec![R5D, Opk::Index(Idx::ZPlus)], "1001 000d dddd 0111", A::None, Any);
    add("spm", "spm", vec![], "1001 0101 1110 1000", A::None, Any);
    let io6 = Opk::Imm { lo: 0, hi: 63, f: 'A' };
    add("in", "in", vec![R5D, io6], "1011 0AAd dddd AAAA", A::None, Any);
    add("out", "out", vec![io6, R5D], "1011 1AAd dddd AAAA", A::None, Any);
    // --- bit instructions
    let io5 = Opk::Imm { lo: 0, hi: 31, f: 'A' };
    let b3 = Opk::Imm { lo: 0, hi: 7, f: 'b' };
    add("sbi", "sbi", vec![io5, b3], "1001 1010 AAAA Abbb", A::None, Any);
    add("cbi", "cbi", vec![io5, b3], "1001 1000 AAAA Abbb", A::None, Any);
    add("sbis", "sbis", vec![io5, b3], "1001 1011 AAAA Abbb", A::None, Any);
    add("sbic", "sbic", vec![io5, b3], "1001 1001 AAAA Abbb", A::None, Any);
    add("sbrc", "sbrc", vec![R5D, b3], "1111 110d dddd 0bbb", A::None, Any);
    add("sbrs", "sbrs", vec![R5D, b3], "1111 111d dddd 0bbb", A::None, Any);
    add("bst", "bst", vec![R5D, b3], "1111 101d dddd 0bbb", A::None, Any);
    add("bld", "bld", vec![R5D, b3], "1111 100d dddd 0bbb", A::None, Any);
    add("bset", "bset", vec![s3], "1001 0100 0sss 1000", A::None, Any);
    add("bclr", "bclr", vec![s3], "1001 0100 1sss 1000", A::None, Any);
    for (i, fl) in ["c", "z", "n", "v", "s", "h", "t", "i"].iter().enumerate() {
        let se: &'static str = Box::leak(format!("se{}", fl).into_boxed_str());
        let cl: &'static str = Box::leak(format!("cl{}", fl).into_boxed_str());
        let sp: &'static str = Box::leak(format!("1001 0100 0{:03b} 1000", i).into_boxed_str());
        let cp: &'static str = Box::leak(format!("1001 0100 1{:03b} 1000", i).into_boxed_str());
        add(se, se, vec![], sp, A::Flag(true, i as u8), Any);
        add(cl, cl, vec![], cp, A::Flag(false, i as u8), Any);
    }
    // --- operand-less
    for (mn, pat) in [
        ("nop", "0000 0000 0000 0000"),
        ("ret", "1001 0101 0000 1000"),
        ("reti", "1001 0101 0001 1000"),
        ("ijmp", "1001 0100 0000 1001"),
        ("icall", "1001 0101 0000 1001"),
        ("eijmp", "1001 0100 0001 1001"),
        ("eicall", "1001 0101 0001 1001"),
        ("sleep", "1001 0101 1000 1000"),
        ("break", "1001 0101 1001 1000"),
        ("wdr", "1001 0101 1010 1000"),
    ] {
        add(mn, mn, vec![], pat, A::None, Any);
    }
    v
}

pub fn forms() -> &'static Vec<Form> {
    static F: OnceLock<Vec<Form>> = OnceLock::new();
    F.get_or_init(build_forms)
}

pub fn form(name: &str) -> &'static Form {
    forms()
        .iter()
        .find(|f| f.name == name)
        .unwrap_or_else(|| panic!("no form {}", name))
}

pub fn form_index(name: &str) -> usize {
    forms().iter().position(|f| f.name == name).unwrap()
}

/// all mnemonics the model knows (as written in source)
pub fn mnemonics() -> Vec<&'static str> {
    let mut m: Vec<&'static str> = forms().iter().map(|f| f.mn).collect();
    m.sort();
    m.dedup();
    m
}

/// What the independent decoder must report for (form, vals): canonical name + operands.
pub fn canonical(form: &Form, vals: &[i64]) -> (String, Vec<i64>) {
    match form.alias {
        Alias::None => (form.name.clone(), decode_view(form, vals)),
        Alias::Dup(base) => (base.to_string(), vec![vals[0], vals[0]]),
        Alias::Ser => ("ldi".to_string(), vec![vals[0], 255]),
        Alias::Same(base) => {
            if form.mn == "cbr" {
                (base.to_string(), vec![vals[0], (!vals[1]) & 0xff])
            } else {
                (base.to_string(), vals.to_vec())
            }
        }
        Alias::Br(set, bit) => (
            if set { "brbs" } else { "brbc" }.to_string(),
            vec![bit as i64, vals[0]],
        ),
        Alias::Flag(set, bit) => (if set { "bset" } else { "bclr" }.to_string(), vec![bit as i64]),
        Alias::LddZero(base) => {
            // ld Rd,Y -> ldd:Y [d, 0]; st Y,Rr -> std:Y [0, r]
            if base.starts_with("ldd") {
                (base.to_string(), vec![vals[0], 0])
            } else {
                (base.to_string(), vec![0, vals[1]])
            }
        }
    }
}

/// Operand values as the decoder reports them (index forms carry no value -> 0)
fn decode_view(form: &Form, vals: &[i64]) -> Vec<i64> {
    form.ops
        .iter()
        .zip(vals)
        .map(|(o, v)| match o {
            Opk::Index(_) => 0,
            _ => *v,
        })
        .collect()
}

fn sext(v: u32, bits: u32) -> i64 {
    let m = 1u32 << (bits - 1);
    ((v ^ m) as i64) - m as i64
}

/// Independent decoder (hand-coded in disassembler style, not derived from the form table).
/// Returns (canonical form name, operand values, words consumed).
pub fn decode(w: u16, w2: Option<u16>, reduced: bool) -> Option<(String, Vec<i64>, usize)> {
    let w = w as u32;
    let d5 = ((w >> 4) & 0x1f) as i64;
    let r5 = ((w & 0xf) | ((w >> 5) & 0x10)) as i64;
    let d4 = (16 + ((w >> 4) & 0xf)) as i64;
    let k8 = (((w >> 4) & 0xf0) | (w & 0xf)) as i64;
    let one = |n: &str, ops: Vec<i64>| Some((n.to_string(), ops, 1usize));
    match w >> 12 {
        0x0 => match (w >> 8) & 0xf {
            0 => {
                if w == 0 {
                    one("nop", vec![])
                } else {
                    None
                }
            }
            1 => one("movw", vec![(((w >> 4) & 0xf) * 2) as i64, ((w & 0xf) * 2) as i64]),
            2 => one("muls", vec![d4, (16 + (w & 0xf)) as i64]),
            3 => {
                let d = (16 + ((w >> 4) & 7)) as i64;
                let r = (16 + (w & 7)) as i64;
                let n = match ((w >> 7) & 1, (w >> 3) & 1) {
                    (0, 0) => "mulsu",
                    (0, 1) => "fmul",
                    (1, 0) => "fmuls",
                    _ => "fmulsu",
                };
                one(n, vec![d, r])
            }
            4..=7 => one("cpc", vec![d5, r5]),
            8..=0xb => one("sbc", vec![d5, r5]),
            _ => one("add", vec![d5, r5]),
        },
        0x1 => one(["cpse", "cp", "sub", "adc"][((w >> 10) & 3) as usize], vec![d5, r5]),
        0x2 => one(["and", "eor", "or", "mov"][((w >> 10) & 3) as usize], vec![d5, r5]),
        0x3 => one("cpi", vec![d4, k8]),
        0x4 => one("sbci", vec![d4, k8]),
        0x5 => one("subi", vec![d4, k8]),
        0x6 => one("ori", vec![d4, k8]),
        0x7 => one("andi", vec![d4, k8]),
        0x8 | 0xA => {
            if reduced && (w >> 12) == 0xA {
                // 16-bit lds/sts: 1010 skkk dddd kkkk
                let i8 = (w >> 8) & 1;
                let i10 = (w >> 10) & 1;
                let i9 = (w >> 9) & 1;
                let addr = ((i8 ^ 1) << 7) | (i8 << 6) | (i10 << 5) | (i9 << 4) | (w & 0xf);
                if (w >> 11) & 1 == 0 {
                    return one("lds:rc", vec![d4, addr as i64]);
                } else {
                    return one("sts:rc", vec![addr as i64, d4]);
                }
            }
            let q = (((w >> 8) & 0x20) | ((w >> 7) & 0x18) | (w & 7)) as i64;
            let store = (w >> 9) & 1 == 1;
            let y = (w >> 3) & 1 == 1;
            match (store, y) {
                (false, true) => one("ldd:Y", vec![d5, q]),
                (false, false) => one("ldd:Z", vec![d5, q]),
                (true, true) => one("std:Y", vec![q, d5]),
                (true, false) => one("std:Z", vec![q, d5]),
            }
        }
        0x9 => {
            if w & 0xfc00 == 0x9000 {
                let store = w & 0x0200 != 0;
                let low = w & 0xf;
                let ix = |s: &str| -> Option<(String, Vec<i64>, usize)> {
                    if store {
                        Some((format!("st:{}", s), vec![0, d5], 1))
                    } else {
                        Some((format!("ld:{}", s), vec![d5, 0], 1))
                    }
                };
                match low {
                    0 => {
                        if reduced {
                            return None;
                        }
                        let k = w2? as i64;
                        if store {
                            Some(("sts".to_string(), vec![k, d5], 2))
                        } else {
                            Some(("lds".to_string(), vec![d5, k], 2))
                        }
                    }
                    1 => ix("Z+"),
                    2 => ix("-Z"),
                    4 if !store => one("lpm:Z", vec![d5, 0]),
                    5 if !store => one("lpm:Z+", vec![d5, 0]),
                    6 if !store => one("elpm:Z", vec![d5, 0]),
                    7 if !store => one("elpm:Z+", vec![d5, 0]),
                    9 => ix("Y+"),
                    0xA => ix("-Y"),
                    0xC => ix("X"),
                    0xD => ix("X+"),
                    0xE => ix("-X"),
                    0xF => {
                        if store {
                            one("push", vec![d5])
                        } else {
                            one("pop", vec![d5])
                        }
                    }
                    _ => None,
                }
            } else if w & 0xfe00 == 0x9400 {
                let low = w & 0xf;
                match low {
                    0 => one("com", vec![d5]),
                    1 => one("neg", vec![d5]),
                    2 => one("swap", vec![d5]),
                    3 => one("inc", vec![d5]),
                    5 => one("asr", vec![d5]),
                    6 => one("lsr", vec![d5]),
                    7 => one("ror", vec![d5]),
                    0xA => one("dec", vec![d5]),
                    8 => {
                        if w & 0x0100 == 0 {
                            let s = ((w >> 4) & 7) as i64;
                            if w & 0x80 == 0 {
                                one("bset", vec![s])
                            } else {
                                one("bclr", vec![s])
                            }
                        } else {
                            match w {
                                0x9508 => one("ret", vec![]),
                                0x9518 => one("reti", vec![]),
                                0x9588 => one("sleep", vec![]),
                                0x9598 => one("break", vec![]),
                                0x95a8 => one("wdr", vec![]),
                                0x95c8 => one("lpm", vec![]),
                                0x95d8 => one("elpm", vec![]),
                                0x95e8 => one("spm", vec![]),
                                _ => None,
                            }
                        }
                    }
                    9 => match w {
                        0x9409 => one("ijmp", vec![]),
                        0x9419 => one("eijmp", vec![]),
                        0x9509 => one("icall", vec![]),
                        0x9519 => one("eicall", vec![]),
                        _ => None,
                    },
                    0xC | 0xD | 0xE | 0xF => {
                        let k = ((((w >> 4) & 0x1f) << 17) | ((w & 1) << 16)) as i64 | w2? as i64;
                        if low < 0xE {
                            Some(("jmp".to_string(), vec![k], 2))
                        } else {
                            Some(("call".to_string(), vec![k], 2))
                        }
                    }
                    _ => None,
                }
            } else if w & 0xfe00 == 0x9600 {
                let d = (24 + 2 * ((w >> 4) & 3)) as i64;
                let k = (((w >> 2) & 0x30) | (w & 0xf)) as i64;
                if w & 0x0100 == 0 {
                    one("adiw", vec![d, k])
                } else {
                    one("sbiw", vec![d, k])
                }
            } else if w & 0xfc00 == 0x9800 {
                let a = ((w >> 3) & 0x1f) as i64;
                let b = (w & 7) as i64;
                one(["cbi", "sbic", "sbi", "sbis"][((w >> 8) & 3) as usize], vec![a, b])
            } else {
                one("mul", vec![d5, r5])
            }
        }
        0xB => {
            let a = (((w >> 5) & 0x30) | (w & 0xf)) as i64;
            if w & 0x0800 == 0 {
                one("in", vec![d5, a])
            } else {
                one("out", vec![a, d5])
            }
        }
        0xC => one("rjmp", vec![sext(w & 0xfff, 12)]),
        0xD => one("rcall", vec![sext(w & 0xfff, 12)]),
        0xE => one("ldi", vec![d4, k8]),
        _ => {
            // 0xF
            match (w >> 10) & 3 {
                0 => one("brbs", vec![(w & 7) as i64, sext((w >> 3) & 0x7f, 7)]),
                1 => one("brbc", vec![(w & 7) as i64, sext((w >> 3) & 0x7f, 7)]),
                2 => {
                    if w & 8 != 0 {
                        return None;
                    }
                    if w & 0x0200 == 0 {
                        one("bld", vec![d5, (w & 7) as i64])
                    } else {
                        one("bst", vec![d5, (w & 7) as i64])
                    }
                }
                _ => {
                    if w & 8 != 0 {
                        return None;
                    }
                    if w & 0x0200 == 0 {
                        one("sbrc", vec![d5, (w & 7) as i64])
                    } else {
                        one("sbrs", vec![d5, (w & 7) as i64])
                    }
                }
            }
        }
    }
}

/// Check that `words` decode (independently) to what was written. Returns Err(description) otherwise.
pub fn check_decode(form: &Form, vals: &[i64], words: &[u16]) -> Result<(), String> {
    let reduced = form.core == Core::Reduced;
    let dec = decode(words[0], words.get(1).copied(), reduced);
    let (cn, cv) = canonical(form, vals);
    match dec {
        None => Err(format!("words {:04x?} do not decode to any supported instruction", words)),
        Some((n, v, len)) => {
            if n != cn || v != cv || len != words.len() {
                Err(format!(
                    "words {:04x?} decode to {} {:?} ({} words), written {} {:?}",
                    words, n, v, len, cn, cv
                ))
            } else {
                Ok(())
            }
        }
    }
}

/// Iterate every legal tuple of a form (callers bound the big spaces themselves).
pub fn for_each_tuple(form: &Form, mut f: impl FnMut(&[i64])) {
    let doms: Vec<Vec<i64>> = form.ops.iter().map(|o| o.domain()).collect();
    let mut idx = vec![0usize; doms.len()];
    let mut vals: Vec<i64> = doms.iter().map(|d| d[0]).collect();
    if doms.is_empty() {
        f(&[]);
        return;
    }
    loop {
        f(&vals);
        let mut k = doms.len();
        loop {
            if k == 0 {
                return;
            }
            k -= 1;
            idx[k] += 1;
            if idx[k] < doms[k].len() {
                vals[k] = doms[k][idx[k]];
                break;
            }
            idx[k] = 0;
            vals[k] = doms[k][0];
        }
    }
}

/// Self-check of the model: decode(encode(x)) is the canonical reading of x for the complete
/// one-word space and a boundary sample of the two-word space. Returns number of tuples checked.
pub fn selfcheck() -> Result<u64, String> {
    let mut n = 0u64;
    for form in forms() {
        if form.words() == 1 {
            let mut err = None;
            for_each_tuple(form, |vals| {
                let w = encode(form, vals);
                n += 1;
                if err.is_none() {
                    if let Err(e) = check_decode(form, vals, &w) {
                        err = Some(format!("isa selfcheck {} {:?}: {}", form.name, vals, e));
                    }
                }
            });
            if let Some(e) = err {
                return Err(e);
            }
        } else {
            // two-word: registers x boundary addresses
            let doms: Vec<Vec<i64>> = form
                .ops
                .iter()
                .map(|o| match o {
                    Opk::Imm { lo, hi, .. } => {
                        let mut v = vec![*lo, *hi, 1, hi / 2, hi / 2 + 1];
                        let mut b = 1i64;
                        while b <= *hi {
                            v.push(b);
                            v.push(hi ^ b);
                            b <<= 1;
                        }
                        v
                    }
                    o => o.domain(),
                })
                .collect();
            let mut idx = vec![0usize; doms.len()];
            loop {
                let vals: Vec<i64> = idx.iter().enumerate().map(|(i, j)| doms[i][*j]).collect();
                let w = encode(form, &vals);
                n += 1;
                check_decode(form, &vals, &w)
                    .map_err(|e| format!("isa selfcheck {} {:?}: {}", form.name, vals, e))?;
                let mut k = doms.len();
                let mut done = false;
                loop {
                    if k == 0 {
                        done = true;
                        break;
                    }
                    k -= 1;
                    idx[k] += 1;
                    if idx[k] < doms[k].len() {
                        break;
                    }
                    idx[k] = 0;
                }
                if done {
                    break;
                }
            }
        }
    }
    Ok(n)
}
