//! C16 — no input makes the assembler panic, overflow its stack, or hang.
//!
//! Every case runs in an isolated worker process (monitor::worker) under a panic hook, a counting
//! allocator with a 256 MiB cap on live heap, a hook step budget of 5e7 (deterministic hang
//! verdict) and a wall-clock backstop whose firing alone is inconclusive.
//! Workloads: (i) bounded-exhaustive one-line programs head x operand tuples from a dictionary;
//! (ii) structure-aware hostile programs; (iii) byte/token mutations of valid programs.

use crate::fw::{self, Ctx, Rng, Tier};
use crate::gen::ir::{self, Style};
use crate::monitor::worker::{self, Case, Verdict};
use crate::props::{c02, c06gen, c08gen, c09, c10};
use crate::refmodel::isa;
use serde_json::{json, Value};
use std::collections::BTreeMap;
use std::sync::Mutex;

pub const OPERANDS: [(&str, &str); 50] = [
    ("r0", "reg"),
    ("r15", "reg"),
    ("r16", "reg"),
    ("r31", "reg"),
    ("r32", "badreg"),
    ("r99", "badreg"),
    ("R255", "badreg"),
    ("X+", "idx"),
    ("-Y", "idx"),
    ("Z+63", "idx"),
    ("Z+64", "idx"),
    ("Z+", "idx"),
    ("0", "num"),
    ("1", "num"),
    ("-1", "num"),
    ("7", "num"),
    ("8", "num"),
    ("63", "num"),
    ("64", "num"),
    ("255", "num"),
    ("256", "num"),
    ("65535", "num"),
    ("65536", "num"),
    ("4194304", "num"),
    ("2000000000", "num"),
    ("9223372036854775807", "big"),
    ("9223372036854775808", "toobig"),
    ("123456789012345678901234567890", "toobig"),
    ("0xFFFFFFFFFFFFFFFFFFFF", "toobig"),
    ("1<<64", "shift"),
    ("1<<-1", "shift"),
    ("exp2(64)", "shift"),
    ("1/0", "div0"),
    ("1%0", "div0"),
    ("-(-9223372036854775807-1)", "ovf"),
    ("1<<63", "i64min"),
    ("-9223372036854775807-1", "i64min"),
    ("~0", "num"),
    ("undefined_name", "undef"),
    ("pc", "pc"),
    ("low(", "broken"),
    ("\"\"", "str"),
    ("\"abc\"", "str"),
    ("'a'", "chr"),
    ("''", "broken"),
    ("@0", "param"),
    ("(", "broken"),
    (")", "broken"),
    ("ATmega8", "dev"),
    ("", "empty"),
];

pub const DIRECTIVES: [&str; 44] = [
    ".byte", ".cseg", ".csegsize", ".db", ".def", ".device", ".dseg", ".dw", ".endm", ".endmacro", ".equ", ".eseg", ".exit", ".include", ".includepath", ".list", ".listmac", ".macro", ".nolist", ".org",
    ".set", ".define", "#define", ".else", ".elif", ".endif", ".error", ".if", ".ifdef", ".ifndef", ".message", ".dd", ".dq", ".undef", ".warning", ".overlap", ".nooverlap", ".pragma", "#pragma", ".unknowndirective",
    "#if", "#endif", "lbl: .db", "lbl: .equ",
];

fn heads() -> Vec<(String, bool)> {
    // (head text, is directive)
    let mut v: Vec<(String, bool)> = DIRECTIVES.iter().map(|d| (d.to_string(), true)).collect();
    for m in isa::mnemonics() {
        v.push((m.to_string(), false));
    }
    v.push(("frobnicate".to_string(), false));
    v.push(("lbl: nop".to_string(), false));
    v
}

fn one_liner(head: &str, directive: bool, ops: &[usize], joiner: u8, prelude: &str) -> Case {
    let texts: Vec<&str> = ops.iter().map(|i| OPERANDS[*i].0).collect();
    let classes: Vec<&str> = ops.iter().map(|i| OPERANDS[*i].1).collect();
    let body = match joiner {
        1 if texts.len() >= 2 => format!("{} = {}", texts[0], texts[1..].join(", ")),
        2 => texts.join(" "),
        _ => texts.join(", "),
    };
    let line = if body.is_empty() { head.to_string() } else { format!("{} {}", head, body) };
    let text = format!("{}{}\n", prelude, line);
    let construct = format!("line/{}{}/{}{}", if prelude.is_empty() { "" } else { prelude.trim() }, head.replace(' ', "_"), if classes.is_empty() { "none".to_string() } else { classes.join(",") }, match joiner { 1 => "/assign", 2 => "/spaces", _ => "" });
    let _ = directive;
    Case { kind: b'S', text: text.into_bytes(), construct, family: "one-line" }
}

/// the same dictionary line inside a construct that hands it to another code path: the body of a
/// called macro (parsed again at expansion time, without a current file), a taken branch, a skipped
/// branch (scanned by the skipper), an `.else` branch
const CONTEXTS: [(&str, &str, &str); 5] = [
    ("in-macro", ".macro mm\n", ".endm\nmm r16, 5\n"),
    ("in-macro-noargs", ".macro mm\n", ".endm\nmm\n"),
    ("in-if", ".if 1\n", ".endif\n"),
    ("in-skipped", ".if 0\n", ".endif\nnop\n"),
    ("in-else", ".ifdef nothing\nnop\n.else\n", ".endif\n"),
];

fn in_context(c: Case, ctxi: usize) -> Case {
    let (name, pre, post) = CONTEXTS[ctxi];
    let mut text = pre.as_bytes().to_vec();
    text.extend_from_slice(&c.text);
    text.extend_from_slice(post.as_bytes());
    Case { kind: c.kind, text, construct: format!("{}/{}", name, c.construct), family: "one-line-in-context" }
}

fn dictionary_cases(ctx: &Ctx) -> Vec<Case> {
    let heads = heads();
    let n = OPERANDS.len();
    let mut v = vec![];
    for (h, dir) in &heads {
        v.push(one_liner(h, *dir, &[], 0, ""));
        for a in 0..n {
            v.push(one_liner(h, *dir, &[a], 0, ""));
            for b in 0..n {
                v.push(one_liner(h, *dir, &[a, b], 0, ""));
                if *dir {
                    v.push(one_liner(h, *dir, &[a, b], 1, ""));
                    v.push(one_liner(h, *dir, &[a, b], 2, ""));
                }
            }
        }
    }
    // data/reservation/origin directives inside the other segments
    for prelude in [".dseg\n", ".eseg\n"] {
        for h in [".byte", ".org", ".db", ".dw", ".dd", ".dq"] {
            v.push(one_liner(h, true, &[], 0, prelude));
            for a in 0..n {
                v.push(one_liner(h, true, &[a], 0, prelude));
                for b in 0..n {
                    v.push(one_liner(h, true, &[a, b], 0, prelude));
                }
            }
        }
    }
    // every line of length 0-1 (directives: also length 2; thorough: everything of length 2) inside each context
    for ci in 0..CONTEXTS.len() {
        for (h, dir) in &heads {
            v.push(in_context(one_liner(h, *dir, &[], 0, ""), ci));
            for a in 0..n {
                v.push(in_context(one_liner(h, *dir, &[a], 0, ""), ci));
                if *dir || ctx.tier == Tier::Thorough {
                    for b in 0..n {
                        v.push(in_context(one_liner(h, *dir, &[a, b], 0, ""), ci));
                    }
                }
            }
        }
    }
    // length 3: complete in the thorough tier, sampled in quick
    let mut rng = Rng::for_case(ctx.seed, 0xC16, 3);
    if ctx.tier == Tier::Thorough {
        for (h, dir) in &heads {
            for a in 0..n {
                for b in 0..n {
                    for c in 0..n {
                        v.push(one_liner(h, *dir, &[a, b, c], 0, ""));
                    }
                }
            }
        }
    } else {
        for _ in 0..100_000 {
            let (h, dir) = &heads[rng.usize(heads.len())];
            let j = if *dir { rng.below(3) as u8 } else { 0 };
            v.push(one_liner(h, *dir, &[rng.usize(n), rng.usize(n), rng.usize(n)], j, ""));
        }
    }
    v
}

fn ladder(open: &str, close: &str, depth: usize, core: &str) -> String {
    format!("{}{}{}", open.repeat(depth), core, close.repeat(depth))
}

fn structured_cases(ctx: &Ctx, scratch: &std::path::Path) -> Vec<Case> {
    let mut v: Vec<Case> = vec![];
    let mut add = |name: &str, text: String| {
        let mut t = text;
        t.truncate(65536);
        v.push(Case { kind: b'S', text: t.into_bytes(), construct: format!("struct/{}", name), family: "structured" });
    };
    // character adjacency: a multi-byte, zero-width or control character directly behind (and in front of)
    // every character that some scanner of the assembler treats specially, in every lexical position, at
    // top level and inside the body of a called macro (where parameter substitution scans the text again)
    {
        let specials = ["@", "@1", "'", "\"", "\\", ";", "/", "//", "/*", ".", "#", "(", ")", ",", ":", "+", "-", "$", "0x", "0b", "=", "<<", ">", "!", "~", "*", "%", "&", "|", "^", "?", "r1", "pc", "low("];
        let hostile = [("2byte", "\u{e9}"), ("3byte", "\u{20ac}"), ("4byte", "\u{1f600}"), ("nul", "\u{0}"), ("bom", "\u{feff}"), ("rtl", "\u{202e}"), ("del", "\u{7f}"), ("nbsp", "\u{a0}"), ("cr", "\r")];
        for sp in specials {
            for (hn, h) in hostile {
                let lines = [
                    ("operand", format!("ldi r16, {}{}", sp, h)),
                    ("operand-before", format!("ldi r16, {}{}", h, sp)),
                    ("comment", format!("nop ; {}{} {}{}", sp, h, h, sp)),
                    ("string", format!(".db \"{}{}\", \"{}{}\"", sp.replace('"', ""), h, h, sp.replace('"', ""))),
                    ("char", format!(".db '{}', {}'{}'", h, sp, h)),
                    ("label", format!("{}{}: nop", h, sp)),
                    ("head", format!("{}{} r16, 1", sp, h)),
                ];
                for (pos, line) in lines {
                    let key = format!("{}/{}/{}", sp.replace('/', "slash").replace('*', "star"), hn, pos);
                    add(&format!("adjacent/top/{}", key), format!("{}\n", line));
                    add(&format!("adjacent/in-macro-with-args/{}", key), format!(".macro mm\n{}\n.endm\nmm r16, 5\n", line));
                    add(&format!("adjacent/in-macro/{}", key), format!(".macro mm\n{}\n.endm\nmm\n", line));
                    add(&format!("adjacent/as-macro-argument/{}", key), format!(".macro mm\n.db @0\n.endm\nmm {}\n", line));
                }
            }
        }
    }
    // unbalanced directives
    add("unbalanced/if-without-endif", ".if 1\nnop\n".into());
    add("unbalanced/if0-without-endif", ".if 0\nnop\n".into());
    add("unbalanced/endif-alone", ".endif\nnop\n".into());
    add("unbalanced/else-alone", ".else\nnop\n".into());
    add("unbalanced/elif-alone", ".elif 1\nnop\n".into());
    add("unbalanced/macro-without-endm", ".macro m\nnop\n".into());
    add("unbalanced/endm-alone", ".endm\nnop\n".into());
    add("unbalanced/endmacro-alone", ".endmacro\n".into());
    add("unbalanced/else-else", ".if 0\n.else\n.else\nnop\n.endif\n".into());
    add("unbalanced/macro-in-macro", ".macro a\n.macro b\nnop\n.endm\n.endm\na\nb\n".into());
    for d in [10usize, 100, 1000, 8000] {
        add(&format!("nesting/if1-unclosed/{}", d), ".if 1\n".repeat(d));
        add(&format!("nesting/if0-unclosed/{}", d), ".if 0\n".repeat(d));
        add(&format!("nesting/if1-closed/{}", d), format!("{}nop\n{}", ".if 1\n".repeat(d), ".endif\n".repeat(d)));
        add(&format!("nesting/if0-else-ladder/{}", d), format!("{}nop\n{}", ".if 0\n.else\n".repeat(d), ".endif\n".repeat(d)));
    }
    // recursion
    add("recursion/macro-self", ".macro m\nm\n.endm\nm\n".into());
    add("recursion/macro-self-args", ".macro m\nm @0+1\n.endm\nm 1\n".into());
    add("recursion/macro-mutual", ".macro a\nb\n.endm\n.macro b\na\n.endm\na\n".into());
    add("recursion/macro-self-growing", ".macro m\nnop\nm\nm\n.endm\nm\n".into());
    // the recursive call sits behind a segment switch / an .org inside the body (later fragments of an expansion)
    add("recursion/macro-self-behind-segment-switch", ".macro m\nnop\n.dseg\n.byte 1\n.cseg\nm\n.endm\nm\n".into());
    add("recursion/macro-self-behind-eseg-switch", ".macro m\nnop\n.eseg\n.db 1\n.cseg\nm\n.endm\nm\n".into());
    add("recursion/macro-self-behind-org", ".macro v\nnop\n.org 0x10\nv\n.endm\nv\n".into());
    add("recursion/macro-self-first-line-segment-switch", ".macro m\n.dseg\n.cseg\nm\n.endm\nm\n".into());
    add("recursion/macro-mutual-behind-segment-switches", ".macro a\nnop\n.dseg\n.byte 1\n.cseg\nb\n.endm\n.macro b\nnop\n.eseg\n.db 1\n.cseg\na\n.endm\na\n".into());
    add("recursion/macro-self-in-conditional", ".macro m\n.if 1\nm\n.endif\n.endm\nm\n".into());
    add("recursion/macro-self-through-argument", ".macro m\n@0 @0\n.endm\nm m\n".into());
    add("recursion/equ-self", ".equ a = a\n.dw a\n".into());
    add("recursion/equ-self-plus", ".equ a = a + 1\nldi r16, a\n".into());
    add("recursion/equ-mutual", ".equ a = b\n.equ b = a\n.dw a\n".into());
    add("recursion/equ-cycle-3", ".equ a = b\n.equ b = c\n.equ c = a\n.db a\n".into());
    add("recursion/equ-self-in-if", ".equ a = a\n.if a\nnop\n.endif\n".into());
    add("recursion/equ-self-in-org", ".equ a = a\n.org a\nnop\n".into());
    add("recursion/set-self", ".set a = a\n.dw a\n".into());
    add("recursion/set-from-equ-cycle", ".equ a = b\n.equ b = a\n.set c = a\n".into());
    add("recursion/define-self", "#define a\n.dw a\n".into());
    // breadth instead of depth: every symbol names the previous one twice (2^n evaluations when nothing is memoised)
    for n in [16usize, 24, 40, 200] {
        let mut t = String::from(".equ a0 = 1\n");
        for i in 1..=n {
            t.push_str(&format!(".equ a{} = a{} + a{}\n", i, i - 1, i - 1));
        }
        t.push_str(&format!(".dq a{} & 1\n", n));
        add(&format!("recursion/equ-doubling/{}", n), t);
        let mut t = String::from(".equ a0 = 0\n");
        for i in 1..=n {
            t.push_str(&format!(".equ a{} = a{} | a{}\n", i, i - 1, i - 1));
        }
        t.push_str(&format!(".if a{}\nnop\n.endif\nldi r16, a{}\n", n, n));
        add(&format!("recursion/equ-doubling-in-if-and-instruction/{}", n), t);
    }
    // a ladder that one evaluation just gets through, used on every line of a long source: the time is the sum
    // over the lines, each within its own limit
    for (uses, rungs, line) in [(200usize, 18usize, ".dd a18"), (2000, 18, ".dd a18"), (6000, 17, "\tldi r16, low(a17)"), (1500, 18, ".if a18\n.endif"), (3000, 17, ".set v = a17"), (2000, 17, "\trjmp pc + a17 - a17")] {
        let mut t = String::from(".equ a0 = 1\n");
        for i in 1..=rungs {
            t.push_str(&format!(".equ a{} = a{} + a{}\n", i, i - 1, i - 1));
        }
        for _ in 0..uses {
            t.push_str(line);
            t.push('\n');
        }
        add(&format!("recursion/equ-doubling-used-often/{}x{}/{}", uses, rungs, line.split_whitespace().next().unwrap_or("?").trim_start_matches('.')), t);
    }
    // many parameters on one body line and one long argument: the replaced line must not be built before its
    // length is looked at
    for (uses, arg_len) in [(15000usize, 30000usize), (30000, 1000), (2000, 60000), (30000, 60000)] {
        add(&format!("size/macro-line-{}-parameters-x-{}-characters", uses, arg_len), format!(".macro m\n.db {}\n.endm\nm {}\n", "@0".repeat(uses), "x".repeat(arg_len)));
        add(&format!("size/macro-line-{}-parameters-x-{}-characters-second-argument", uses, arg_len), format!(".macro m\n.dw {}\n.endm\nm 1, {}\n", "@1+".repeat(uses), "7".repeat(arg_len.min(18))));
    }
    // the same with text that is not ASCII on the line that grows too long, at every alignment: whatever the error
    // says about the line, it says it without cutting a character in two
    for lead in 0..6usize {
        for (cn, ch) in [("2-byte", "\u{e4}"), ("3-byte", "\u{20ac}"), ("4-byte", "\u{1f600}")] {
            add(
                &format!("size/macro-line-too-long-with-{}-characters/offset-{}", cn, lead),
                format!(".macro m\n\t.db \"{}{}\", {} ; {}\n.endm\n\tm {}\n", "x".repeat(lead), ch.repeat(40), "@0, ".repeat(3000), ch.repeat(30), format!("{}1", "1+".repeat(40))),
            );
        }
    }
    add("size/macro-name-not-ascii-too-long-line", format!(".macro gr\u{f6}\u{df}e\n.dw {}\n.endm\ngr\u{f6}\u{df}e {}\n", "@0+".repeat(20000), "9".repeat(18)));
    add("recursion/macro-arg-doubling", ".macro m\n.dq @0\n.endm\n.equ a0 = 1\n.equ a1 = a0+a0\n.equ a2 = a1+a1\n.equ a3 = a2+a2\nm a3+a3\n".into());
    add("recursion/equ-label-same-name", "a: .equ a = a\n.dw a\n".into());
    // a macro that calls itself (or the next one) with an argument that grows at every level: glued,
    // summed, doubled inside parentheses - the text doubles long before the nesting limit is reached
    for (gn, grown) in [("glued", "@0@0"), ("summed", "@0+@0"), ("product", "(@0)*(@0)"), ("listed-in-db", "@0, @0"), ("string", "\"@0@0\""), ("second-arg", "1, @1@1")] {
        add(&format!("recursion/macro-argument-doubling/self/{}", gn), format!(".macro m\n\tm {}\n.endm\n\tm a, b\n", grown));
        add(&format!("recursion/macro-argument-doubling/self-with-emission/{}", gn), format!(".macro m\n\t.db @0\n\tm {}\n.endm\n\tm 1, 2\n", grown));
        let mut chain = String::from(".macro c0\n\t.dw 1\n.endm\n");
        for i in 1..=60 {
            chain.push_str(&format!(".macro c{}\n\tc{} {}\n.endm\n", i, i - 1, grown));
        }
        chain.push_str("\tc60 7, 8\n");
        add(&format!("recursion/macro-argument-doubling/chain-of-60/{}", gn), chain);
    }
    // the same cycles and doubling ladders with every round passing through a function call, a unary
    // operator, parentheses or a comparison: each kind of sub-expression must count against the guards
    for (wn, open, close) in [
        ("low", "low(", ")"), ("high", "high(", ")"), ("byte2", "byte2(", ")"), ("byte3", "byte3(", ")"), ("byte4", "byte4(", ")"), ("lwrd", "lwrd(", ")"), ("hwrd", "hwrd(", ")"),
        ("page", "page(", ")"), ("exp2", "exp2(", ")"), ("log2", "log2(", ")"), ("paren", "(", ")"), ("neg", "-", ""), ("not", "!", ""), ("compl", "~", ""), ("cmp", "0 == ", ""), ("and", "1 && ", ""), ("shift", "1 << ", ""),
    ] {
        add(&format!("recursion/equ-self-through/{}", wn), format!(".equ a = {}a{}\nldi r16, a\n", open, close));
        add(&format!("recursion/equ-mutual-through/{}", wn), format!(".equ lo = {}hi{} + 1\n.equ hi = {}lo{}\n.org hi\nnop\n", open, close, open, close));
        add(&format!("recursion/set-self-through/{}", wn), format!(".equ a = {}a{}\n.set b = a\n.dw b\n", open, close));
        for n in [24usize, 40, 64] {
            let mut t = String::from(".equ b0 = 1\n");
            for i in 1..=n {
                t.push_str(&format!(".equ b{} = {}b{}{} + {}b{}{}\n", i, open, i - 1, close, open, i - 1, close));
            }
            t.push_str(&format!(".dw b{}\n", n));
            add(&format!("recursion/equ-doubling-through/{}/{}", wn, n), t);
        }
    }
    // nesting ladders in expressions
    for d in [10usize, 100, 1000, 5000, 10000, 30000] {
        add(&format!("ladder/paren/{}", d), format!(".dq {}\n", ladder("(", ")", d, "1")));
        add(&format!("ladder/minus/{}", d), format!(".dq {}1\n", "-".repeat(d)));
        add(&format!("ladder/not/{}", d), format!(".dq {}1\n", "!".repeat(d)));
        add(&format!("ladder/tilde/{}", d), format!(".dq {}1\n", "~".repeat(d)));
        add(&format!("ladder/func/{}", d.min(12000)), format!(".dq {}\n", ladder("low(", ")", d.min(12000), "1")));
        add(&format!("ladder/plus-chain/{}", d), format!(".dq 1{}\n", "+1".repeat(d)));
        add(&format!("ladder/instr-paren/{}", d), format!("ldi r16, {}\n", ladder("(", ")", d, "1")));
        add(&format!("ladder/if-paren/{}", d), format!(".if {}\nnop\n.endif\n", ladder("(", ")", d, "1")));
        add(&format!("ladder/equ-chain/{}", d.min(4000)), {
            let n = d.min(4000);
            let mut s = String::new();
            s.push_str(".equ e0 = 1\n");
            for i in 1..n {
                s.push_str(&format!(".equ e{} = e{} + 1\n", i, i - 1));
            }
            s.push_str(&format!(".dq e{}\n", n - 1));
            s
        });
        add(&format!("ladder/macro-arg-paren/{}", d.min(15000)), format!(".macro m\n.dq @0\n.endm\nm {}\n", ladder("(", ")", d.min(15000), "1")));
        add(&format!("ladder/unclosed-paren/{}", d), format!(".dq {}1\n", "(".repeat(d)));
        // ladders behind text that looks like the start of a comment or string to a naive scanner
        add(&format!("ladder/paren-after-semicolon-char-literal/{}", d), format!("ldi r16, ';'+{}\n", ladder("(", ")", d, "1")));
        add(&format!("ladder/paren-after-quote-char-literal/{}", d), format!(".dq '\"'+{}\n", ladder("(", ")", d, "1")));
        add(&format!("ladder/paren-after-slash-char-literals/{}", d), format!(".dq '/'+'/'+{}\n", ladder("(", ")", d, "1")));
        add(&format!("ladder/minus-after-string-with-semicolon/{}", d), format!(".db \"a;b\", {}1\n", "-".repeat(d)));
        // a ladder behind literals that end in, or hold, what other languages read as an escape or a quote
        for (pn, prefix) in [
            ("string-ending-in-backslash", ".db \"C:\\\", "),
            ("message-with-backslash-quote", ".message \"say \\\" "),
            ("string-holding-backslash-quote-and-another-string", ".db \"a\\\", \"b\", "),
            ("char-literal-backslash", ".db '\\', "),
            ("char-literal-quote-after-backslash-string", ".db \"\\\", '\"', "),
            ("string-with-doubled-quote", ".db \"a\"\"b\", "),
            ("string-ending-in-two-backslashes", ".db \"C:\\\\\", "),
            ("string-holding-comment-openers", ".db \"; // /*\", "),
            ("unterminated-char-literal", ".db ', "),
            ("dw-string-ending-in-backslash", ".dw \"x\\\", "),
        ] {
            add(&format!("ladder/paren-after-{}/{}", pn, d), format!("{}{}\n", prefix, ladder("(", ")", d, "1")));
        }
        add(&format!("ladder/paren-after-apostrophe-in-string/{}", d), format!(".db \"it's\", {}\n", ladder("(", ")", d, "1")));
        add(&format!("ladder/paren-in-unselected-branch-after-char-literal/{}", d), format!(".if 0\nldi r16, ';'+{}\n.endif\n", ladder("(", ")", d, "1")));
    }
    // absurd sizes and origins
    for (n, t) in [
        ("org-huge-cseg", ".org 0x3fffffff\nnop\n"),
        ("org-4g-cseg", ".org 4294967295\nnop\n"),
        ("org-beyond-u32", ".org 99999999999\nnop\n"),
        ("org-negative", ".org -1\nnop\n"),
        ("org-at-default-limit", ".org 4194303\nnop\n"),
        ("org-just-over-default-limit", ".org 4194304\nnop\n"),
        ("org-huge-eseg", ".eseg\n.org 2000000000\n.db 1\n"),
        ("org-huge-dseg", ".dseg\n.org 4000000000\n.byte 1\n"),
        ("byte-huge-eseg", ".eseg\n.byte 2000000000\n"),
        ("byte-4g-eseg", ".eseg\n.byte 4294967295\n"),
        ("byte-huge-dseg", ".dseg\n.byte 4000000000\n"),
        ("byte-beyond-u32-dseg", ".dseg\n.byte 99999999999\n.byte 1\n"),
        ("byte-negative-eseg", ".eseg\n.byte -1\n"),
        ("byte-negative-dseg", ".dseg\n.byte -5\n.byte 3\n"),
        ("byte-i64max-eseg", ".eseg\n.byte 9223372036854775807\n"),
        ("byte-twice-wraps-u32", ".dseg\n.byte 4294967295\n.byte 4294967295\n"),
        // sizes whose low 32 bits look harmless
        ("byte-2pow32-eseg", ".eseg\n.byte 4294967296\n"),
        ("byte-2pow32-plus-8-eseg", ".eseg\n.byte 0x100000008\n.db 1\n"),
        ("byte-2pow33-plus-16-eseg", ".eseg\n.byte 0x200000010\n"),
        ("byte-2pow32-dseg", ".dseg\n.byte 4294967296\n.byte 1\n"),
        ("byte-2pow40-plus-1-dseg", ".dseg\n.byte 0x10000000001\n"),
        ("org-2pow32-plus-2-cseg", ".org 4294967298\nnop\n"),
        ("org-2pow32-plus-2-eseg", ".eseg\n.org 0x100000002\n.db 1\n"),
        ("org-2pow32-plus-0x70-dseg", ".dseg\n.org 0x100000070\n.byte 1\n"),
        ("org-then-byte-wraps", ".dseg\n.org 4294967290\n.byte 100\n"),
        ("org-cseg-wraps-with-code", ".org 4294967295\nnop\nnop\n"),
        ("org-on-small-device", ".device ATtiny13\n.org 0x3fffffff\nnop\n"),
        ("byte-on-small-device", ".device ATtiny13\n.eseg\n.byte 2000000000\n"),
        ("db-after-huge-org-eseg", ".eseg\n.org 65535\n.db 1\n"),
        ("device-then-device", ".device ATmega8\n.device ATmega8\n"),
    ] {
        add(&format!("size/{}", n), t.to_string());
    }
    // long things
    add("long/line-64k-comment", format!("; {}\n", "x".repeat(65000)));
    add("long/identifier-60k", format!("{}: nop\n", "a".repeat(60000)));
    add("long/string-60k", format!(".db \"{}\"\n", "s".repeat(60000)));
    add("long/db-10000-operands", format!(".db {}\n", vec!["1"; 10000].join(",")));
    add("long/db-10000-operands-spaces", format!(".db {}\n", vec!["1"; 8].join(" ")));
    add("long/labels-8000", (0..8000).map(|i| format!("l{}:\n", i)).collect::<String>());
    add("long/nops-16000", "nop\n".repeat(16000));
    add("long/macro-1000-calls", format!(".macro m\nnop\nnop\n.endm\n{}", "m\n".repeat(1000)));
    add("long/macro-nested-depth-200", {
        let mut s = String::from(".macro m0\nnop\n.endm\n");
        for i in 1..200 {
            s.push_str(&format!(".macro m{}\nm{}\n.endm\n", i, i - 1));
        }
        s.push_str("m199\n");
        s
    });
    add("long/macro-doubling-depth-14", {
        let mut s = String::from(".macro m0\nnop\n.endm\n");
        for i in 1..15 {
            s.push_str(&format!(".macro m{}\nm{}\nm{}\n.endm\n", i, i - 1, i - 1));
        }
        s.push_str("m14\n");
        s
    });
    add("long/macro-doubling-depth-40", {
        let mut s = String::from(".macro m0\nnop\n.endm\n");
        for i in 1..41 {
            s.push_str(&format!(".macro m{}\nm{}\nm{}\n.endm\n", i, i - 1, i - 1));
        }
        s.push_str("m40\n");
        s
    });
    add("long/macro-arg-blowup", ".macro m\nm @0@0\n.endm\nm 1\n".into());
    // work that no step hook sees: a long macro body called with very many arguments (the allocator-call
    // budget is the deterministic measure for it)
    for (lines, args) in [(4000usize, 6000usize), (8000, 8001)] {
        if lines == 8000 && ctx.tier != Tier::Thorough {
            continue;
        }
        for (shape, body_line, arg) in [("plain", "nop", "1"), ("param", "ldi r16, @0", "1"), ("data", ".db @1, @0", "2")] {
            if lines * (body_line.len() + 1) + args * (arg.len() + 1) + 32 > 65536 {
                continue;
            }
            let mut s = String::from(".macro m\n");
            for _ in 0..lines {
                s.push_str(body_line);
                s.push('\n');
            }
            s.push_str(".endm\nm ");
            s.push_str(&vec![arg; args].join(","));
            s.push('\n');
            let _ = shape; // one construct: the shapes differ only in what the body lines do with the arguments
            add("long/macro-body-x-arguments", s);
        }
    }
    add("odd/nul-bytes", "nop\0nop\n\0\n".into());
    add("odd/only-cr", "nop\rnop\rnop\r".into());
    add("odd/bom", "\u{feff}nop\n".into());
    add("odd/non-ascii-everywhere", "ldi r16, ü\n.db \"ü\", 'ü'\nü: nop\n.equ ü = 1\n".into());
    add("odd/multibyte-char-literal", ".db '日'\n.db '\u{1F600}'\n".into());
    add("odd/empty", String::new());
    add("odd/newlines-only", "\n".repeat(60000));
    add("odd/def-non-register", ".def a = b\n.def c = 5\n.def d = r99\n.def e = low(1)\n".into());
    add("odd/undef-nothing", ".undef\n.undef 5\n.undef r1\n".into());
    add("odd/pragma-forms", "#pragma AVRPART CORE NEW_INSTRUCTIONS lpm rd,z+\n#pragma a b c d e f g h\n.pragma\n".into());
    add("odd/include-empty-name", ".include \"\"\n".into());
    add("odd/include-directory", ".include \"/\"\n".into());
    add("odd/include-dev-null", ".include \"/dev/null\"\nnop\n".into());
    // what a path names need not be a file with an end
    add("odd/include-dev-zero", ".include \"/dev/zero\"\nnop\n".into());
    add("odd/include-dev-full", ".include \"/dev/full\"\nnop\n".into());
    add("odd/include-dev-urandom", ".include \"/dev/urandom\"\nnop\n".into());
    add("odd/include-proc-self-mem", ".include \"/proc/self/mem\"\nnop\n".into());
    add("odd/include-own-binary", ".include \"/proc/self/exe\"\nnop\n".into());
    add("odd/includepath-weird", ".includepath \"\"\n.includepath \"/\"\n.include \"nosuch\"\n".into());
    // build_file: a file including itself / a cycle of two
    let _ = std::fs::create_dir_all(scratch);
    let selfinc = scratch.join("selfinc.asm");
    let _ = std::fs::write(&selfinc, ".include \"selfinc.asm\"\nnop\n");
    let ca = scratch.join("cyc_a.asm");
    let cb = scratch.join("cyc_b.inc");
    let _ = std::fs::write(&ca, "nop\n.include \"cyc_b.inc\"\n");
    let _ = std::fs::write(&cb, "nop\n.include \"cyc_a.asm\"\n");
    v.push(Case { kind: b'F', text: selfinc.to_string_lossy().as_bytes().to_vec(), construct: "struct/include/self".into(), family: "structured" });
    v.push(Case { kind: b'F', text: ca.to_string_lossy().as_bytes().to_vec(), construct: "struct/include/cycle-2".into(), family: "structured" });
    v.push(Case { kind: b'F', text: scratch.join("does-not-exist.asm").to_string_lossy().as_bytes().to_vec(), construct: "struct/include/main-missing".into(), family: "structured" });
    v.push(Case { kind: b'F', text: scratch.to_string_lossy().as_bytes().to_vec(), construct: "struct/include/main-is-directory".into(), family: "structured" });
    let _ = ctx;
    v
}

const MUT_TOKENS: [&str; 30] = [
    ".if", ".endif", ".else", ".elif 1", ".macro x", ".endm", ".org 0x3fffffff", ".byte 2000000000", "(", ")", "\"", "'", ",", "=", "@0", "@9", ";", "/*", "*/", "//", "r32", "-", "~", "!", "<<64", "/0", ".equ a = a", ".include \"x\"",
    ".exit", ".device ATtiny10",
];

fn mutate(base: &str, rng: &mut Rng) -> (String, &'static str) {
    let mut b: Vec<u8> = base.as_bytes().to_vec();
    if b.is_empty() {
        return (String::new(), "empty");
    }
    let op = match rng.below(11) {
        0 => {
            let a = rng.usize(b.len());
            let n = 1 + rng.usize((b.len() - a).min(20));
            b.drain(a..a + n);
            "delete-bytes"
        }
        1 => {
            let a = rng.usize(b.len());
            let n = 1 + rng.usize((b.len() - a).min(40));
            let chunk: Vec<u8> = b[a..a + n].to_vec();
            let times = 1 + rng.usize(4);
            for _ in 0..times {
                let at = rng.usize(b.len() + 1);
                for (k, c) in chunk.iter().enumerate() {
                    b.insert(at + k, *c);
                }
            }
            "duplicate-bytes"
        }
        2 => {
            let a = rng.usize(b.len());
            let c = rng.usize(b.len());
            b.swap(a, c);
            "swap-bytes"
        }
        3 | 4 => {
            let t = rng.pick(&MUT_TOKENS).as_bytes().to_vec();
            let at = rng.usize(b.len() + 1);
            for (k, c) in t.iter().enumerate() {
                b.insert(at + k, *c);
            }
            "splice-token"
        }
        5 => {
            let at = rng.usize(b.len());
            b.truncate(at);
            "truncate"
        }
        6 => {
            let at = rng.usize(b.len());
            b[at] = *rng.pick(&[b'(', b')', b'"', b'\'', b',', b'.', b'@', b':', b'=', b'-', b'\n', b' ', b'0', b'9', b'r', 0u8, 0xff]);
            "replace-byte"
        }
        7 => {
            // duplicate a whole line several times
            let lines: Vec<&[u8]> = b.split(|c| *c == b'\n').collect();
            let l = rng.pick(&lines).to_vec();
            let mut out = b.clone();
            for _ in 0..1 + rng.usize(50) {
                out.extend_from_slice(&l);
                out.push(b'\n');
            }
            b = out;
            "duplicate-line"
        }
        8 => {
            // delete a whole line
            let mut lines: Vec<Vec<u8>> = b.split(|c| *c == b'\n').map(|l| l.to_vec()).collect();
            let k = rng.usize(lines.len());
            lines.remove(k);
            b = lines.join(&b'\n');
            "delete-line"
        }
        9 => {
            // join two lines
            if let Some(p) = b.iter().position(|c| *c == b'\n') {
                let mut k = p;
                for _ in 0..rng.usize(20) {
                    if let Some(q) = b[k + 1..].iter().position(|c| *c == b'\n') {
                        k = k + 1 + q;
                    }
                }
                b[k] = b' ';
            }
            "join-lines"
        }
        _ => {
            // several token splices
            for _ in 0..2 + rng.usize(6) {
                let t = rng.pick(&MUT_TOKENS).as_bytes().to_vec();
                let at = rng.usize(b.len() + 1);
                for (k, c) in t.iter().enumerate() {
                    b.insert(at + k, *c);
                }
            }
            "splice-many"
        }
    };
    b.truncate(65536);
    (String::from_utf8_lossy(&b).into_owned(), op)
}

fn mutation_cases(ctx: &Ctx, n: u64) -> Vec<Case> {
    let mut v = Vec::with_capacity(n as usize);
    for i in 0..n {
        let mut rng = Rng::for_case(ctx.seed, 0xC16_3, i);
        let nodes = match i % 5 {
            0 => c02::gen_program(&mut rng, 40).nodes,
            1 => c06gen(&mut rng),
            2 => c08gen(&mut rng),
            3 => c09::gen(&mut rng).nodes,
            _ => c10::gen(&mut rng).nodes,
        };
        let base = if rng.chance(1, 2) { ir::print_canonical(&nodes) } else { ir::print(&nodes, &mut Style::random(Rng::for_case(ctx.seed, 0xC16_4, i))) };
        let (mut text, mut op) = mutate(&base, &mut rng);
        // sometimes stack a second mutation
        if rng.chance(1, 3) {
            let (t2, op2) = mutate(&text, &mut rng);
            text = t2;
            op = op2;
        }
        v.push(Case { kind: b'S', text: text.into_bytes(), construct: format!("mutated/{}", op), family: "mutation" });
    }
    v
}

/// Allocator calls a build may make: proportional to what the step hooks and the source length account
/// for. Largest ratio seen on the unchanged tree over the whole workload: 26 calls per (step + byte).
const CHURN_PER_UNIT: u64 = 400;
const CHURN_FREE: u64 = 2_000_000;
fn is_churn(allocs: u64, steps: u64, len: usize) -> bool {
    allocs > CHURN_FREE + CHURN_PER_UNIT * (steps + len as u64)
}

struct Stats {
    outcomes: BTreeMap<String, u64>,
    templates: BTreeMap<String, u64>,
    max_steps: u64,
    max_steps_per_byte: f64,
    max_depth: u32,
    max_peak: u64,
    max_allocs: u64,
    max_allocs_case: String,
    max_allocs_per_unit: f64,
    max_apu_case: String,
    max_micros: u64,
    slowest: String,
}

fn template(msg: &str) -> String {
    // normalised error template: digits -> #, identifiers in quotes dropped, first 48 chars
    let mut s = String::new();
    let mut last_hash = false;
    for c in msg.chars() {
        if c.is_ascii_digit() {
            if !last_hash {
                s.push('#');
            }
            last_hash = true;
        } else {
            last_hash = false;
            s.push(c);
        }
        if s.len() >= 48 {
            break;
        }
    }
    s
}

fn run_cases(ctx: &Ctx, cases: &[Case], stats: &Mutex<Stats>, confirm: bool) {
    let shards = fw::threads();
    worker::supervise(cases, shards, 0, &[], |idx, v| {
        let c = &cases[idx];
        ctx.eval(1);
        ctx.count(&format!("cases:{}", c.family), 1);
        let text_preview = || fw::clip(&String::from_utf8_lossy(&c.text), 300);
        let replay = |extra: Value| json!({"kind": (c.kind as char).to_string(), "text": String::from_utf8_lossy(&c.text), "construct": c.construct, "detail": extra});
        match v {
            Verdict::Done { kind, steps, depth, peak, micros, msg, allocs, .. } => {
                let mut st = stats.lock().unwrap();
                *st.outcomes.entry(kind.clone()).or_insert(0) += 1;
                if kind == "err" {
                    *st.templates.entry(template(msg)).or_insert(0) += 1;
                }
                st.max_steps = st.max_steps.max(*steps);
                let spb = *steps as f64 / (c.text.len().max(1) as f64);
                if spb > st.max_steps_per_byte && c.text.len() > 64 {
                    st.max_steps_per_byte = spb;
                }
                st.max_depth = st.max_depth.max(*depth);
                st.max_peak = st.max_peak.max(*peak);
                if *allocs > st.max_allocs {
                    st.max_allocs = *allocs;
                    st.max_allocs_case = format!("{} ({} bytes, {} steps)", c.construct, c.text.len(), steps);
                }
                let apu = *allocs as f64 / ((*steps + c.text.len() as u64).max(1) as f64);
                if apu > st.max_allocs_per_unit && *allocs > 100_000 {
                    st.max_allocs_per_unit = apu;
                    st.max_apu_case = format!("{} ({} bytes, {} steps, {} calls)", c.construct, c.text.len(), steps, allocs);
                }
                if *micros > st.max_micros {
                    st.max_micros = *micros;
                    st.slowest = c.construct.clone();
                }
                drop(st);
                if is_churn(*allocs, *steps, c.text.len()) {
                    report_abnormal(
                        ctx,
                        c,
                        "churn",
                        format!("{} allocator calls for {} bytes of source and {} hook steps (allowed: {} + {} per byte or step) on `{}`", allocs, c.text.len(), steps, CHURN_FREE, CHURN_PER_UNIT, text_preview()),
                        replay(json!({"allocator_calls": allocs, "steps": steps})),
                        confirm,
                    );
                }
                if kind == "panic" {
                    ctx.violation(format!("crash/panic/{}", c.construct), format!("`{}` panicked: {}", text_preview(), fw::clip(msg, 160)), replay(json!({"panic": msg})));
                }
            }
            Verdict::Hang { steps } => report_abnormal(ctx, c, "hang", format!("step budget exceeded ({} hook steps) on `{}`", steps, text_preview()), replay(json!({"steps": steps})), confirm),
            Verdict::Churn { calls } => report_abnormal(ctx, c, "churn", format!("allocator-call budget exceeded ({} calls for {} bytes of source) on `{}`", calls, c.text.len(), text_preview()), replay(json!({"calls": calls})), confirm),
            Verdict::Memory { live } => report_abnormal(ctx, c, "memory", format!("live heap reached {} MiB (cap {} MiB) on `{}`", live >> 20, worker::HEAP_CAP >> 20, text_preview()), replay(json!({"live": live})), confirm),
            Verdict::Crash { how, stderr } => {
                let kind = if stderr.contains("overflowed its stack") {
                    "stack"
                } else if stderr.contains("memory allocation of") {
                    "alloc-abort"
                } else {
                    "abort"
                };
                report_abnormal(ctx, c, kind, format!("worker died ({}; {}) on `{}`", how, fw::clip(stderr.trim(), 120), text_preview()), replay(json!({"how": how, "stderr": stderr})), confirm)
            }
            Verdict::Inconclusive(w) => ctx.inconclusive(format!("{}: {}", c.construct, w)),
        }
    });
}

/// a case flagged hang / memory / crash is re-run alone in a fresh worker before it is reported
fn report_abnormal(ctx: &Ctx, c: &Case, kind: &str, what: String, replay: Value, confirm: bool) {
    // a listed open finding has been reproduced alone before; re-observing it once is enough
    let sig = format!("crash/{}/{}", kind, c.construct);
    let listed = fw::load_findings().iter().any(|f| f.status == "open" && f.property == ctx.prop && f.sig == sig);
    if confirm && !listed {
        let again = Mutex::new(None);
        worker::supervise(std::slice::from_ref(c), 1, 1, &[], |_, v| {
            *again.lock().unwrap() = Some(v.clone());
        });
        let a = again.lock().unwrap().clone();
        let same = match (&a, kind) {
            (Some(Verdict::Hang { .. }), "hang") => true,
            (Some(Verdict::Memory { .. }), "memory") => true,
            (Some(Verdict::Churn { .. }), "churn") => true,
            (Some(Verdict::Done { allocs, steps, .. }), "churn") => is_churn(*allocs, *steps, c.text.len()),
            (Some(Verdict::Crash { .. }), "stack" | "abort" | "alloc-abort") => true,
            _ => false,
        };
        if !same {
            ctx.inconclusive(format!("{}: {} not reproduced alone ({:?})", c.construct, kind, a));
            return;
        }
    }
    ctx.violation(format!("crash/{}/{}", kind, c.construct), what, replay);
}

pub fn run(ctx: &Ctx) -> i32 {
    let scratch = fw::verif_root().join("build").join(format!("scratch-c16-{}", std::process::id()));
    let stats = Mutex::new(Stats { outcomes: BTreeMap::new(), templates: BTreeMap::new(), max_steps: 0, max_steps_per_byte: 0.0, max_depth: 0, max_peak: 0, max_allocs: 0, max_allocs_case: String::new(), max_allocs_per_unit: 0.0, max_apu_case: String::new(), max_micros: 0, slowest: String::new() });
    let dict = dictionary_cases(ctx);
    ctx.put("dictionary_cases", json!(dict.len()));
    ctx.put("dictionary_heads", json!(heads().len()));
    ctx.put("dictionary_operands", json!(OPERANDS.len()));
    for c in dict.iter().step_by(dict.len() / 5 + 1) {
        ctx.sample(json!({"family": c.family, "construct": c.construct, "text": String::from_utf8_lossy(&c.text)}));
    }
    ctx.distinct_extra.fetch_add(dict.len() as u64, std::sync::atomic::Ordering::Relaxed);
    let t0 = ctx.elapsed();
    run_cases(ctx, &dict, &stats, true);
    drop(dict);
    let t1 = ctx.elapsed();
    let structured = structured_cases(ctx, &scratch);
    ctx.put("structured_cases", json!(structured.len()));
    for c in structured.iter().step_by(structured.len() / 4 + 1) {
        ctx.sample(json!({"family": c.family, "construct": c.construct, "text": fw::clip(&String::from_utf8_lossy(&c.text), 120)}));
    }
    for c in &structured {
        ctx.distinct(fw::hash_str(&c.construct));
    }
    run_cases(ctx, &structured, &stats, true);
    let t2 = ctx.elapsed();
    let nmut = ctx.tier.pick(20_000u64, 5_000_000u64);
    let mutated = mutation_cases(ctx, nmut);
    for c in mutated.iter().take(3) {
        ctx.sample(json!({"family": c.family, "construct": c.construct, "text": fw::clip(&String::from_utf8_lossy(&c.text), 200)}));
    }
    ctx.distinct_many(mutated.iter().map(|c| fw::hash_bytes(&c.text)));
    let t3 = ctx.elapsed();
    run_cases(ctx, &mutated, &stats, true);
    let t4 = ctx.elapsed();
    ctx.put("phase_seconds", json!({"generate_dictionary": t0, "run_dictionary": t1 - t0, "structured": t2 - t1, "generate_mutations": t3 - t2, "run_mutations": t4 - t3}));
    let _ = std::fs::remove_dir_all(&scratch);
    let st = stats.lock().unwrap();
    ctx.put("outcome_histogram", json!(st.outcomes));
    ctx.put("distinct_error_templates", json!(st.templates.len()));
    let mut top: Vec<(&String, &u64)> = st.templates.iter().collect();
    top.sort_by_key(|(_, n)| std::cmp::Reverse(**n));
    ctx.put("most_frequent_error_templates", json!(top.iter().take(25).map(|(k, n)| format!("{} x{}", k, n)).collect::<Vec<_>>()));
    ctx.put("max_hook_steps", json!(st.max_steps));
    ctx.put("max_hook_steps_per_input_byte", json!(st.max_steps_per_byte));
    ctx.put("max_expression_depth", json!(st.max_depth));
    ctx.put("max_peak_heap_bytes", json!(st.max_peak));
    ctx.put("max_allocator_calls", json!({"calls": st.max_allocs, "case": st.max_allocs_case}));
    ctx.put("max_allocator_calls_per_step_or_byte", json!({"ratio": st.max_allocs_per_unit, "case": st.max_apu_case}));
    ctx.put("max_build_micros", json!(st.max_micros));
    ctx.put("slowest_construct", json!(st.slowest));
    ctx.put("limits", json!({"step_budget": worker::STEP_BUDGET, "heap_cap_bytes": worker::HEAP_CAP, "stack": "main thread of the worker (8 MiB default)", "wall_backstop_s": worker::WALL_BACKSTOP_S}));
    drop(st);
    if ctx.tier == Tier::Thorough {
        crate::props::c16legs::memcheck_leg(ctx);
        crate::props::c16legs::miri_leg(ctx, "c16");
    }
    ctx.exhaustive.store(true, std::sync::atomic::Ordering::Relaxed);
    fw::finish(
        ctx,
        "isolated worker processes, one build at a time: (i) every one-line program <head> <operands> for 158 heads (all directives incl. unsupported/unknown ones, every mnemonic, a macro call, labelled forms) x operand tuples of length 0-2 over a 50-entry dictionary of valid, boundary and hostile operand texts, comma / `=` / blank separated, also inside .dseg/.eseg for data directives (complete), length 3 sampled (quick) or complete (thorough); (ii) ~290 structure-aware hostile programs (unbalanced and deeply nested conditionals/macros, self- and mutually recursive macros and .equ, expression ladders up to depth 30000, absurd .org/.byte operands, 60 KB tokens, odd bytes, self-including files); (iii) byte- and token-level mutations of valid generated programs; exhaustive refers to (i) lengths 0-2; distinct_nontrivial = dictionary programs + distinct structured constructs + distinct mutated texts",
        &[
            "\"promptly\" is restated as bounded progress: <= 5e7 hook steps for inputs <= 64 KiB; memory \"out of proportion\" as > 256 MiB live heap (32 x the 8 MiB default flash)",
            "stack = 8 MiB main-thread default of the worker process; a wall-clock backstop firing alone is inconclusive",
        ],
    )
}

pub fn replay(ctx: &Ctx, case: &Value) -> i32 {
    let kind = case["kind"].as_str().and_then(|s| s.bytes().next()).unwrap_or(b'S');
    let c = Case { kind, text: case["text"].as_str().unwrap_or("").as_bytes().to_vec(), construct: case["construct"].as_str().unwrap_or("replay").to_string(), family: "replay" };
    let stats = Mutex::new(Stats { outcomes: BTreeMap::new(), templates: BTreeMap::new(), max_steps: 0, max_steps_per_byte: 0.0, max_depth: 0, max_peak: 0, max_allocs: 0, max_allocs_case: String::new(), max_allocs_per_unit: 0.0, max_apu_case: String::new(), max_micros: 0, slowest: String::new() });
    run_cases(ctx, std::slice::from_ref(&c), &stats, false);
    ctx.distinct(1);
    ctx.distinct(2);
    fw::finish(ctx, "replay", &[])
}
