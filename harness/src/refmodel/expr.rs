//! Reference model of constant expressions: trees, a minimal-parenthesis renderer driven by the
//! documented precedence table, and an evaluator on i128 that reports overflow / division by
//! zero when the exact result leaves i64.

use crate::fw::Rng;
use crate::gen::spell;
use std::collections::HashMap;

#[derive(Clone, Copy, PartialEq, Eq, Debug, Hash)]
pub enum Bin {
    Mul,
    Div,
    Rem,
    Add,
    Sub,
    Shl,
    Shr,
    Lt,
    Le,
    Gt,
    Ge,
    Eq,
    Ne,
    And,
    Xor,
    Or,
    LAnd,
    LOr,
}

pub const BINOPS: [Bin; 18] = [
    Bin::Mul, Bin::Div, Bin::Rem, Bin::Add, Bin::Sub, Bin::Shl, Bin::Shr, Bin::Lt, Bin::Le, Bin::Gt, Bin::Ge, Bin::Eq, Bin::Ne, Bin::And, Bin::Xor,
    Bin::Or, Bin::LAnd, Bin::LOr,
];

impl Bin {
    pub fn text(self) -> &'static str {
        match self {
            Bin::Mul => "*",
            Bin::Div => "/",
            Bin::Rem => "%",
            Bin::Add => "+",
            Bin::Sub => "-",
            Bin::Shl => "<<",
            Bin::Shr => ">>",
            Bin::Lt => "<",
            Bin::Le => "<=",
            Bin::Gt => ">",
            Bin::Ge => ">=",
            Bin::Eq => "==",
            Bin::Ne => "!=",
            Bin::And => "&",
            Bin::Xor => "^",
            Bin::Or => "|",
            Bin::LAnd => "&&",
            Bin::LOr => "||",
        }
    }
    /// documented precedence (higher binds tighter)
    pub fn prec(self) -> u8 {
        match self {
            Bin::Mul | Bin::Div | Bin::Rem => 13,
            Bin::Add | Bin::Sub => 12,
            Bin::Shl | Bin::Shr => 11,
            Bin::Lt | Bin::Le | Bin::Gt | Bin::Ge => 10,
            Bin::Eq | Bin::Ne => 9,
            Bin::And => 8,
            Bin::Xor => 7,
            Bin::Or => 6,
            Bin::LAnd => 5,
            Bin::LOr => 4,
        }
    }
}

#[derive(Clone, Copy, PartialEq, Eq, Debug, Hash)]
pub enum Un {
    Neg,
    Not,
    Com,
}

pub const UNOPS: [Un; 3] = [Un::Neg, Un::Not, Un::Com];

impl Un {
    pub fn text(self) -> &'static str {
        match self {
            Un::Neg => "-",
            Un::Not => "!",
            Un::Com => "~",
        }
    }
}

pub const FUNCS: [&str; 8] = ["low", "high", "byte2", "byte3", "byte4", "lwrd", "hwrd", "exp2"];

#[derive(Clone, PartialEq, Eq, Debug)]
pub enum E {
    /// non-negative literal and how it is spelled: 0 dec, 1 0x (lower), 2 $ (upper), 3 0b, 4 octal, 5 char, 6 0x (upper), 7 $ (lower)
    Lit(i64, u8),
    Sym(String),
    Pc,
    Un(Un, Box<E>),
    Bin(Bin, Box<E>, Box<E>),
    Func(&'static str, Box<E>),
    /// explicit (redundant) parentheses
    Paren(Box<E>),
}

impl E {
    pub fn lit(v: i64) -> E {
        if v >= 0 {
            E::Lit(v, 0)
        } else if v == i64::MIN {
            E::Paren(Box::new(E::Bin(Bin::Sub, Box::new(E::Un(Un::Neg, Box::new(E::Lit(i64::MAX, 0)))), Box::new(E::Lit(1, 0)))))
        } else {
            E::Un(Un::Neg, Box::new(E::Lit(-v, 0)))
        }
    }
    pub fn bin(op: Bin, l: E, r: E) -> E {
        E::Bin(op, Box::new(l), Box::new(r))
    }
    pub fn un(op: Un, e: E) -> E {
        E::Un(op, Box::new(e))
    }
    fn prec(&self) -> u8 {
        match self {
            E::Bin(op, _, _) => op.prec(),
            E::Un(_, _) => 14,
            _ => 15,
        }
    }
    pub fn nodes(&self) -> usize {
        match self {
            E::Un(_, e) | E::Func(_, e) | E::Paren(e) => 1 + e.nodes(),
            E::Bin(_, l, r) => 1 + l.nodes() + r.nodes(),
            _ => 1,
        }
    }
    pub fn root_name(&self) -> String {
        match self {
            E::Lit(_, k) => format!("lit{}", k),
            E::Sym(_) => "sym".into(),
            E::Pc => "pc".into(),
            E::Un(u, _) => format!("un{}", u.text()),
            E::Bin(b, _, _) => b.text().to_string(),
            E::Func(f, _) => f.to_string(),
            E::Paren(_) => "paren".into(),
        }
    }
    pub fn children(&self) -> Vec<&E> {
        match self {
            E::Un(_, e) | E::Func(_, e) | E::Paren(e) => vec![e],
            E::Bin(_, l, r) => vec![l, r],
            _ => vec![],
        }
    }
}

/// Rendering style: only spellings the language documents as equivalent.
pub struct Style<'a> {
    pub rng: Option<&'a mut Rng>,
    /// also put optional blanks between a unary operator and its operand
    pub unary_blanks: bool,
}

impl<'a> Style<'a> {
    pub fn plain() -> Style<'a> {
        Style { rng: None, unary_blanks: false }
    }
    pub fn with(rng: &'a mut Rng) -> Style<'a> {
        Style { rng: Some(rng), unary_blanks: false }
    }
}

fn sp(st: &mut Style) -> &'static str {
    match &mut st.rng {
        Some(r) => spell::blanks(r),
        None => "",
    }
}

pub fn lit_text(v: i64, kind: u8) -> String {
    match kind {
        1 => format!("0x{:x}", v),
        2 => format!("${:X}", v),
        3 => format!("0b{:b}", v),
        4 => format!("0{:o}", v),
        // a character literal stands for its code point
        5 => match char::from_u32(v as u32) {
            Some(c) if v >= 0x20 && v <= 0x10ffff && c != '\'' => format!("'{}'", c),
            _ => format!("{}", v),
        },
        6 => format!("0x{:X}", v),
        7 => format!("${:x}", v),
        _ => format!("{}", v),
    }
}

/// Render with only the parentheses the precedence table requires (plus explicit Paren nodes).
pub fn render(e: &E, st: &mut Style) -> String {
    match e {
        E::Lit(v, k) => lit_text(*v, *k),
        E::Sym(s) => s.clone(),
        E::Pc => match &mut st.rng {
            Some(r) => spell::case("pc", r),
            None => "pc".to_string(),
        },
        E::Paren(x) => format!("({}{}{})", sp(st), render(x, st), sp(st)),
        E::Func(f, x) => {
            let name = match &mut st.rng {
                Some(r) => spell::case(f, r),
                None => f.to_string(),
            };
            format!("{}{}({}{}{})", name, sp(st), sp(st), render(x, st), sp(st))
        }
        E::Un(u, x) => {
            let inner = render(x, st);
            let b = if st.unary_blanks { sp(st) } else { "" };
            if x.prec() < 14 {
                format!("{}{}({})", u.text(), b, inner)
            } else {
                format!("{}{}{}", u.text(), b, inner)
            }
        }
        E::Bin(op, l, r) => {
            let p = op.prec();
            let ls = render(l, st);
            let rs = render(r, st);
            let ls = if l.prec() < p { format!("({})", ls) } else { ls };
            let rs = if r.prec() <= p { format!("({})", rs) } else { rs };
            // `a<-b` style adjacency is fine for the grammar; `a- -b` needs no blank either, but a
            // blank is always legal around a binary operator
            let (a, b) = (sp(st), sp(st));
            format!("{}{}{}{}{}", ls, a, op.text(), b, rs)
        }
    }
}

#[derive(Clone, Copy, PartialEq, Eq, Debug)]
pub enum Fail {
    Overflow,
    DivZero,
    Undefined,
    NegativeShift,
}

/// What the oracle accepts for one expression
#[derive(Clone, PartialEq, Eq, Debug)]
pub enum Expected {
    /// exactly this value
    Value(i64),
    /// must fail the build
    Fail(Fail),
    /// statement is silent: the build may fail, or yield one of these values
    ErrOr(Vec<i64>),
    /// one of these values (no error allowed)
    OneOf(Vec<i64>),
}

pub type Env = HashMap<String, i64>;

fn fit(v: i128) -> Result<i64, Fail> {
    if v < i64::MIN as i128 || v > i64::MAX as i128 {
        Err(Fail::Overflow)
    } else {
        Ok(v as i64)
    }
}

/// Evaluate; the result is the *set* of acceptable outcomes. Sub-expressions whose own outcome
/// is not a single value make the whole expression `None` (generators avoid nesting on top of them).
pub fn eval(e: &E, env: &Env, pc: i64) -> Option<Expected> {
    use Expected::*;
    let one = |x: &E| -> Option<Result<i64, self::Fail>> {
        match eval(x, env, pc)? {
            Value(v) => Some(Ok(v)),
            Fail(f) => Some(Err(f)),
            _ => None,
        }
    };
    Some(match e {
        E::Lit(v, _) => Value(*v),
        E::Sym(s) => match env.get(&s.to_lowercase()) {
            Some(v) => Value(*v),
            None => Fail(self::Fail::Undefined),
        },
        E::Pc => Value(pc),
        E::Paren(x) => return eval(x, env, pc),
        E::Un(u, x) => match one(x)? {
            Err(f) => Fail(f),
            Ok(v) => match u {
                Un::Neg => match fit(-(v as i128)) {
                    Ok(r) => Value(r),
                    Err(f) => Fail(f),
                },
                Un::Not => Value((v == 0) as i64),
                Un::Com => Value((-(v as i128) - 1) as i64), // ~x = -x - 1
            },
        },
        E::Func(f, x) => match one(x)? {
            Err(fl) => Fail(fl),
            Ok(v) => {
                let u = v as u64;
                match *f {
                    "low" => Value((u & 0xff) as i64),
                    "high" | "byte2" => Value(((u >> 8) & 0xff) as i64),
                    "byte3" => Value(((u >> 16) & 0xff) as i64),
                    "byte4" => Value(((u >> 24) & 0xff) as i64),
                    "lwrd" => Value((u & 0xffff) as i64),
                    "hwrd" => Value(((u >> 16) & 0xffff) as i64),
                    "exp2" => {
                        if v < 0 {
                            Fail(self::Fail::NegativeShift)
                        } else if v <= 62 {
                            Value(1i64 << v)
                        } else if v == 63 {
                            ErrOr(vec![i64::MIN])
                        } else {
                            ErrOr(vec![0])
                        }
                    }
                    _ => return None,
                }
            }
        },
        E::Bin(op, l, r) => {
            let (a, b) = match (one(l)?, one(r)?) {
                (Err(f), _) => return Some(Fail(f)),
                (_, Err(f)) => return Some(Fail(f)),
                (Ok(a), Ok(b)) => (a, b),
            };
            let (x, y) = (a as i128, b as i128);
            let val = |r: Result<i64, self::Fail>| match r {
                Ok(v) => Value(v),
                Err(f) => Fail(f),
            };
            match op {
                Bin::Add => val(fit(x + y)),
                Bin::Sub => val(fit(x - y)),
                Bin::Mul => val(fit(x * y)),
                Bin::Div => {
                    if b == 0 {
                        Fail(self::Fail::DivZero)
                    } else {
                        val(fit(x / y))
                    }
                }
                Bin::Rem => {
                    if b == 0 {
                        Fail(self::Fail::DivZero)
                    } else if a == i64::MIN && b == -1 {
                        // mathematically 0; two's-complement hardware traps: statement silent
                        ErrOr(vec![0])
                    } else {
                        Value((x % y) as i64)
                    }
                }
                Bin::And => Value(a & b),
                Bin::Or => Value(a | b),
                Bin::Xor => Value(a ^ b),
                Bin::Shl => {
                    if b < 0 {
                        Fail(self::Fail::NegativeShift)
                    } else if b >= 64 {
                        ErrOr(vec![0]) // low 64 bits of a * 2^b
                    } else {
                        let exact = x << b;
                        match fit(exact) {
                            Ok(v) => Value(v),
                            Err(_) => ErrOr(vec![exact as i64]), // low 64 bits
                        }
                    }
                }
                Bin::Shr => {
                    if b < 0 {
                        Fail(self::Fail::NegativeShift)
                    } else if b >= 64 {
                        ErrOr(if a < 0 { vec![-1, 0] } else { vec![0] })
                    } else if a >= 0 || b == 0 {
                        Value(a >> b)
                    } else {
                        OneOf(vec![a >> b, ((a as u64) >> b) as i64])
                    }
                }
                Bin::Lt => Value((a < b) as i64),
                Bin::Le => Value((a <= b) as i64),
                Bin::Gt => Value((a > b) as i64),
                Bin::Ge => Value((a >= b) as i64),
                Bin::Eq => Value((a == b) as i64),
                Bin::Ne => Value((a != b) as i64),
                Bin::LAnd => Value((a != 0 && b != 0) as i64),
                Bin::LOr => Value((a != 0 || b != 0) as i64),
            }
        }
    })
}

impl Expected {
    pub fn single(&self) -> Option<i64> {
        match self {
            Expected::Value(v) => Some(*v),
            _ => None,
        }
    }
    pub fn accepts_value(&self, v: i64) -> bool {
        match self {
            Expected::Value(x) => *x == v,
            Expected::Fail(_) => false,
            Expected::ErrOr(xs) | Expected::OneOf(xs) => xs.contains(&v),
        }
    }
    pub fn accepts_err(&self) -> bool {
        matches!(self, Expected::Fail(_) | Expected::ErrOr(_))
    }
}

/// Random literal leaf in a random documented spelling
pub fn rand_lit(rng: &mut Rng) -> E {
    let v: i64 = match rng.below(10) {
        0 => 0,
        1 => 1,
        2 => rng.range(0, 9),
        3 => rng.range(0, 255),
        4 => rng.range(0, 65535),
        5 => 1i64 << rng.below(63),
        6 => (1i64 << rng.below(63)) - 1,
        7 => rng.range(0, i64::MAX),
        8 => *rng.pick(&[7, 8, 63, 64, 255, 256, 32767, 32768, 65535, 65536, 0x7fff_ffff, 0x8000_0000, 0xffff_ffff, 0x1_0000_0000, i64::MAX]),
        _ => rng.range(0, 100),
    };
    let kind = match rng.below(9) {
        0 | 1 | 2 => 0,
        3 => {
            if rng.chance(1, 2) {
                1
            } else {
                6
            }
        }
        4 => {
            if rng.chance(1, 2) {
                2
            } else {
                7
            }
        }
        5 => {
            if v < (1 << 20) {
                3
            } else {
                1
            }
        }
        6 => 4,
        7 => {
            // char literal: printable ASCII except the quote itself
            let c = rng.range(0x20, 0x7e);
            if c == b'\'' as i64 {
                return E::Lit(v, 0);
            }
            return E::Lit(c, 5);
        }
        _ => 0,
    };
    // "0" + octal digits: a plain 0 in octal spelling is "00"
    E::Lit(v, kind)
}

/// Random tree of given depth over all operators; `syms` are names defined in the environment.
pub fn rand_tree(rng: &mut Rng, depth: u32, syms: &[String], allow_pc: bool) -> E {
    if depth == 0 || rng.chance(1, 5) {
        return match rng.below(10) {
            0 | 1 if !syms.is_empty() => {
                let s = rng.pick(syms).clone();
                E::Sym(spell::case(&s, rng))
            }
            2 if allow_pc => E::Pc,
            _ => rand_lit(rng),
        };
    }
    match rng.below(12) {
        0 | 1 => E::un(*rng.pick(&UNOPS), rand_tree(rng, depth - 1, syms, allow_pc)),
        2 => E::Func(*rng.pick(&FUNCS), Box::new(rand_tree(rng, depth - 1, syms, allow_pc))),
        3 => E::Paren(Box::new(rand_tree(rng, depth - 1, syms, allow_pc))),
        _ => {
            let op = *rng.pick(&BINOPS);
            let l = rand_tree(rng, depth - 1, syms, allow_pc);
            let r = if matches!(op, Bin::Shl | Bin::Shr) && rng.chance(3, 4) {
                E::Lit(rng.range(0, 66), 0)
            } else {
                rand_tree(rng, depth - 1, syms, allow_pc)
            };
            E::bin(op, l, r)
        }
    }
}

/// self test: renderer/evaluator agree with Rust's own arithmetic on a few pinned cases
pub fn selfcheck() -> Result<usize, String> {
    let env = Env::new();
    let mut st = Style::plain();
    let cases: Vec<(E, &str, Expected)> = vec![
        (E::bin(Bin::Mul, E::un(Un::Com, E::lit(1)), E::lit(2)), "~1*2", Expected::Value(-4)),
        (E::un(Un::Com, E::bin(Bin::Mul, E::lit(1), E::lit(2))), "~(1*2)", Expected::Value(-3)),
        (E::bin(Bin::Sub, E::lit(10), E::bin(Bin::Sub, E::lit(4), E::lit(3))), "10-(4-3)", Expected::Value(9)),
        (E::bin(Bin::Sub, E::bin(Bin::Sub, E::lit(10), E::lit(4)), E::lit(3)), "10-4-3", Expected::Value(3)),
        (E::bin(Bin::Or, E::bin(Bin::Shl, E::lit(1), E::lit(2)), E::bin(Bin::Shl, E::lit(1), E::lit(1))), "1<<2|1<<1", Expected::Value(6)),
        (E::bin(Bin::Ne, E::lit(2), E::lit(1)), "2!=1", Expected::Value(1)),
        (E::bin(Bin::Div, E::lit(-7), E::lit(2)), "-7/2", Expected::Value(-3)),
        (E::bin(Bin::Rem, E::lit(-7), E::lit(2)), "-7%2", Expected::Value(-1)),
        (E::bin(Bin::Div, E::lit(1), E::lit(0)), "1/0", Expected::Fail(Fail::DivZero)),
        (E::bin(Bin::Add, E::lit(i64::MAX), E::lit(1)), "9223372036854775807+1", Expected::Fail(Fail::Overflow)),
        (E::un(Un::Neg, E::lit(i64::MIN)), "-(-9223372036854775807-1)", Expected::Fail(Fail::Overflow)),
        (E::Func("high", Box::new(E::lit(-1))), "high(-1)", Expected::Value(255)),
        (E::un(Un::Com, E::lit(0)), "~0", Expected::Value(-1)),
        (E::bin(Bin::LAnd, E::lit(2), E::bin(Bin::Eq, E::lit(3), E::lit(3))), "2&&3==3", Expected::Value(1)),
        (E::bin(Bin::Lt, E::bin(Bin::Add, E::lit(1), E::lit(1)), E::lit(3)), "1+1<3", Expected::Value(1)),
        (E::bin(Bin::Add, E::lit(1), E::Paren(Box::new(E::bin(Bin::Lt, E::lit(1), E::lit(3))))), "1+(1<3)", Expected::Value(2)),
    ];
    let n = cases.len();
    for (e, text, exp) in cases {
        let t = render(&e, &mut st);
        if t != text {
            return Err(format!("expr selfcheck: rendered {:?} as {:?}, wanted {:?}", e, t, text));
        }
        let got = eval(&e, &env, 0);
        if got.as_ref() != Some(&exp) {
            return Err(format!("expr selfcheck: {} evaluated to {:?}, wanted {:?}", text, got, exp));
        }
    }
    Ok(n)
}
