//! C11 — including a file is the same as pasting it, and files are found where documented.
//!
//! A generated program is cut at item boundaries into a tree of files (depth <= 5) written under
//! a scratch directory; each file is placed by one of the documented search rules. Oracle:
//! build_file(tree) == build_str(flattened program) == reference (images, sizes, RAM extent,
//! messages with per-file line numbers). Negatives: one file removed -> error naming it.
//! The INCLUDE hook shows which rule resolved each include.

use crate::fw::{self, Ctx, Outcome, Rng};
use crate::gen::ir::{self, Arm, Cond, DataOp, MsgKind, Names, Node, Opnd, Seg};
use crate::gen::spell;
use crate::refmodel::expr::{Bin, E};
use crate::refmodel::layout::{self, RefErr, SourceFile};
use avra_lib::verif::{self, Event};
use serde_json::{json, Value};
use std::path::{Path, PathBuf};

struct FileSpec {
    nodes: Vec<Node>,
    disk: PathBuf,
    rule: &'static str,
    /// how the name is written in the `.include` line: plain, ./name, dir/name, ./dir/name, ../dir/name
    form: &'static str,
}

struct Tree {
    files: Vec<FileSpec>, // files[0] = main
    caller_dirs: Vec<PathBuf>,
    root: PathBuf,
    /// directories that bear the name of an included file (they are not files: the search goes on)
    decoy_dirs: Vec<PathBuf>,
}

fn base_program(rng: &mut Rng) -> Vec<Node> {
    let mut names = Names::new();
    let mut v: Vec<Node> = vec![Node::Comment("C11 program".into())];
    let device = *rng.pick(&[None, Some("ATmega8"), Some("ATmega128"), None]);
    if let Some(d) = device {
        v.push(Node::Device(d.into()));
    }
    let mut equs: Vec<String> = vec![];
    let mut labels: Vec<String> = vec![];
    let mut macros: Vec<(String, usize)> = vec![];
    let mut marker = 0i64;
    let n = 8 + rng.usize(30);
    let fwd_equ = names.fresh("eq", rng);
    let fwd_lbl = names.fresh("lbl", rng);
    let late_macro = names.fresh("mac", rng);
    let mut orgs = [0i64; 3];
    let mut big_done = false;
    for _ in 0..n {
        marker += 1;
        match rng.below(19) {
            // a macro that is defined and never called: its body is stored text, not lines of this file - an
            // `.exit` there ends nothing
            17 => {
                let m = names.fresh("mac", rng);
                v.push(Node::MacroDef {
                    name: m,
                    body: vec![Node::instr("nop", vec![]), Node::Raw(rng.pick(&[".exit", "\t.exit", "#exit", ".EXIT"]).to_string()), Node::instr("nop", vec![])],
                    end_long: rng.chance(1, 2),
                });
                v.push(Node::Data { label: None, width: 2, ops: vec![DataOp::E(E::Lit(0x7200 + marker, 1))] });
            }
            // a file of more than 64 KiB most of which are multi-byte characters: wherever a reader cuts the
            // bytes into blocks, a character lies across the cut
            18 if !big_done && rng.chance(1, 3) => {
                big_done = true;
                let unit = *rng.pick(&["\u{65e5}\u{672c}\u{8a9e}", "\u{1f600}\u{e9}", "\u{20ac}\u{b5}x"]);
                for k in 0..470 {
                    v.push(Node::Comment(format!("{}{}", "-".repeat(k % 4), unit.repeat(33 + k % 3))));
                }
            }
            18 => v.push(Node::Data { label: None, width: 2, ops: vec![DataOp::E(E::Lit(0x7300 + marker, 1))] }),
            // origins in all three segments: in the data and EEPROM segment the `.org` comes behind a first
            // item, so that a cut between the two leaves the included file in another segment than it began
            // in, and the including file goes on with `.org` without naming the segment again
            14 if orgs[0] < 3 => {
                orgs[0] += 1;
                v.push(Node::Org(E::Lit(0x100 * orgs[0], 1)));
                v.push(Node::Data { label: None, width: 2, ops: vec![DataOp::E(E::Lit(0x7100 + marker, 1))] });
            }
            15 if orgs[1] < 3 => {
                orgs[1] += 1;
                v.push(Node::Seg(Seg::Data));
                let l = names.fresh("var", rng);
                v.push(Node::Reserve { label: Some(l.clone()), n: E::Lit(1 + rng.below(3) as i64, 0) });
                labels.push(l);
                v.push(Node::Org(E::Lit(0x180 + 0x80 * orgs[1], 1)));
                let l = names.fresh("var", rng);
                v.push(Node::Reserve { label: Some(l.clone()), n: E::Lit(2, 0) });
                labels.push(l);
                v.push(Node::Seg(Seg::Code));
            }
            16 if orgs[2] < 3 => {
                orgs[2] += 1;
                v.push(Node::Seg(Seg::Eeprom));
                v.push(Node::Data { label: None, width: 1, ops: vec![DataOp::E(E::Lit(marker % 256, 0))] });
                v.push(Node::Org(E::Lit(0x40 * orgs[2], 1)));
                v.push(Node::Data { label: None, width: 1, ops: vec![DataOp::E(E::Lit((marker + 1) % 256, 0))] });
                v.push(Node::Seg(Seg::Code));
            }
            0 | 1 => {
                let n = names.fresh("eq", rng);
                v.push(Node::Equ(n.clone(), E::Lit(rng.range(0, 5000), 0)));
                equs.push(n);
            }
            2 => {
                let l = names.fresh("lbl", rng);
                v.push(Node::Instr { label: Some(l.clone()), form: crate::refmodel::isa::form_index("ldi"), ops: vec![Opnd::Reg(16 + (marker % 16) as u8), Opnd::Expr(E::Lit(marker % 256, 0))] });
                labels.push(l);
            }
            3 | 4 => {
                // use of symbols defined (possibly) on the other side of an include boundary
                let mut pool: Vec<String> = equs.clone();
                pool.extend(labels.clone());
                pool.push(fwd_equ.clone());
                pool.push(fwd_lbl.clone());
                let s = rng.pick(&pool).clone();
                v.push(Node::Data { label: None, width: 4, ops: vec![DataOp::E(E::Sym(spell::case(&s, rng))), DataOp::E(E::Lit(marker, 0))] });
            }
            5 => {
                let name = names.fresh("mac", rng);
                let body = vec![
                    Node::instr("ldi", vec![Opnd::Param(0), Opnd::Param(1)]),
                    Node::Data { label: None, width: 2, ops: vec![DataOp::E(E::bin(Bin::Add, E::Sym("@1".into()), E::Lit(marker, 0)))] },
                ];
                v.push(Node::MacroDef { name: name.clone(), body, end_long: rng.chance(1, 2) });
                macros.push((name, 2));
            }
            6 | 7 => {
                let mut pool: Vec<String> = macros.iter().map(|m| m.0.clone()).collect();
                pool.push(late_macro.clone());
                let m = rng.pick(&pool).clone();
                v.push(Node::MacroCall { name: spell::case(&m, rng), args: vec![Opnd::Reg(16 + rng.below(16) as u8), Opnd::Expr(E::Lit(rng.range(0, 200), 0))] });
            }
            8 => {
                // a complete conditional chain (never cut across files)
                let t = rng.chance(1, 2);
                let cond = if !equs.is_empty() && rng.chance(1, 2) {
                    // condition on an .equ defined earlier (maybe in another file)
                    let e = rng.pick(&equs).clone();
                    Cond::Expr(E::bin(if t { Bin::Ge } else { Bin::Lt }, E::Sym(e), E::Lit(0, 0)))
                } else {
                    Cond::Expr(E::Lit(t as i64, 0))
                };
                let a = Node::Data { label: None, width: 2, ops: vec![DataOp::E(E::Lit(0x4000 + marker, 1))] };
                let b = Node::Data { label: None, width: 2, ops: vec![DataOp::E(E::Lit(0x5000 + marker, 1))] };
                v.push(Node::Cond { arms: vec![Arm { cond, body: vec![a] }], else_body: Some(vec![b, Node::Raw("this branch may hold anything when unselected".into())]).filter(|_| t).or(Some(vec![Node::Data { label: None, width: 2, ops: vec![DataOp::E(E::Lit(0x6000 + marker, 1))] }])) });
            }
            9 if rng.chance(1, 2) => {
                // a chain whose taken branch is followed by an .elif (and an .else): as the last thing of a file it leaves
                // nothing open
                let d = |x: i64| Node::Data { label: None, width: 2, ops: vec![DataOp::E(E::Lit(x, 1))] };
                let first = rng.chance(1, 2);
                v.push(Node::Cond {
                    arms: vec![Arm { cond: Cond::Expr(E::Lit(first as i64, 0)), body: vec![d(0x4100 + marker)] }, Arm { cond: Cond::Expr(E::Lit(1, 0)), body: vec![d(0x4200 + marker)] }, Arm { cond: Cond::Expr(E::Lit(1, 0)), body: vec![d(0x4300 + marker)] }],
                    else_body: if rng.chance(1, 2) { Some(vec![d(0x4400 + marker)]) } else { None },
                });
            }
            9 => v.push(Node::Message(if rng.chance(1, 2) { MsgKind::Message } else { MsgKind::Warning }, format!("note {}", marker))),
            10 => {
                v.push(Node::Seg(Seg::Data));
                let l = names.fresh("var", rng);
                v.push(Node::Reserve { label: Some(l.clone()), n: E::Lit(1 + rng.below(5) as i64, 0) });
                labels.push(l);
                v.push(Node::Seg(Seg::Code));
            }
            11 => {
                v.push(Node::Seg(Seg::Eeprom));
                v.push(Node::Data { label: None, width: 1, ops: vec![DataOp::E(E::Lit(marker % 256, 0)), DataOp::S(format!("e{}", marker))] });
                v.push(Node::Seg(Seg::Code));
            }
            12 => {
                let a = names.fresh("al", rng);
                v.push(Node::Def(a.clone(), rng.below(32) as u8));
                v.push(Node::instr("inc", vec![Opnd::Alias(spell::case(&a, rng))]));
            }
            _ => v.push(Node::Data { label: None, width: 2, ops: vec![DataOp::E(E::Lit(0x7000 + marker, 1))] }),
        }
    }
    // forward-referenced definitions at the end
    v.push(Node::Equ(fwd_equ, E::Lit(rng.range(0, 9999), 0)));
    v.push(Node::Instr { label: Some(fwd_lbl), form: crate::refmodel::isa::form_index("nop"), ops: vec![] });
    v.push(Node::MacroDef { name: late_macro, body: vec![Node::instr("ldi", vec![Opnd::Param(0), Opnd::Param(1)])], end_long: false });
    v
}

struct Splitter<'a> {
    rng: &'a mut Rng,
    decoy_dirs: Vec<PathBuf>,
    include_labels: Vec<String>,
    files: Vec<FileSpec>,
    root: PathBuf,
    caller_dirs: Vec<PathBuf>,
    counter: usize,
    tag: String,
}

impl<'a> Splitter<'a> {
    /// split `nodes` (content of file `this`, which lives in `dir`) and return its final node list
    fn split(&mut self, mut nodes: Vec<Node>, dir: &Path, depth: u32) -> Vec<Node> {
        let mut tries = 0;
        while depth < 5 && nodes.len() >= 3 && tries < 3 && self.rng.chance(3, 5) {
            tries += 1;
            let a = 1 + self.rng.usize(nodes.len() - 1);
            let len = 1 + self.rng.usize((nodes.len() - a).min(12));
            let mut b = (a + len).min(nodes.len());
            // an .includepath/.include pair made by an earlier cut stays in the file it was made for
            // (whether a search path added inside an included file is seen by the includer is not specified)
            fn holds_include(n: &Node) -> bool {
                match n {
                    Node::Include { .. } | Node::IncludePath(_) => true,
                    Node::Cond { arms, else_body } => arms.iter().any(|a| a.body.iter().any(holds_include)) || else_body.as_ref().map(|b| b.iter().any(holds_include)).unwrap_or(false),
                    _ => false,
                }
            }
            let is_inc = |n: &Node| holds_include(n);
            if is_inc(&nodes[a]) {
                continue;
            }
            if let Some(k) = nodes[a..b].iter().position(is_inc) {
                b = a + k;
            }
            let moved: Vec<Node> = nodes.drain(a..b).collect();
            self.counter += 1;
            let fname = format!("f{}_{}.inc", self.tag, self.counter);
            let rule = *self.rng.pick(&["absolute", "includer-dir", "includer-subdir", "caller-dir", "includepath-absolute", "includepath-relative", "includepath-relative-nested", "includepath-from-included-file", "caller-dir-while-a-directory-has-that-name", "later-caller-dir-while-an-earlier-one-holds-a-directory-of-that-name"]);
            let mut pre: Vec<Node> = vec![];
            // the name as written is a relative path like any other: it is joined to whichever directory is searched
            let (form, decorated): (&'static str, String) = match self.rng.below(8) {
                0 => ("./name", format!("./{}", fname)),
                1 => ("dir/name", format!("nm{}/{}", self.counter, fname)),
                2 => ("./dir/name", format!("./nm{}/{}", self.counter, fname)),
                3 => ("../dir/name", format!("../side{}/{}", self.counter, fname)),
                _ => ("name", fname.clone()),
            };
            let cwd = std::env::current_dir().ok();
            let rule = if rule == "absolute" && self.rng.chance(1, 2) && cwd.as_ref().map(|c| self.root.starts_with(c)).unwrap_or(false) { "as-written-from-working-directory" } else { rule };
            let rule = if rule == "caller-dir-while-a-directory-has-that-name" && !cwd.as_ref().map(|c| self.root.starts_with(c)).unwrap_or(false) { "caller-dir" } else { rule };
            let (disk, written): (PathBuf, String) = match rule {
                "caller-dir-while-a-directory-has-that-name" => {
                    // at the path as written (from the working directory) there is a directory of that
                    // name; the file itself lies under a caller-supplied directory
                    let decoy = self.root.join("decoy").join(&fname);
                    let rel = decoy.strip_prefix(cwd.as_ref().unwrap()).unwrap().to_path_buf();
                    self.decoy_dirs.push(decoy);
                    let d = self.rng.pick(&self.caller_dirs).clone();
                    (d.join(&rel), rel.to_string_lossy().to_string())
                }
                "later-caller-dir-while-an-earlier-one-holds-a-directory-of-that-name" => {
                    // the directories are searched in order: the first holds a directory that bears the file's
                    // name (not a file: the search goes on), the file lies in the second
                    self.decoy_dirs.push(self.caller_dirs[0].join(&fname));
                    (self.caller_dirs[1].join(&fname), fname.clone())
                }
                "as-written-from-working-directory" => {
                    let d = self.root.join("cwdrel");
                    let rel = d.strip_prefix(cwd.as_ref().unwrap()).unwrap().join(&decorated);
                    (d.join(&decorated), rel.to_string_lossy().to_string())
                }
                "absolute" => {
                    let d = self.root.join("abs");
                    (d.join(&fname), d.join(&fname).to_string_lossy().to_string())
                }
                "includer-dir" => (dir.join(&decorated), decorated.clone()),
                "includer-subdir" => (dir.join("sub").join(&fname), format!("sub/{}", fname)),
                "caller-dir" => {
                    let d = self.rng.pick(&self.caller_dirs).clone();
                    (d.join(&decorated), decorated.clone())
                }
                "includepath-absolute" => {
                    let d = self.root.join(format!("ipabs{}", self.counter));
                    pre.push(Node::IncludePath(d.to_string_lossy().to_string()));
                    (d.join(&decorated), decorated.clone())
                }
                "includepath-from-included-file" => {
                    // the .includepath sits in a small file of its own that is included first (a list of
                    // library directories): it is an earlier .includepath like any other, resolved
                    // against the file that holds it
                    let n = self.counter;
                    let cfg_idx = self.files.len();
                    let cfgname = format!("cfg{}_{}.inc", self.tag, n);
                    let (cfg_disk, cfg_written, rel) = if self.rng.chance(1, 2) {
                        (dir.join(&cfgname), cfgname.clone(), format!("ipcfg{}", n))
                    } else {
                        (dir.join(format!("cfgdir{}", n)).join(&cfgname), format!("cfgdir{}/{}", n, cfgname), format!("../ipcfg{}", n))
                    };
                    self.files.push(FileSpec { nodes: vec![Node::Comment("search directories".into()), Node::IncludePath(rel)], disk: cfg_disk, rule: "includer-dir", form: "name" });
                    // the list may itself be reached through one or two files that do nothing but include
                    // the next one (all of them next to the includer, so the name as written stays valid)
                    let (mut inner_written, mut inner_idx) = (cfg_written, cfg_idx);
                    for w in 0..self.rng.below(3) {
                        let wname = format!("cfgw{}_{}_{}.inc", self.tag, n, w);
                        let widx = self.files.len();
                        self.files.push(FileSpec { nodes: vec![Node::Comment("hands on".into()), Node::Include { path: inner_written, file: inner_idx }], disk: dir.join(&wname), rule: "includer-dir", form: "name" });
                        inner_written = wname;
                        inner_idx = widx;
                    }
                    let (cfg_written, cfg_idx) = (inner_written, inner_idx);
                    pre.push(Node::Include { path: cfg_written, file: cfg_idx });
                    (dir.join(format!("ipcfg{}", n)).join(&decorated), decorated.clone())
                }
                "includepath-relative" => {
                    let rel = format!("iprel{}", self.counter);
                    pre.push(Node::IncludePath(rel.clone()));
                    (dir.join(&rel).join(&decorated), decorated.clone())
                }
                _ => {
                    // relative .includepath one level up and down again
                    let rel = format!("../up{}", self.counter);
                    pre.push(Node::IncludePath(rel.clone()));
                    (dir.join(&rel).join(&decorated), decorated.clone())
                }
            };
            let idx = self.files.len();
            let form = if matches!(rule, "absolute" | "includer-subdir") { "name" } else { form };
            self.files.push(FileSpec { nodes: vec![], disk: disk.clone(), rule, form });
            let child_dir = disk.parent().unwrap().to_path_buf();
            let mut final_nodes = self.split(moved, &child_dir, depth + 1);
            // `.exit` ends only the file it is in: what follows it in that file must have no effect
            if self.rng.chance(1, 4) {
                final_nodes.push(Node::Exit);
                final_nodes.push(Node::Raw("garbage after .exit !!".into()));
                final_nodes.push(Node::Message(MsgKind::Error, "after exit".into()));
            }
            self.files[idx].nodes = final_nodes;
            let mut ins = pre;
            // sometimes the .include line sits inside a conditional: in the taken branch it must be read, and an
            // untaken branch may name a file that exists nowhere
            let inc = Node::Include { path: written, file: idx };
            let inc = match self.rng.below(6) {
                0 => Node::Cond { arms: vec![Arm { cond: Cond::Expr(E::Lit(1, 0)), body: vec![inc] }], else_body: Some(vec![Node::Raw(".include \"file/that/exists/nowhere.inc\"".into())]) },
                1 => Node::Cond { arms: vec![Arm { cond: Cond::Expr(E::Lit(0, 0)), body: vec![Node::Raw(".include \"another/missing/file.inc\"".into()), Node::Raw("garbage !".into())] }], else_body: Some(vec![inc]) },
                _ => {
                    // a third of the plain include lines carry a label (referenced at the end of the main file): it
                    // names the place where the lines of the file begin
                    if self.rng.chance(1, 3) {
                        let l = format!("at_include_{}", fname.trim_end_matches(".inc"));
                        ins.push(Node::Label(l.clone()));
                        self.include_labels.push(l);
                    }
                    inc
                }
            };
            ins.push(inc);
            for (k, n) in ins.into_iter().enumerate() {
                nodes.insert(a + k, n);
            }
        }
        nodes
    }
}

fn normalize(p: &Path) -> PathBuf {
    // lexical normalisation of `a/../b` for the evidence only
    let mut out = PathBuf::new();
    for c in p.components() {
        match c {
            std::path::Component::ParentDir => {
                out.pop();
            }
            other => out.push(other.as_os_str()),
        }
    }
    out
}

/// The text of a file of the tree: as printed, except that a label the splitter has put in front of an `.include`
/// line stands on that line (`at_include_1: .include "f.inc"`, an empty line behind it keeps the numbering).
/// In the flattened program the label stands on its own line in front of the pasted lines - the same thing.
fn file_text(nodes: &[Node]) -> String {
    let t = ir::print_canonical(nodes);
    let lines: Vec<&str> = t.lines().collect();
    let mut out = String::with_capacity(t.len() + 8);
    let mut i = 0;
    while i < lines.len() {
        if lines[i].starts_with("at_include_") && lines[i].ends_with(':') && i + 1 < lines.len() && lines[i + 1].trim_start().starts_with(".include") {
            out.push_str(&format!("{} {}\n\n", lines[i], lines[i + 1].trim_start()));
            i += 2;
        } else {
            out.push_str(lines[i]);
            out.push('\n');
            i += 1;
        }
    }
    out
}

fn build_tree(rng: &mut Rng, case_id: u64, root_base: &Path) -> Tree {
    let root = root_base.join(format!("case{:x}", case_id));
    let main_dir = root.join("main");
    let caller_dirs = vec![root.join("callerA"), root.join("callerB")];
    let base = base_program(rng);
    let mut sp = Splitter { rng, files: vec![FileSpec { nodes: vec![], disk: main_dir.join(format!("main{:x}.asm", case_id)), rule: "main", form: "name" }], root: root.clone(), caller_dirs: caller_dirs.clone(), counter: 0, tag: format!("{:x}", case_id), decoy_dirs: vec![], include_labels: vec![] };
    let mut main_nodes = sp.split(base, &main_dir, 0);
    // half of the trees also hold a file that is included more than once and guards parts of itself:
    // `.ifndef G / .define G / first time / .else / later times / .endif`, or a guarded head followed
    // by unguarded lines and an unrelated conditional at the end. Each inclusion is pasted anew.
    if sp.rng.chance(1, 2) {
        let k = sp.files.len();
        let guard = format!("GUARD_{}_{}", sp.tag, k);
        let d = |v: i64| Node::Data { label: None, width: 2, ops: vec![DataOp::E(E::Lit(v, 1))] };
        let two_word = || Node::instr("lds", vec![Opnd::Reg(16), Opnd::Expr(E::Lit(0x123, 1))]);
        let nodes = if sp.rng.chance(1, 2) {
            vec![Node::Comment("guarded file".into()), Node::Cond { arms: vec![Arm { cond: Cond::NDef(guard.clone()), body: vec![Node::Define(guard.clone()), d(0x6001)] }], else_body: Some(vec![two_word(), d(0x6002)]) }, Node::Blank]
        } else {
            vec![
                Node::Cond { arms: vec![Arm { cond: Cond::NDef(guard.clone()), body: vec![Node::Define(guard.clone()), d(0x6003)] }], else_body: None },
                two_word(),
                d(0x6004),
                Node::Cond { arms: vec![Arm { cond: Cond::Expr(E::Lit(1, 0)), body: vec![d(0x6005)] }], else_body: None },
                Node::Comment("end of twice-included file".into()),
            ]
        };
        let fname = format!("g{}_{}.inc", sp.tag, k);
        sp.files.push(FileSpec { nodes, disk: main_dir.join(&fname), rule: "includer-dir", form: "name" });
        // at the start (code segment) and at the end (back in the code segment), two or three times
        let at = main_nodes.iter().position(|n| !matches!(n, Node::Comment(_) | Node::Device(_) | Node::Blank)).unwrap_or(main_nodes.len());
        main_nodes.insert(at, Node::Include { path: fname.clone(), file: k });
        main_nodes.push(Node::Seg(Seg::Code));
        main_nodes.push(Node::Include { path: fname.clone(), file: k });
        if sp.rng.chance(1, 2) {
            main_nodes.push(Node::Include { path: format!("./{}", fname), file: k });
        }
    }
    // the labels on include lines are used: a table of their values at the end of the main file
    if !sp.include_labels.is_empty() {
        main_nodes.push(Node::Seg(Seg::Code));
        for l in sp.include_labels.clone() {
            let l = spell::case(&l, sp.rng);
            main_nodes.push(Node::Data { label: None, width: 4, ops: vec![DataOp::E(E::Sym(l))] });
        }
    }
    sp.files[0].nodes = main_nodes;
    Tree { files: sp.files, caller_dirs, root, decoy_dirs: sp.decoy_dirs }
}

fn write_tree(t: &Tree, skip: Option<usize>) -> std::io::Result<()> {
    for d in t.caller_dirs.iter().chain(t.decoy_dirs.iter()) {
        std::fs::create_dir_all(d)?;
    }
    for (i, f) in t.files.iter().enumerate() {
        if Some(i) == skip {
            continue;
        }
        let disk = normalize(&f.disk);
        std::fs::create_dir_all(disk.parent().unwrap())?;
        // directories named by relative .includepath must exist for `..` to resolve
        std::fs::create_dir_all(f.disk.parent().unwrap()).ok();
        std::fs::write(&disk, file_text(&f.nodes))?;
    }
    // make every directory that a `x/../y` path walks through exist
    for f in &t.files {
        let mut p = PathBuf::new();
        for c in f.disk.components() {
            match c {
                std::path::Component::ParentDir => {
                    std::fs::create_dir_all(&p).ok();
                    p.pop();
                }
                other => p.push(other.as_os_str()),
            }
        }
    }
    Ok(())
}

fn flatten(t: &Tree, idx: usize, out: &mut Vec<Node>) {
    flatten_nodes(t, &t.files[idx].nodes, out);
}

/// returns false when an `.exit` ended the file
fn flatten_nodes(t: &Tree, nodes: &[Node], out: &mut Vec<Node>) -> bool {
    for n in nodes {
        match n {
            Node::Include { file, .. } => flatten(t, *file, out),
            Node::IncludePath(_) => {}
            Node::Exit => return false,
            Node::Cond { arms, else_body } => {
                // includes inside branches are pasted inside the same branches
                let mut new_arms = vec![];
                for a in arms {
                    let mut b = vec![];
                    flatten_nodes(t, &a.body, &mut b);
                    new_arms.push(Arm { cond: a.cond.clone(), body: b });
                }
                let eb = else_body.as_ref().map(|b| {
                    let mut v = vec![];
                    flatten_nodes(t, b, &mut v);
                    v
                });
                out.push(Node::Cond { arms: new_arms, else_body: eb });
            }
            other => out.push(other.clone()),
        }
    }
    true
}

fn strip_line_numbers(msgs: &[String]) -> Vec<String> {
    msgs.iter()
        .map(|m| match m.rfind("line: ") {
            Some(p) => m[..p].to_string(),
            None => m.clone(),
        })
        .collect()
}

fn check(ctx: &Ctx, rng: &mut Rng, case_id: u64, root_base: &Path) {
    let t = build_tree(rng, case_id, root_base);
    if let Err(e) = write_tree(&t, None) {
        ctx.inconclusive(format!("cannot write scratch tree: {}", e));
        return;
    }
    let main = normalize(&t.files[0].disk);
    let sources: Vec<SourceFile> = t.files.iter().map(|f| SourceFile { nodes: f.nodes.clone(), present: true }).collect();
    let reference = layout::assemble(&sources);
    let mut flat = vec![];
    flatten(&t, 0, &mut flat);
    let flat_src = ir::print_canonical(&flat);
    fw::hook_enable(verif::INCLUDE);
    let _ = verif::take();
    let out = fw::build_file(&main, &t.caller_dirs);
    let events = verif::take();
    fw::hook_enable(0);
    let flat_out = fw::build_str(&flat_src);
    ctx.eval(1);
    let tree_json = || {
        json!(t.files.iter().map(|f| json!({"path": normalize(&f.disk).display().to_string(), "rule": f.rule, "text": file_text(&f.nodes)})).collect::<Vec<_>>())
    };
    let replay = |d: Value| json!({"tree": tree_json(), "decoy_dirs": t.decoy_dirs.iter().map(|p| p.display().to_string()).collect::<Vec<_>>(), "caller_dirs": t.caller_dirs.iter().map(|p| p.display().to_string()).collect::<Vec<_>>(), "flattened": flat_src, "detail": d, "observed": out.brief(), "observed_flattened": flat_out.brief()});
    // evidence: which rule resolved each include
    for e in &events {
        if let Event::Include { requested, resolved } = e {
            let from_cwd = std::env::current_dir().map(|c| normalize(&c.join(resolved))).unwrap_or_default();
            let rule = t.files.iter().find(|f| normalize(&f.disk) == normalize(Path::new(resolved)) || f.disk == Path::new(resolved) || normalize(&f.disk) == from_cwd).map(|f| f.rule).unwrap_or("unknown");
            ctx.count(&format!("include-resolved:{}", rule), 1);
            let _ = requested;
        }
    }
    for f in t.files.iter().skip(1) {
        ctx.count(&format!("include-name-written-as:{}", f.form), 1);
    }
    ctx.count("files_written", t.files.len() as u64);
    let depth = max_depth(&t, 0);
    ctx.count(&format!("trees_with_depth_{}", depth), 1);
    let rules_used: Vec<&str> = t.files.iter().map(|f| f.rule).collect();
    match (&reference, &flat_out) {
        (Err(RefErr::Indeterminate(_)), _) => ctx.count("reference_undecided", 1),
        (Err(RefErr::Fail(f)), _) => ctx.inconclusive(format!("generator produced an invalid program: {:?}", f.kind)),
        (Ok(_), o) if !o.is_ok() => ctx.inconclusive(format!("flattened program does not build: {:?}", o.brief())),
        (Ok(r), Outcome::Ok(fo)) => match &out {
            Outcome::Panic(p) => ctx.violation("include/panic", fw::clip(p, 140), replay(json!(null))),
            Outcome::Err(e) => {
                // which rule failed? the error names the file
                let rule = t.files.iter().find(|f| e.contains(f.disk.file_name().unwrap().to_string_lossy().as_ref())).map(|f| f.rule).unwrap_or("other");
                ctx.violation(format!("include/not-found-or-rejected/{}", rule), format!("tree of {} files (rules {:?}) failed: {}", t.files.len(), rules_used, fw::clip(e, 200)), replay(json!(null)));
            }
            Outcome::Ok(b) => {
                if (&b.code, &b.eeprom, b.ram_filling, b.flash_size, b.eeprom_size, b.ram_size) != (&fo.code, &fo.eeprom, fo.ram_filling, fo.flash_size, fo.eeprom_size, fo.ram_size) {
                    ctx.violation("include/differs-from-pasted", format!("build_file differs from the flattened program: code {} vs {}", fw::hex(&b.code, 48), fw::hex(&fo.code, 48)), replay(json!(null)));
                } else if strip_line_numbers(&b.messages) != strip_line_numbers(&fo.messages) {
                    ctx.violation("include/messages-differ-from-pasted", format!("{:?} vs {:?}", b.messages, fo.messages), replay(json!(null)));
                } else if b.code != r.code || b.eeprom != r.eeprom || b.ram_filling != r.ram_filling {
                    ctx.violation("include/differs-from-reference", format!("code {} vs reference {}", fw::hex(&b.code, 48), fw::hex(&r.code, 48)), replay(json!(null)));
                } else {
                    // per-file line numbers of the messages
                    let ok = b.messages.len() == r.messages.len() && b.messages.iter().zip(&r.messages).all(|(m, rm)| m.contains(&rm.text) && crate::props::c08::has_line_token(m, rm.line));
                    if !ok {
                        ctx.violation("include/message-lines", format!("messages {:?}, expected (file,line,text) {:?}", b.messages, r.messages.iter().map(|m| (m.file, m.line, m.text.clone())).collect::<Vec<_>>()), replay(json!(null)));
                    } else {
                        ctx.count("valid_trees_compared", 1);
                    }
                }
            }
        },
        _ => {}
    }
    // negative: remove one included file
    if t.files.len() > 1 && reference.is_ok() {
        let victim = 1 + rng.usize(t.files.len() - 1);
        // only meaningful if the victim is actually reached (not behind an .exit): ask the reference
        let mut sources: Vec<SourceFile> = t.files.iter().map(|f| SourceFile { nodes: f.nodes.clone(), present: true }).collect();
        sources[victim].present = false;
        if let Err(RefErr::Fail(f)) = layout::assemble(&sources) {
            if matches!(f.kind, layout::FailKind::MissingInclude(_)) {
                let disk = normalize(&t.files[victim].disk);
                let _ = std::fs::remove_file(&disk);
                let out = fw::build_file(&main, &t.caller_dirs);
                ctx.eval(1);
                ctx.count("missing_file_cases", 1);
                let fname = disk.file_name().unwrap().to_string_lossy().to_string();
                let replay = json!({"tree": tree_json(), "decoy_dirs": t.decoy_dirs.iter().map(|p| p.display().to_string()).collect::<Vec<_>>(), "caller_dirs": t.caller_dirs.iter().map(|p| p.display().to_string()).collect::<Vec<_>>(), "removed": disk.display().to_string(), "must_fail_naming": fname, "observed": out.brief()});
                match &out {
                    Outcome::Ok(_) => ctx.violation("include/missing-file/accepted", format!("build succeeded although {} does not exist", fname), replay),
                    Outcome::Panic(p) => ctx.violation("include/missing-file/panic", fw::clip(p, 140), replay),
                    Outcome::Err(e) => {
                        if !e.contains(&fname) {
                            ctx.violation("include/missing-file/error-does-not-name-file", format!("error for missing {}: {}", fname, fw::clip(e, 200)), replay);
                        }
                    }
                }
                // recovery: the file is put back and the very same tree is built again (same thread, same paths):
                // the failed build must not have left anything behind
                let _ = std::fs::write(&disk, file_text(&t.files[victim].nodes));
                let again = fw::build_file(&main, &t.caller_dirs);
                ctx.eval(1);
                ctx.count("rebuilds_after_failed_build", 1);
                let first = fw::build_str(&flat_src);
                let same = match (&again, &first) {
                    (Outcome::Ok(a), Outcome::Ok(b)) => a.code == b.code && a.eeprom == b.eeprom && a.ram_filling == b.ram_filling,
                    _ => false,
                };
                if !same {
                    ctx.violation(
                        "include/rebuild-after-missing-file",
                        format!("after a build that failed on a missing file, the restored tree no longer builds like before: {}", fw::clip(&format!("{:?}", again.brief()), 200)),
                        json!({"tree": tree_json(), "decoy_dirs": t.decoy_dirs.iter().map(|p| p.display().to_string()).collect::<Vec<_>>(), "caller_dirs": t.caller_dirs.iter().map(|p| p.display().to_string()).collect::<Vec<_>>(), "flattened": flat_src, "rebuild_after_failure": true, "observed": again.brief()}),
                    );
                }
            }
        }
    }
    let _ = std::fs::remove_dir_all(&t.root);
}

fn max_depth(t: &Tree, idx: usize) -> u32 {
    fn walk(t: &Tree, nodes: &[Node]) -> u32 {
        let mut d = 0;
        for n in nodes {
            match n {
                Node::Include { file, .. } => d = d.max(1 + max_depth(t, *file)),
                Node::Cond { arms, else_body } => {
                    for a in arms {
                        d = d.max(walk(t, &a.body));
                    }
                    if let Some(b) = else_body {
                        d = d.max(walk(t, b));
                    }
                }
                _ => {}
            }
        }
        d
    }
    walk(t, &t.files[idx].nodes)
}

pub fn run(ctx: &Ctx) -> i32 {
    let root_base = fw::verif_root().join("build").join(format!("scratch-c11-{}", std::process::id()));
    let _ = std::fs::create_dir_all(&root_base);
    let n = ctx.tier.pick(300u64, 100_000u64);
    fw::par_for(n, 4, |i| {
        let mut rng = Rng::for_case(ctx.seed, 0xC11, i);
        let before = ctx.distinct_count();
        let _ = before;
        check(ctx, &mut rng, fw::mix64(ctx.seed, i), &root_base);
        ctx.distinct(fw::mix64(0xC11, fw::mix64(ctx.seed, i)));
    });
    // one sample tree for the evidence
    {
        let mut rng = Rng::for_case(ctx.seed, 0xC11, 0);
        let t = build_tree(&mut rng, 0xabc, &root_base);
        ctx.sample(json!(t.files.iter().map(|f| json!({"path": normalize(&f.disk).strip_prefix(&root_base).map(|p| p.display().to_string()).unwrap_or_default(), "rule": f.rule, "lines": ir::print_canonical(&f.nodes).lines().collect::<Vec<_>>()})).collect::<Vec<_>>()));
    }
    known_finding_probes(ctx, &root_base);
    own_directory_probes(ctx, &root_base);
    reentered_file_probes(ctx, &root_base);
    let _ = std::fs::remove_dir_all(&root_base);
    fw::finish(
        ctx,
        "generated programs (device selection, .equ/label/alias definitions and uses incl. forward references, macros defined on either side and called before/after, complete conditional chains, messages, data/EEPROM segments) cut at item boundaries into trees of files up to 5 deep; each file placed by one rule: absolute path, path as written from the working directory, includer's directory (also via sub/), caller-supplied directory, earlier absolute .includepath, earlier relative .includepath (also with ../), .includepath issued by a file included earlier, caller-supplied directory while a directory bears the file's name at the path as written; the name written as `name`, `./name`, `dir/name`, `./dir/name` or `../dir/name` under every rule; a third of the .include lines sit inside a conditional (taken branch, or the .else of an untaken branch that names files existing nowhere); a quarter of the included files end in `.exit` followed by garbage and .error; per tree one reachable file is removed (must fail naming it), then put back and the tree rebuilt on the same thread (must build as before); counters include-resolved:* = INCLUDE hook events by rule; distinct_nontrivial = distinct trees (seed, index)",
        &[
            "file names are unique per tree (precedence between equally named files is not specified)",
            "the random splitter never cuts conditional chains or macro definitions across files and puts no .include into macro bodies: those three cases deviate on the pinned tree (known findings include/split/*, include/inside-macro-body/*) and are re-observed by fixed witness trees",
        ],
    )
}

/// An `.includepath` that names the directory its own file lies in, in every spelling, inside files that
/// were themselves reached by odd paths: the directory is searched for the rest of the build like any other
/// `.includepath` (the generated trees draw the spelling of the path and the way the file is reached
/// independently, these fixed trees make sure the corners meet).
fn own_directory_probes(ctx: &Ctx, scratch: &Path) {
    let mut k = 0;
    for reached_as in ["../a.inc", "../lib/../a.inc", "./../a.inc", "../sub/a.inc", "../sub/../sub/a.inc"] {
        for own in [".", "./", "", "../dir", "sub/..", "./.", "ABS"] {
            k += 1;
            let root = scratch.join(format!("own{}", k));
            let dir = root.join("dir");
            let in_sub = reached_as.contains("sub/a.inc");
            let home = if in_sub { dir.join("sub") } else { dir.clone() };
            if std::fs::create_dir_all(dir.join("src")).is_err() || std::fs::create_dir_all(dir.join("sub")).is_err() || std::fs::create_dir_all(dir.join("lib")).is_err() {
                ctx.inconclusive("cannot write scratch tree");
                continue;
            }
            // what the path names must be the directory of a.inc
            let own_text = match own {
                "ABS" => home.display().to_string(),
                "../dir" if in_sub => "../sub".to_string(),
                "sub/.." if in_sub => "../sub".to_string(),
                o => o.to_string(),
            };
            let _ = std::fs::write(dir.join("src").join("main.asm"), format!("\tnop\n.include \"{}\"\n.include \"b.inc\"\n", reached_as));
            let _ = std::fs::write(home.join("a.inc"), format!(".includepath \"{}\"\n\tldi r16, 1\n", own_text));
            let _ = std::fs::write(home.join("b.inc"), "\tldi r17, 2\n");
            let out = fw::build_file(&dir.join("src").join("main.asm"), &[]);
            ctx.eval(1);
            ctx.count("own_directory_probes", 1);
            ctx.distinct(fw::hash_str(&format!("own|{}|{}", reached_as, own)));
            let want = fw::build_str("\tnop\n\tldi r16, 1\n\tldi r17, 2\n");
            let same = matches!((&out, &want), (Outcome::Ok(a), Outcome::Ok(b)) if a.code == b.code);
            if !same {
                ctx.violation(
                    "include/not-found-or-rejected/includepath-from-included-file",
                    format!("a.inc (included as \"{}\") says .includepath \"{}\" - its own directory -, the including file then includes b.inc from there: {}", reached_as, own_text, fw::clip(&format!("{:?}", out.brief()), 140)),
                    json!({"own_directory_probe": true, "reached_as": reached_as, "includepath": own_text, "observed": out.brief()}),
                );
            }
            let _ = std::fs::remove_dir_all(&root);
        }
    }
}

/// A file included again while its first inclusion is still being read - by itself or through another file -,
/// the chain ended by conditions on symbols the inclusions set: the assembler's way of repeating a block. Pasted in
/// place, the lines assemble; so does the tree.
fn reentered_file_probes(ctx: &Ctx, scratch: &Path) {
    let row = ".ifndef ROW_1\n#define ROW_1\n\t.dw 1\n.if ROWS > 1\n.include \"row.inc\"\n.endif\n.else\n.ifndef ROW_2\n#define ROW_2\n\t.dw 2\n.if ROWS > 2\n.include \"row.inc\"\n.endif\n.else\n\t.dw 3\n.endif\n.endif\n";
    let cases: Vec<(&str, Vec<(&str, String)>, &str)> = vec![
        ("itself-three-times", vec![("main.asm", ".equ ROWS = 3\n.include \"row.inc\"\n\tnop\n".to_string()), ("row.inc", row.to_string())], "\t.dw 1\n\t.dw 2\n\t.dw 3\n\tnop\n"),
        ("itself-twice", vec![("main.asm", ".equ ROWS = 2\n.include \"row.inc\"\n\tnop\n".to_string()), ("row.inc", row.to_string())], "\t.dw 1\n\t.dw 2\n\tnop\n"),
        ("itself-once-then-again-from-the-main-file", vec![("main.asm", ".equ ROWS = 1\n.include \"row.inc\"\n.include \"row.inc\"\n\tnop\n".to_string()), ("row.inc", row.to_string())], "\t.dw 1\n\t.dw 2\n\tnop\n"),
        (
            "through-another-file",
            vec![
                ("main.asm", "\tnop\n.include \"ping.inc\"\n\tret\n".to_string()),
                ("ping.inc", ".ifndef PING_ONCE\n#define PING_ONCE\n\t.dw 0x11\n.include \"sub/pong.inc\"\n\t.dw 0x13\n.else\n\t.dw 0x12\n.endif\n".to_string()),
                ("sub/pong.inc", "\t.dw 0x21\n.include \"ping.inc\"\n\t.dw 0x22\n".to_string()),
            ],
            "\tnop\n\t.dw 0x11\n\t.dw 0x21\n\t.dw 0x12\n\t.dw 0x22\n\t.dw 0x13\n\tret\n",
        ),
    ];
    for (k, (name, files, pasted)) in cases.into_iter().enumerate() {
        let root = scratch.join(format!("reentered{}", k));
        let mut written = true;
        for (f, text) in &files {
            let p = root.join(f);
            written &= std::fs::create_dir_all(p.parent().unwrap()).is_ok() && std::fs::write(&p, text).is_ok();
        }
        if !written {
            ctx.inconclusive("cannot write scratch tree");
            continue;
        }
        let out = fw::build_file(&root.join("main.asm"), &[]);
        let want = fw::build_str(pasted);
        ctx.eval(1);
        ctx.count("reentered_file_probes", 1);
        ctx.distinct(fw::hash_str(&format!("reentered|{}", name)));
        if !matches!((&out, &want), (Outcome::Ok(a), Outcome::Ok(b)) if a.code == b.code) {
            ctx.violation(
                format!("include/file-included-again-while-open/{}", name),
                format!("a file that is included again while its first inclusion is still open ({}): {} instead of the lines pasted in place", name, fw::clip(&format!("{:?}", out.brief()), 140)),
                json!({"reentered_file_probe": true, "name": name, "observed": out.brief()}),
            );
        }
        let _ = std::fs::remove_dir_all(&root);
    }
}

/// Known findings (KNOWN_FINDINGS.txt): witness trees under /verif/findings/C11-*/ are copied to a
/// scratch directory and built; `pasted.asm` there is the same program in one file.
fn known_finding_probes(ctx: &Ctx, scratch: &Path) {
    for (dir, sig, what) in [
        ("C11-split-inside-conditional", "include/split/inside-conditional", "an included file that opens a conditional which the including file closes is not the same as the pasted lines"),
        ("C11-split-inside-macro-definition", "include/split/inside-macro-definition", "an included file that opens a macro definition which the including file closes is not the same as the pasted lines"),
        ("C11-include-inside-macro-body", "include/inside-macro-body/not-found", "an .include written in a macro body does not find a file that lies next to the source"),
    ] {
        let from = fw::verif_root().join("findings").join(dir);
        let to = scratch.join(dir);
        let _ = std::fs::create_dir_all(&to);
        let mut copied = true;
        if let Ok(rd) = std::fs::read_dir(&from) {
            for e in rd.flatten() {
                copied &= std::fs::copy(e.path(), to.join(e.file_name())).is_ok();
            }
        } else {
            copied = false;
        }
        if !copied {
            ctx.inconclusive(format!("witness {} cannot be copied", dir));
            continue;
        }
        let tree = fw::build_file(&to.join("main.asm"), &[]);
        let pasted = std::fs::read_to_string(to.join("pasted.asm")).map(|t| fw::build_str(&t));
        ctx.eval(1);
        ctx.count("known_finding_probes", 1);
        let same = match (&tree, &pasted) {
            (Outcome::Ok(a), Ok(Outcome::Ok(b))) => a.code == b.code && a.eeprom == b.eeprom,
            _ => false,
        };
        if !same {
            ctx.violation(sig, format!("{}: {}", what, fw::clip(&format!("{:?}", tree.brief()), 160)), json!({"witness": format!("findings/{}", dir), "observed": tree.brief()}));
        }
    }
}

pub fn replay(ctx: &Ctx, case: &Value) -> i32 {
    if case["reentered_file_probe"].as_bool() == Some(true) {
        let root = fw::verif_root().join("build").join(format!("scratch-c11-replay-{}", std::process::id()));
        reentered_file_probes(ctx, &root);
        let _ = std::fs::remove_dir_all(&root);
        ctx.distinct(1);
        ctx.distinct(2);
        return fw::finish(ctx, "replay", &[]);
    }
    if case["own_directory_probe"].as_bool() == Some(true) {
        let root = fw::verif_root().join("build").join(format!("scratch-c11-replay-{}", std::process::id()));
        own_directory_probes(ctx, &root);
        let _ = std::fs::remove_dir_all(&root);
        ctx.distinct(1);
        ctx.distinct(2);
        return fw::finish(ctx, "replay", &[]);
    }
    if case.get("witness").is_some() {
        let root = fw::verif_root().join("build").join(format!("scratch-c11-replay-{}", std::process::id()));
        known_finding_probes(ctx, &root);
        let _ = std::fs::remove_dir_all(&root);
        ctx.distinct(1);
        ctx.distinct(2);
        return fw::finish(ctx, "replay", &[]);
    }
    // re-create the tree from the replay file, rebuild, compare with the flattened text
    let root = fw::verif_root().join("build").join(format!("scratch-c11-replay-{}", std::process::id()));
    let _ = std::fs::create_dir_all(&root);
    let mut main = None;
    let removed = case["removed"].as_str();
    if let Some(files) = case["tree"].as_array() {
        for f in files {
            let p = PathBuf::from(f["path"].as_str().unwrap_or(""));
            if main.is_none() {
                main = Some(p.clone());
            }
            if Some(p.display().to_string().as_str()) == removed {
                continue;
            }
            let _ = std::fs::create_dir_all(p.parent().unwrap());
            let _ = std::fs::write(&p, f["text"].as_str().unwrap_or(""));
        }
    }
    let dirs: Vec<PathBuf> = case["caller_dirs"].as_array().map(|a| a.iter().filter_map(|x| x.as_str()).map(PathBuf::from).collect()).unwrap_or_default();
    for d in &dirs {
        let _ = std::fs::create_dir_all(d);
    }
    for d in case["decoy_dirs"].as_array().map(|a| a.iter().filter_map(|x| x.as_str()).collect::<Vec<_>>()).unwrap_or_default() {
        let _ = std::fs::create_dir_all(d);
    }
    ctx.eval(1);
    ctx.distinct(1);
    ctx.distinct(2);
    if let Some(m) = main {
        let out = fw::build_file(&m, &dirs);
        if let Some(name) = case["must_fail_naming"].as_str() {
            match &out {
                Outcome::Err(e) if e.contains(name) => {}
                _ => ctx.violation("include/replay", "missing file still not reported by name", case.clone()),
            }
        } else {
            let flat = fw::build_str(case["flattened"].as_str().unwrap_or(""));
            let same = match (&out, &flat) {
                (Outcome::Ok(a), Outcome::Ok(b)) => a.code == b.code && a.eeprom == b.eeprom && a.ram_filling == b.ram_filling && strip_line_numbers(&a.messages) == strip_line_numbers(&b.messages),
                _ => false,
            };
            if !same {
                ctx.violation("include/replay", "tree and flattened program still differ", case.clone());
            }
        }
        // the tree lives at its recorded absolute paths; remove what we wrote
        if let Some(files) = case["tree"].as_array() {
            for f in files {
                let _ = std::fs::remove_file(f["path"].as_str().unwrap_or(""));
            }
        }
    }
    let _ = std::fs::remove_dir_all(&root);
    fw::finish(ctx, "replay", &[])
}
