//! C18 — the command-line tool writes what the library built, or fails visibly.
//!
//! The `avra-rs` binary is built from /repo's working tree and run in fresh scratch directories
//! over sources x stems x option combinations x output faults. Oracle: in-process build_file of
//! the same source + refmodel::ihex decoding of what the tool wrote + directory snapshots before
//! and after + exit status + "something was printed". Thorough: release binary too, and an
//! strace leg showing that a failing build opens nothing for writing.

use crate::fw::{self, Ctx, Outcome, Tier};
use crate::refmodel::ihex;
use serde_json::{json, Value};
use std::collections::BTreeMap;
use std::path::{Path, PathBuf};
use std::process::Command;

#[derive(Clone, Debug)]
struct Src {
    name: &'static str,
    text: String,
    /// extra files to create next to the source (relative path, content)
    extra: Vec<(&'static str, &'static str)>,
    missing_source: bool,
}

fn sources() -> Vec<Src> {
    let big_org = ".org 40000\nldi r16, 1\n.eseg\n.db 1,2,3\n".to_string();
    vec![
        Src { name: "valid-code-and-eeprom", text: "ldi r16, 0x5a\nrjmp pc\n.eseg\n.db 1, 2, 3, \"ee\"\n.dseg\nv: .byte 4\n".into(), extra: vec![], missing_source: false },
        Src { name: "valid-code-only", text: ".message \"hello\"\nstart: ldi r17, 7\n.dw start, 0x1234\n".into(), extra: vec![], missing_source: false },
        Src { name: "valid-with-include", text: ".include \"inc/defs.inc\"\nldi r16, VALUE\n.eseg\n.dw VALUE\n".into(), extra: vec![("inc/defs.inc", ".equ VALUE = 77\n")], missing_source: false },
        Src { name: "valid-image-over-64k", text: big_org, extra: vec![], missing_source: false },
        Src { name: "valid-image-over-1MiB", text: "ldi r16, 0x5a\n.org 0x80010\nldi r17, 0xa5\nrjmp pc\n".into(), extra: vec![], missing_source: false },
        Src { name: "empty", text: "".into(), extra: vec![], missing_source: false },
        Src { name: "comment-only", text: "; nothing here\n\n// at all\n".into(), extra: vec![], missing_source: false },
        Src { name: "eeprom-only", text: ".eseg\n.db 9, 8, 7\n".into(), extra: vec![], missing_source: false },
        Src { name: "syntax-error", text: "ldi r16, 1\nbla bla bla\n".into(), extra: vec![], missing_source: false },
        Src { name: "semantic-error-pass2", text: "ldi r16, 1\nldi r16, undefined_symbol\n.eseg\n.db 1\n".into(), extra: vec![], missing_source: false },
        Src { name: "range-error", text: "nop\nldi r16, 300\n".into(), extra: vec![], missing_source: false },
        Src { name: "capacity-error", text: ".device ATtiny13\n.org 511\nnop\nnop\n".into(), extra: vec![], missing_source: false },
        Src { name: "error-directive", text: "nop\n.error \"stop\"\n".into(), extra: vec![], missing_source: false },
        Src { name: "missing-include", text: "nop\n.include \"nowhere.inc\"\n".into(), extra: vec![], missing_source: false },
        // what the user writes into texts and names must not be taken for the tool's own words
        Src { name: "error-directive-text-says-warning", text: "nop\n.error \"warning: low battery\"\n".into(), extra: vec![], missing_source: false },
        Src { name: "error-directive-text-says-success", text: ".error \"info: done, 0 errors, Nothing to write\"\n".into(), extra: vec![], missing_source: false },
        Src { name: "missing-include-named-warning", text: "nop\n.include \"warning: x.inc\"\n".into(), extra: vec![], missing_source: false },
        Src { name: "undefined-symbol-named-warning", text: "ldi r16, warning\n".into(), extra: vec![], missing_source: false },
        Src { name: "valid-with-alarming-messages", text: ".warning \"Failed to build? error: no\"\n.message \"error: none, panicked at nothing\"\nldi r16, 3\n".into(), extra: vec![], missing_source: false },
        Src { name: "valid-eeprom-that-looks-erased", text: "ldi r16, 1\n.eseg\n.dq -1, -1\n.db 1, 2\n.org 32\n.dq -1, -1, -1, -1\n.db 0xff\n".into(), extra: vec![], missing_source: false },
        Src { name: "valid-eeprom-of-one-erased-record", text: "nop\n.eseg\n.dq -1, -1\n".into(), extra: vec![], missing_source: false },
        Src { name: "valid-flash-that-looks-erased", text: ".dw 0xffff, 0xffff, 0xffff, 0xffff, 0xffff, 0xffff, 0xffff, 0xffff\n.dw 0xffff, 0xffff, 0xffff, 0xffff, 0xffff, 0xffff, 0xffff, 0xffff\n.eseg\n.db 0\n".into(), extra: vec![], missing_source: false },
        Src { name: "missing-source", text: "".into(), extra: vec![], missing_source: true },
    ]
}

/// "ABS": the source is named by an absolute path; "LINK": the source named on the command line is a symbolic
/// link to a file in another directory (files included by a bare name are looked for next to the link, which is
/// where the library, given the same path, looks; another file of that name lies next to the link's target)
const STEMS: [&str; 6] = ["a.asm", "a.b.asm", "noext", "sub/dir/prog.asm", "ABS", "LINK"];
// option sets: which of -o / -e / -v are given
const OPTS: [(bool, bool, bool); 6] = [(false, false, false), (true, false, false), (false, true, false), (true, true, false), (false, false, true), (true, true, true)];
const FAULTS: [&str; 6] = ["none", "dir-missing", "is-directory", "parent-is-file", "dev-full", "name-too-long"];

type Snapshot = BTreeMap<PathBuf, (u64, u64)>;

fn snapshot(root: &Path) -> Snapshot {
    let mut m = Snapshot::new();
    fn walk(p: &Path, m: &mut Snapshot) {
        if let Ok(rd) = std::fs::read_dir(p) {
            for e in rd.flatten() {
                let path = e.path();
                if path.is_dir() {
                    m.insert(path.clone(), (u64::MAX, 0));
                    walk(&path, m);
                } else if let Ok(data) = std::fs::read(&path) {
                    m.insert(path, (data.len() as u64, fw::hash_bytes(&data)));
                }
            }
        }
    }
    walk(root, &mut m);
    m
}

struct Run {
    exit: Option<i32>,
    stdout: String,
    stderr: String,
}

fn run_cli(bin: &Path, cwd: &Path, home: &Path, args: &[String]) -> Option<Run> {
    let out = Command::new(bin).args(args).current_dir(cwd).env("HOME", home).env("XDG_CONFIG_HOME", home.join("cfg")).env_remove("RUST_BACKTRACE").output().ok()?;
    Some(Run { exit: out.status.code(), stdout: String::from_utf8_lossy(&out.stdout).into_owned(), stderr: String::from_utf8_lossy(&out.stderr).into_owned() })
}

fn build_cli(release: bool) -> Result<PathBuf, String> {
    let target = fw::verif_root().join("build").join("cli");
    let mut cmd = Command::new("cargo");
    cmd.arg("build").arg("--offline").arg("--manifest-path").arg(fw::repo_root().join("Cargo.toml")).arg("--target-dir").arg(&target).arg("--bin").arg("avra-rs");
    if release {
        cmd.arg("--release");
    }
    cmd.env("CARGO_NET_OFFLINE", "true");
    let out = cmd.output().map_err(|e| e.to_string())?;
    if !out.status.success() {
        return Err(String::from_utf8_lossy(&out.stderr).chars().rev().take(600).collect::<String>().chars().rev().collect());
    }
    Ok(target.join(if release { "release" } else { "debug" }).join("avra-rs"))
}

/// Source names that are not valid UTF-8, and option sets that send both images to one path.
fn odd_names_and_clashes(ctx: &Ctx, bin: &Path) {
    use std::ffi::OsString;
    use std::os::unix::ffi::OsStringExt;
    let text = "ldi r16, 0x5a\nnop\n.eseg\n.db 1, 2, 3\n";
    let flash_only = "ldi r16, 0x5a\nnop\n";
    let base = fw::verif_root().join("build").join(format!("scratch-c18-{}", std::process::id())).join("odd");
    let decode_is = |p: &Path, img: &[u8]| -> bool { std::fs::read(p).ok().and_then(|t| ihex::decode(&t).ok()).map(|d| ihex::compare(&d, img).is_ok()).unwrap_or(false) };
    // (1) names
    for (k, raw) in [b"n\xffame.asm".to_vec(), b"\xfe\xff.asm".to_vec(), b"caf\xe9.v2.asm".to_vec(), b"plain\xc3\xa9.asm".to_vec()].into_iter().enumerate() {
        let root = base.join(format!("name{}", k));
        let _ = std::fs::remove_dir_all(&root);
        let (work, home) = (root.join("work"), root.join("home"));
        if std::fs::create_dir_all(&work).is_err() || std::fs::create_dir_all(&home).is_err() {
            ctx.inconclusive("cannot create scratch directories");
            continue;
        }
        let name = OsString::from_vec(raw.clone());
        let src = work.join(&name);
        if std::fs::write(&src, text).is_err() {
            ctx.inconclusive("file system refuses the non-UTF-8 name");
            continue;
        }
        let expected = fw::build_file(&src, &[home.join("cfg").join("avra-rs").join("includes")]);
        let out = Command::new(bin).arg("-s").arg(&name).current_dir(&work).env("HOME", &home).env("XDG_CONFIG_HOME", home.join("cfg")).output();
        ctx.eval(1);
        ctx.count("runs:odd-source-names", 1);
        ctx.distinct(fw::hash_str(&format!("odd-name-{}", k)));
        let (Ok(out), Outcome::Ok(exp)) = (out, &expected) else {
            ctx.inconclusive("cannot run the CLI binary or the library refuses the file");
            continue;
        };
        let stem_raw = &raw[..raw.len() - 4];
        let mut hex = stem_raw.to_vec();
        hex.extend(b".hex");
        let mut eep = stem_raw.to_vec();
        eep.extend(b".eep.hex");
        let (hex, eep) = (work.join(OsString::from_vec(hex)), work.join(OsString::from_vec(eep)));
        let ok = out.status.code() == Some(0) && decode_is(&hex, &exp.code) && decode_is(&eep, &exp.eeprom);
        let listing: Vec<String> = std::fs::read_dir(&work).map(|rd| rd.flatten().map(|e| format!("{:?}", e.file_name())).collect()).unwrap_or_default();
        if !ok {
            ctx.violation(
                "cli/success/odd-source-name/output-files",
                format!("source {:?}: exit {:?}, expected {:?} and {:?} holding the images; directory now holds {:?}", name, out.status.code(), hex.file_name().unwrap(), eep.file_name().unwrap(), listing),
                json!({"odd_name_bytes": raw, "source": text, "exit": out.status.code(), "stdout": String::from_utf8_lossy(&out.stdout), "directory": listing}),
            );
        }
        let _ = std::fs::remove_dir_all(&root);
    }
    // (2) both images to one path: nothing can hold both, so the run must fail visibly; with one image only
    // the same options are fine
    for (k, (opts, both)) in [
        (vec!["-o", "same.hex", "-e", "same.hex"], true),
        (vec!["-e", "prog.hex"], true),
        (vec!["-o", "prog.eep.hex"], true),
        (vec!["-o", "./x/../same.hex", "-e", "same.hex"], true), // different spellings of one file
        (vec!["-o", "same.hex", "-e", "./same.hex"], true),
        (vec!["-o", "same.hex", "-e", "link-to-same.hex"], true), // a symbolic link to the flash file
        (vec!["-o", "same.hex", "-e", "same.hex"], false),
        (vec!["-o", "same.hex", "-e", "same.hex"], true), // EEPROM data only: the (empty) flash image is written too
    ].into_iter().enumerate() {
        let flash_only_case = k == 6;
        let eeprom_only_case = k == 7;
        let root = base.join(format!("clash{}", k));
        let _ = std::fs::remove_dir_all(&root);
        let (work, home) = (root.join("work"), root.join("home"));
        if std::fs::create_dir_all(work.join("x")).is_err() || std::fs::create_dir_all(&home).is_err() {
            ctx.inconclusive("cannot create scratch directories");
            continue;
        }
        let _ = std::os::unix::fs::symlink("same.hex", work.join("link-to-same.hex"));
        let src = work.join("prog.asm");
        let _ = std::fs::write(&src, if flash_only_case { flash_only } else if eeprom_only_case { ".eseg\n.db 4, 5, 6\n" } else { text });
        let expected = fw::build_file(&src, &[home.join("cfg").join("avra-rs").join("includes")]);
        let out = Command::new(bin).arg("-s").arg("prog.asm").args(&opts).current_dir(&work).env("HOME", &home).env("XDG_CONFIG_HOME", home.join("cfg")).output();
        ctx.eval(1);
        ctx.count("runs:both-images-to-one-path", 1);
        ctx.distinct(fw::hash_str(&format!("clash-{}", k)));
        let (Ok(out), Outcome::Ok(exp)) = (out, &expected) else {
            ctx.inconclusive("cannot run the CLI binary");
            continue;
        };
        let said = !out.stdout.is_empty() || !out.stderr.is_empty();
        let case = json!({"clash_args": opts, "source": if flash_only_case { flash_only } else { text }, "exit": out.status.code(), "stdout": String::from_utf8_lossy(&out.stdout)});
        if flash_only_case {
            if !(out.status.code() == Some(0) && decode_is(&work.join("same.hex"), &exp.code)) {
                ctx.violation("cli/success/same-path-one-image/flash-file-content", format!("{:?} with a flash image only: exit {:?}", opts, out.status.code()), case);
            }
        } else if eeprom_only_case {
            if out.status.code() == Some(0) || !said {
                ctx.violation("cli/both-images-to-one-path/eeprom-only/not-refused", format!("{:?} with EEPROM data only: exit {:?}; one file cannot be the (empty) flash file and the EEPROM file", opts, out.status.code()), case);
            }
        } else if both {
            let flash_target = work.join(if opts[0] == "-e" { "prog.hex" } else { opts[1] });
            let flash_target = if flash_target.to_string_lossy().contains("/x/../") { work.join("same.hex") } else { flash_target };
            let holds_flash = decode_is(&flash_target, &exp.code);
            if out.status.code() == Some(0) && !holds_flash {
                ctx.violation("cli/both-images-to-one-path/flash-image-lost-silently", format!("{:?}: exit 0 but {} does not hold the flash image", opts, flash_target.display()), case);
            } else if out.status.code() != Some(0) && !said {
                ctx.violation("cli/both-images-to-one-path/failure-not-reported", format!("{:?}: exit {:?} without a word", opts, out.status.code()), case);
            }
        }
        let _ = std::fs::remove_dir_all(&root);
    }
    // (3) two different files whose names look alike: both images are written, each to its own file
    for (k, (src_name, opts, flash_at, eep_at)) in [
        ("prog.asm", vec!["-o", "Image.hex", "-e", "image.hex"], "Image.hex", "image.hex"),
        ("prog.asm", vec!["-o", "Out/a.hex", "-e", "out/a.hex"], "Out/a.hex", "out/a.hex"),
        ("Blink.asm", vec!["-o", "blink.eep.hex"], "blink.eep.hex", "Blink.eep.hex"),
        ("prog.asm", vec!["-e", "PROG.hex"], "prog.hex", "PROG.hex"),
        ("prog.asm", vec!["-o", "same.hex", "-e", "same.hex "], "same.hex", "same.hex "),
        ("prog.asm", vec!["-o", "same.hex", "-e", "same.hex.hex"], "same.hex", "same.hex.hex"),
        ("prog.asm", vec!["-o", "x/same.hex", "-e", "same.hex"], "x/same.hex", "same.hex"),
        ("prog.asm", vec!["-o", "caf\u{e9}.hex", "-e", "cafe\u{301}.hex"], "caf\u{e9}.hex", "cafe\u{301}.hex"),
    ].into_iter().enumerate() {
        let root = base.join(format!("alike{}", k));
        let _ = std::fs::remove_dir_all(&root);
        let (work, home) = (root.join("work"), root.join("home"));
        if ["x", "Out", "out"].iter().any(|d| std::fs::create_dir_all(work.join(d)).is_err()) || std::fs::create_dir_all(&home).is_err() {
            ctx.inconclusive("cannot create scratch directories");
            continue;
        }
        let src = work.join(src_name);
        let _ = std::fs::write(&src, text);
        let expected = fw::build_file(&src, &[home.join("cfg").join("avra-rs").join("includes")]);
        let out = Command::new(bin).arg("-s").arg(src_name).args(&opts).current_dir(&work).env("HOME", &home).env("XDG_CONFIG_HOME", home.join("cfg")).output();
        ctx.eval(1);
        ctx.count("runs:look-alike-output-names", 1);
        ctx.distinct(fw::hash_str(&format!("alike-{}", k)));
        let (Ok(out), Outcome::Ok(exp)) = (out, &expected) else {
            ctx.inconclusive("cannot run the CLI binary");
            continue;
        };
        if !(out.status.code() == Some(0) && decode_is(&work.join(flash_at), &exp.code) && decode_is(&work.join(eep_at), &exp.eeprom)) {
            ctx.violation(
                "cli/success/look-alike-output-names",
                format!("{:?} {:?}: exit {:?}; {} and {} are two files and must hold the flash and the EEPROM image ({})", src_name, opts, out.status.code(), flash_at, eep_at, fw::clip(&String::from_utf8_lossy(&out.stdout), 120)),
                json!({"clash_args": opts, "source": text, "exit": out.status.code(), "stdout": String::from_utf8_lossy(&out.stdout)}),
            );
        }
        let _ = std::fs::remove_dir_all(&root);
    }
}

/// The room for the output runs out in the middle of the file (a file size limit, with the signal that goes with it
/// ignored, as under a quota or on a nearly full disk): the write fails half way, which is a failure like any other
/// - reported, non-zero status - and never a truncated file behind a status of 0.
fn size_limited_outputs(ctx: &Ctx, bin: &Path) {
    let base = fw::verif_root().join("build").join(format!("scratch-c18-{}", std::process::id())).join("limited");
    let decode_is = |p: &Path, img: &[u8]| -> bool { std::fs::read(p).ok().and_then(|t| ihex::decode(&t).ok()).map(|d| ihex::compare(&d, img).is_ok()).unwrap_or(false) };
    let sources = [("image-of-80-KB", ".org 40000\nldi r16, 1\n.eseg\n.db 1,2,3\n"), ("image-over-1-MiB", "ldi r16, 0x5a\n.org 0x80010\nldi r17, 0xa5\n"), ("eeprom-of-60-KB", "nop\n.eseg\n.org 60000\n.db 7\n")];
    let mut k = 0;
    for (sname, text) in sources {
        for blocks in [8u32, 64, 200] {
            for with_o in [false, true] {
                k += 1;
                let root = base.join(format!("l{}", k));
                let _ = std::fs::remove_dir_all(&root);
                let (work, home) = (root.join("work"), root.join("home"));
                if std::fs::create_dir_all(&work).is_err() || std::fs::create_dir_all(&home).is_err() {
                    ctx.inconclusive("cannot create scratch directories");
                    continue;
                }
                let src = work.join("prog.asm");
                let _ = std::fs::write(&src, text);
                let expected = fw::build_file(&src, &[home.join("cfg").join("avra-rs").join("includes")]);
                let mut cmd = Command::new("sh");
                cmd.arg("-c").arg(format!("trap '' XFSZ; ulimit -f {}; exec \"$@\"", blocks)).arg("sh").arg(bin).arg("-s").arg("prog.asm");
                if with_o {
                    cmd.arg("-o").arg("out.hex").arg("-e").arg("out.eep.hex");
                }
                let out = cmd.current_dir(&work).env("HOME", &home).env("XDG_CONFIG_HOME", home.join("cfg")).output();
                ctx.eval(1);
                ctx.count("runs:output-size-limited", 1);
                ctx.distinct(fw::hash_str(&format!("limited-{}-{}-{}", sname, blocks, with_o)));
                let (Ok(out), Outcome::Ok(exp)) = (out, &expected) else {
                    ctx.inconclusive("cannot run the CLI binary under a file size limit");
                    continue;
                };
                let (hex, eep) = if with_o { (work.join("out.hex"), work.join("out.eep.hex")) } else { (work.join("prog.hex"), work.join("prog.eep.hex")) };
                let complete = decode_is(&hex, &exp.code) && (exp.eeprom.is_empty() || decode_is(&eep, &exp.eeprom));
                let said = !out.stdout.is_empty() || !out.stderr.is_empty();
                if out.status.code() == Some(0) && !complete {
                    ctx.violation(
                        "cli/write-failure/file-size-limit/exit-status-0",
                        format!("{} under `ulimit -f {}`: exit status 0, but the output files do not hold the images ({} bytes in {})", sname, blocks, std::fs::metadata(&hex).map(|m| m.len()).unwrap_or(0), hex.file_name().unwrap().to_string_lossy()),
                        json!({"size_limited": true, "source": text, "blocks": blocks, "exit": out.status.code(), "stdout": String::from_utf8_lossy(&out.stdout)}),
                    );
                } else if out.status.code() != Some(0) && !said {
                    ctx.violation("cli/write-failure/file-size-limit/silent", format!("{} under `ulimit -f {}`: exit {:?} without a word", sname, blocks, out.status.code()), json!({"size_limited": true, "source": text, "blocks": blocks, "exit": out.status.code()}));
                }
                let _ = std::fs::remove_dir_all(&root);
            }
        }
    }
}

struct Case<'a> {
    src: &'a Src,
    stem: &'static str,
    opts: (bool, bool, bool),
    fault: &'static str,
    /// which output the fault is applied to: 0 = flash, 1 = eeprom
    fault_on: u8,
}

fn check(ctx: &Ctx, bin: &Path, profile: &str, c: &Case, idx: usize, strace: bool) {
    let root = fw::verif_root().join("build").join(format!("scratch-c18-{}", std::process::id())).join(format!("r{}", idx));
    let _ = std::fs::remove_dir_all(&root);
    let work = root.join("work");
    let home = root.join("home");
    let outdir = root.join("out");
    if std::fs::create_dir_all(&work).is_err() || std::fs::create_dir_all(&home).is_err() || std::fs::create_dir_all(&outdir).is_err() {
        ctx.inconclusive("cannot create scratch directories");
        return;
    }
    // source path: relative to cwd = work, except the absolute variant
    let rel = match c.stem {
        "ABS" => "absdir/main.asm",
        "LINK" => "links/linked.asm",
        other => other,
    };
    let src_abs = work.join(rel);
    let _ = std::fs::create_dir_all(src_abs.parent().unwrap());
    if !c.src.missing_source {
        if c.stem == "LINK" {
            let target_dir = work.join("elsewhere");
            let _ = std::fs::create_dir_all(&target_dir);
            let _ = std::fs::write(target_dir.join("target.asm"), &c.src.text);
            if std::os::unix::fs::symlink(target_dir.join("target.asm"), &src_abs).is_err() {
                ctx.inconclusive("cannot create a symbolic link");
                return;
            }
            for (p, t) in &c.src.extra {
                let ep = target_dir.join(p);
                let _ = std::fs::create_dir_all(ep.parent().unwrap());
                let _ = std::fs::write(ep, t.replace("77", "78"));
            }
        } else {
            let _ = std::fs::write(&src_abs, &c.src.text);
        }
        for (p, t) in &c.src.extra {
            let ep = src_abs.parent().unwrap().join(p);
            let _ = std::fs::create_dir_all(ep.parent().unwrap());
            let _ = std::fs::write(ep, t);
        }
    }
    let src_arg = if c.stem == "ABS" { src_abs.to_string_lossy().to_string() } else { rel.to_string() };
    let stem = src_abs.file_stem().unwrap().to_string_lossy().to_string();
    let default_hex = src_abs.parent().unwrap().join(format!("{}.hex", stem));
    let default_eep = src_abs.parent().unwrap().join(format!("{}.eep.hex", stem));
    // output paths
    let (use_o, use_e, verbose) = c.opts;
    let long_name = "n".repeat(300);
    let faulty_path = |base: &str| -> PathBuf {
        match c.fault {
            "dir-missing" => outdir.join("no/such/dir").join(base),
            "is-directory" => {
                let p = outdir.join(format!("{}.d", base));
                let _ = std::fs::create_dir_all(&p);
                p
            }
            "parent-is-file" => {
                let f = outdir.join("plainfile");
                let _ = std::fs::write(&f, b"i am a file");
                f.join(base)
            }
            "dev-full" => PathBuf::from("/dev/full"),
            "name-too-long" => outdir.join(format!("{}{}", long_name, base)),
            _ => outdir.join(base),
        }
    };
    let o_path = if use_o { Some(if c.fault != "none" && c.fault_on == 0 { faulty_path("flash.hex") } else { outdir.join("custom-flash.hex") }) } else { None };
    let e_path = if use_e { Some(if c.fault != "none" && c.fault_on == 1 { faulty_path("eeprom.hex") } else { outdir.join("custom.eep.hex") }) } else { None };
    // a fault needs the matching option; otherwise it is the no-fault case
    let fault_active = c.fault != "none" && ((c.fault_on == 0 && use_o) || (c.fault_on == 1 && use_e));
    // sentinels at the default output places (must survive a failed build untouched)
    let sentinel = b"SENTINEL - must not change when the build fails\n";
    let _ = std::fs::write(&default_hex, sentinel);
    let _ = std::fs::write(&default_eep, sentinel);
    // the options in their short form, their long form, and the long form with `=` (by case number)
    let spelling = idx % 3;
    let mut args: Vec<String> = vec![];
    let mut opt = |short: &str, long: &str, value: Option<String>| match (spelling, value) {
        (0, Some(v)) => args.extend([short.to_string(), v]),
        (1, Some(v)) => args.extend([long.to_string(), v]),
        (_, Some(v)) => args.push(format!("{}={}", long, v)),
        (0, None) => args.push(short.to_string()),
        (_, None) => args.push(long.to_string()),
    };
    opt("-s", "--source", Some(src_arg.clone()));
    if let Some(p) = &o_path {
        opt("-o", "--output", Some(p.to_string_lossy().to_string()));
    }
    if let Some(p) = &e_path {
        opt("-e", "--eeprom", Some(p.to_string_lossy().to_string()));
    }
    if verbose {
        opt("-v", "--verbosity", None);
    }
    // expected result: the library, in process, on the same file
    let std_inc = home.join("cfg").join("avra-rs").join("includes");
    let expected = if c.src.missing_source { Outcome::Err("missing source".into()) } else { fw::build_file(&src_abs, &[std_inc]) };
    let before = snapshot(&root);
    let run = if strace {
        let log = root.join("strace.log");
        let mut full: Vec<String> = vec!["-f".into(), "-e".into(), "trace=%file".into(), "-o".into(), log.to_string_lossy().to_string(), bin.to_string_lossy().to_string()];
        full.extend(args.clone());
        let r = run_cli(Path::new("strace"), &work, &home, &full);
        let _ = std::fs::rename(&log, root.parent().unwrap().join(format!("strace-{}.log", idx)));
        r
    } else {
        run_cli(bin, &work, &home, &args)
    };
    let Some(run) = run else {
        ctx.inconclusive("cannot run the CLI binary");
        let _ = std::fs::remove_dir_all(&root);
        return;
    };
    let after = snapshot(&root);
    ctx.eval(1);
    ctx.count(&format!("runs:{}", profile), 1);
    let said_something = !run.stdout.trim().is_empty() || !run.stderr.trim().is_empty();
    let case_json = json!({"source_kind": c.src.name, "source": c.src.text, "stem": c.stem, "args": args, "fault": if fault_active { c.fault } else { "none" }, "fault_on": if c.fault_on == 0 { "flash" } else { "eeprom" }, "profile": profile,
        "exit": run.exit, "stdout": fw::clip(&run.stdout, 400), "stderr": fw::clip(&run.stderr, 400), "expected": expected.brief()});
    let opt_sig = format!("{}{}{}", if use_o { "o" } else { "" }, if use_e { "e" } else { "" }, if verbose { "v" } else { "" });
    let opt_sig = if opt_sig.is_empty() { "plain".to_string() } else { opt_sig };
    let changed: Vec<String> = {
        let mut v = vec![];
        for (p, st) in &after {
            if before.get(p) != Some(st) {
                v.push(format!("{}{}", if before.contains_key(p) { "modified " } else { "created " }, p.strip_prefix(&root).unwrap_or(p).display()));
            }
        }
        for p in before.keys() {
            if !after.contains_key(p) {
                v.push(format!("removed {}", p.strip_prefix(&root).unwrap_or(p).display()));
            }
        }
        v
    };
    if run.exit.is_none() {
        ctx.violation(format!("cli/{}/killed-by-signal", c.src.name), format!("the tool died on a signal: {}", fw::clip(&run.stderr, 200)), case_json.clone());
        let _ = std::fs::remove_dir_all(&root);
        return;
    }
    if run.stderr.contains("panicked at") {
        ctx.violation(format!("cli/{}/panic", c.src.name), format!("the tool panicked: {}", fw::clip(&run.stderr, 200)), case_json.clone());
    }
    match &expected {
        Outcome::Err(_) | Outcome::Panic(_) => {
            // build fails: non-zero exit, reported, nothing created or altered
            if run.exit == Some(0) {
                ctx.violation(format!("cli/build-failure/{}/exit-status-0", c.src.name), format!("build of `{}` fails but the exit status is 0 (stdout: {})", c.src.name, fw::clip(run.stdout.trim(), 120)), case_json.clone());
            }
            if !said_something {
                ctx.violation(format!("cli/build-failure/{}/silent", c.src.name), "build fails and nothing is printed".to_string(), case_json.clone());
            }
            if !changed.is_empty() {
                ctx.violation(format!("cli/build-failure/{}/files-touched", c.src.name), format!("build fails but files changed: {:?}", changed), case_json.clone());
            }
        }
        Outcome::Ok(b) => {
            let flash_path = o_path.clone().unwrap_or(default_hex.clone());
            let eep_path = e_path.clone().unwrap_or(default_eep.clone());
            let flash_faulty = fault_active && c.fault_on == 0;
            let eep_faulty = fault_active && c.fault_on == 1 && !b.eeprom.is_empty();
            let mut should_fail = false;
            for (which, path, image, faulty) in [("flash", &flash_path, &b.code, flash_faulty), ("eeprom", &eep_path, &b.eeprom, eep_faulty)] {
                if image.is_empty() && which == "eeprom" {
                    // an empty EEPROM image is not written (the file must then not appear or change: see `allowed` below)
                    continue;
                }
                // the flash image is written whatever it holds: an empty one as a file that decodes to nothing, so
                // that a file left by an earlier build (the sentinel) does not pass for the result of this one
                if faulty {
                    should_fail = true;
                    continue;
                }
                match std::fs::read(path) {
                    Err(_) => ctx.violation(
                        format!("cli/success/{}/{}-file-missing/{}", opt_sig, which, if c.stem == "ABS" { "abs" } else { c.stem }),
                        format!("{} image of {} bytes built, but no file at {}", which, image.len(), path.strip_prefix(&root).unwrap_or(path).display()),
                        case_json.clone(),
                    ),
                    Ok(text) => match ihex::decode(&text).and_then(|d| ihex::compare(&d, image)) {
                        Ok(()) => ctx.count(&format!("hex_files_decoded_and_matched:{}", which), 1),
                        Err(e) => ctx.violation(format!("cli/success/{}/{}-file-content", opt_sig, which), format!("{} file does not decode to the library's image: {}", which, e), case_json.clone()),
                    },
                }
            }
            if should_fail {
                if run.exit == Some(0) {
                    ctx.violation(format!("cli/write-failure/{}/exit-status-0", c.fault), format!("output ({}) cannot be written ({}) but the exit status is 0", if c.fault_on == 0 { "flash" } else { "eeprom" }, c.fault), case_json.clone());
                }
                if !said_something {
                    ctx.violation(format!("cli/write-failure/{}/silent", c.fault), "output cannot be written and nothing is printed".to_string(), case_json.clone());
                }
            } else if run.exit != Some(0) {
                ctx.violation(format!("cli/success/{}/nonzero-exit", opt_sig), format!("build and writes succeed but exit status is {:?}", run.exit), case_json.clone());
            }
            // nothing but the expected output files may appear or change
            let allowed: Vec<PathBuf> = vec![flash_path.clone(), eep_path.clone()];
            for ch in &changed {
                let ok = allowed.iter().any(|a| ch.ends_with(&a.strip_prefix(&root).unwrap_or(a).display().to_string()));
                if !ok {
                    ctx.violation(format!("cli/success/{}/unexpected-file-change", opt_sig), format!("unexpected change: {}", ch), case_json.clone());
                }
            }
        }
    }
    let _ = std::fs::remove_dir_all(&root);
}

fn cases<'a>(srcs: &'a [Src], tier: Tier) -> Vec<Case<'a>> {
    let mut v = vec![];
    for (si, s) in srcs.iter().enumerate() {
        for (ti, stem) in STEMS.iter().enumerate() {
            for (oi, o) in OPTS.iter().enumerate() {
                // quick: a covering slice (every source x every stem, every source x every option set, rotating the rest)
                let full = tier == Tier::Thorough;
                if !full && !(ti == (si + oi) % STEMS.len() || oi == (si + ti) % OPTS.len()) {
                    continue;
                }
                v.push(Case { src: s, stem, opts: *o, fault: "none", fault_on: 0, });
            }
        }
    }
    // output faults: only meaningful for sources that build; both outputs
    for s in srcs.iter().filter(|s| s.name.starts_with("valid") || s.name == "eeprom-only" || s.name == "syntax-error") {
        for f in FAULTS.iter().skip(1) {
            for on in [0u8, 1u8] {
                for o in [(true, true, false), (true, false, false), (false, true, true)] {
                    if (on == 0 && !o.0) || (on == 1 && !o.1) {
                        continue;
                    }
                    v.push(Case { src: s, stem: "a.asm", opts: o, fault: f, fault_on: on });
                }
            }
        }
    }
    v
}

fn strace_leg(ctx: &Ctx, bin: &Path, srcs: &[Src]) {
    if Command::new("strace").arg("-V").output().is_err() {
        ctx.put("strace_leg", json!("strace not available: skipped"));
        return;
    }
    let base = fw::verif_root().join("build").join(format!("scratch-c18-{}", std::process::id()));
    let mut checked = 0;
    let mut idx = 900_000;
    for s in srcs.iter().filter(|s| !s.name.starts_with("valid") && s.name != "empty" && s.name != "comment-only" && s.name != "eeprom-only") {
        for o in [(false, false, false), (true, true, true)] {
            idx += 1;
            let c = Case { src: s, stem: "a.asm", opts: o, fault: "none", fault_on: 0 };
            check(ctx, bin, "dev+strace", &c, idx, true);
            let log = base.join(format!("strace-{}.log", idx));
            if let Ok(text) = std::fs::read_to_string(&log) {
                for line in text.lines() {
                    let writes = (line.contains("openat(") || line.contains("open(") || line.contains("creat(")) && (line.contains("O_WRONLY") || line.contains("O_RDWR") || line.contains("O_CREAT") || line.contains("O_TRUNC"));
                    let mutates = line.contains("unlink") || line.contains("rename") || line.contains("mkdir(") || line.contains("rmdir(");
                    let in_scratch = line.contains(&format!("r{}/", idx)) || line.contains("\"a.hex\"") || line.contains("\"a.eep.hex\"") || line.contains("custom");
                    let failed_call = line.contains("= -1 ");
                    if (writes || mutates) && in_scratch && !failed_call {
                        ctx.violation(format!("cli/build-failure/{}/syscall-writes", s.name), format!("failing build issued: {}", fw::clip(line, 200)), json!({"source_kind": s.name, "source": s.text, "strace_line": line}));
                    }
                }
                checked += 1;
                let _ = std::fs::remove_file(&log);
            }
        }
    }
    ctx.put("strace_leg", json!({"failing_builds_traced": checked}));
}

pub fn run(ctx: &Ctx) -> i32 {
    let bin = match build_cli(false) {
        Ok(b) => b,
        Err(e) => {
            println!("INCONCLUSIVE property=C18 cannot build the CLI from /repo: {}", fw::clip(&e, 400));
            return 2;
        }
    };
    let srcs = sources();
    let cs = cases(&srcs, ctx.tier);
    ctx.put("cases", json!(cs.len()));
    for (i, c) in cs.iter().enumerate() {
        ctx.distinct(fw::hash_str(&format!("{}|{}|{:?}|{}|{}", c.src.name, c.stem, c.opts, c.fault, c.fault_on)));
        if i % (cs.len() / 6 + 1) == 0 {
            ctx.sample(json!({"source_kind": c.src.name, "stem": c.stem, "options(-o,-e,-v)": [c.opts.0, c.opts.1, c.opts.2], "fault": c.fault, "fault_on": c.fault_on}));
        }
    }
    fw::par_for(cs.len() as u64, 1, |i| check(ctx, &bin, "dev", &cs[i as usize], i as usize, false));
    odd_names_and_clashes(ctx, &bin);
    size_limited_outputs(ctx, &bin);
    if ctx.tier == Tier::Thorough {
        match build_cli(true) {
            Ok(rb) => fw::par_for(cs.len() as u64, 1, |i| check(ctx, &rb, "release", &cs[i as usize], 100_000 + i as usize, false)),
            Err(e) => ctx.inconclusive(format!("release CLI build failed: {}", fw::clip(&e, 200))),
        }
        strace_leg(ctx, &bin, &srcs);
    }
    let _ = std::fs::remove_dir_all(fw::verif_root().join("build").join(format!("scratch-c18-{}", std::process::id())));
    ctx.exhaustive.store(ctx.tier == Tier::Thorough, std::sync::atomic::Ordering::Relaxed);
    fw::finish(
        ctx,
        "the avra-rs binary built from the working tree, run in fresh scratch directories: 15 sources (valid with/without EEPROM data, with include, images over 64 KiB and over 1 MiB, empty, comment-only, EEPROM-only, syntax / pass-2 / range / capacity / .error / missing-include failures, missing source) x 5 stems (a.asm, a.b.asm, no extension, sub-directory, absolute path) x 6 option sets over -o/-e/-v (quick: a covering slice; thorough: complete, dev and release binaries, strace leg) + 5 output faults (missing directory, path is a directory, parent is a regular file, /dev/full, name too long) on either output; sentinel files at the default output places; plus source names that are not valid UTF-8 (outputs must bear the same bytes) and option sets that send both images to one path (must fail visibly, or the flash image must be where it was sent); distinct_nontrivial = distinct (source, stem, options, fault) tuples",
        &[
            "expected images come from build_file in process on the same file; files are decoded with refmodel/ihex.rs",
            "an empty flash image producing no file (message, exit 0) is accepted; HOME and XDG_CONFIG_HOME point into the scratch directory",
        ],
    )
}

pub fn replay(ctx: &Ctx, case: &Value) -> i32 {
    // re-run the matching generated case(s)
    let bin = match build_cli(case["profile"].as_str() == Some("release")) {
        Ok(b) => b,
        Err(_) => return 2,
    };
    if case["size_limited"].as_bool() == Some(true) {
        size_limited_outputs(ctx, &bin);
        ctx.distinct(1);
        ctx.distinct(2);
        return fw::finish(ctx, "replay", &[]);
    }
    if case.get("odd_name_bytes").is_some() || case.get("clash_args").is_some() {
        odd_names_and_clashes(ctx, &bin);
        ctx.distinct(1);
        ctx.distinct(2);
        return fw::finish(ctx, "replay", &[]);
    }
    let srcs = sources();
    let cs = cases(&srcs, Tier::Thorough);
    let mut n = 0;
    for (i, c) in cs.iter().enumerate() {
        let args_match = case["source_kind"].as_str() == Some(c.src.name) && case["stem"].as_str() == Some(c.stem);
        let fault = case["fault"].as_str().unwrap_or("none");
        let on = if case["fault_on"].as_str() == Some("eeprom") { 1 } else { 0 };
        let has = |short: &str, long: &str| case["args"].as_array().map(|a| a.iter().any(|x| x.as_str().map(|t| t == short || t == long || t.starts_with(&format!("{}=", long))).unwrap_or(false))).unwrap_or(false);
        if args_match && (c.fault == fault || (fault == "none" && c.fault == "none")) && (fault == "none" || c.fault_on == on) && c.opts == (has("-o", "--output"), has("-e", "--eeprom"), has("-v", "--verbosity")) {
            // (all three option spellings)
            check(ctx, &bin, "dev", c, 500_001 + 3 * i, false);
            check(ctx, &bin, "dev", c, 500_002 + 3 * i, false);
            check(ctx, &bin, "dev", c, 500_000 + 3 * i, false);
            n += 1;
        }
    }
    if n == 0 {
        println!("replay: no matching case");
        return 2;
    }
    ctx.distinct(1);
    ctx.distinct(2);
    let _ = std::fs::remove_dir_all(fw::verif_root().join("build").join(format!("scratch-c18-{}", std::process::id())));
    fw::finish(ctx, "replay", &[])
}
