//! Spelling choices the language treats as equivalent (radix, letter case, blanks).

use crate::fw::Rng;

/// non-negative integer in a randomly chosen radix the grammar documents
pub fn num(v: i64, rng: &mut Rng) -> String {
    debug_assert!(v >= 0);
    match rng.below(8) {
        0 | 1 | 2 => format!("{}", v),
        3 => {
            if rng.chance(1, 2) {
                format!("0x{:x}", v)
            } else {
                format!("0x{:X}", v)
            }
        }
        4 => {
            if rng.chance(1, 2) {
                format!("${:x}", v)
            } else {
                format!("${:X}", v)
            }
        }
        5 => {
            if v < (1 << 24) {
                format!("0b{:b}", v)
            } else {
                format!("{}", v)
            }
        }
        6 => format!("0{:o}", v), // leading-zero octal ("00" is octal zero)
        _ => format!("{}", v),
    }
}

pub fn radix_name(s: &str) -> &'static str {
    if s.starts_with("0x") {
        "hex0x"
    } else if s.starts_with('$') {
        "hex$"
    } else if s.starts_with("0b") {
        "bin"
    } else if s.len() > 1 && s.starts_with('0') {
        "oct"
    } else {
        "dec"
    }
}

pub fn case(s: &str, rng: &mut Rng) -> String {
    match rng.below(4) {
        0 => s.to_uppercase(),
        1 => {
            let mut out = String::new();
            for c in s.chars() {
                if rng.chance(1, 2) {
                    out.extend(c.to_uppercase());
                } else {
                    out.extend(c.to_lowercase());
                }
            }
            out
        }
        _ => s.to_lowercase(),
    }
}

pub fn reg(n: i64, rng: &mut Rng) -> String {
    if rng.chance(1, 3) {
        format!("R{}", n)
    } else {
        format!("r{}", n)
    }
}

pub fn blanks(rng: &mut Rng) -> &'static str {
    *rng.pick(&["", "", " ", " ", "  ", "\t", " \t"])
}

pub fn blanks1(rng: &mut Rng) -> &'static str {
    *rng.pick(&[" ", " ", "  ", "\t", " \t", "\t\t"])
}
