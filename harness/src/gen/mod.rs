pub mod spell;
