//! C14 — surface syntax that carries no meaning never changes the output.
//!
//! Base programs come from the generators of C02/C06/C08/C09/C10 (IR). Each is printed once
//! canonically and several times with independently randomised meaning-free spelling: trailing
//! `;` `//` `/* */` comments, comment-only and blank lines, blanks/tabs around mnemonics, commas,
//! operators, parentheses and function calls, LF vs CRLF, letter case of mnemonics, registers,
//! X/Y/Z, function names and symbol references, radix of literals. Oracle: identical images, sizes,
//! RAM extent, Ok/Err status and messages (line numbers removed, since inserted lines renumber them).

use crate::fw::{self, Ctx, Outcome, Rng};
use crate::gen::ir::{self, Node, Style};
use crate::props::{c02, c06gen, c08gen, c09, c10};
use serde_json::{json, Value};

fn strip_lines(msgs: &[String]) -> Vec<String> {
    msgs.iter()
        .map(|m| match m.rfind("line: ") {
            Some(p) => m[..p].to_string(),
            None => m.clone(),
        })
        .collect()
}

fn base(rng: &mut Rng, which: u64) -> (Vec<Node>, &'static str) {
    let (mut nodes, kind) = match which % 5 {
        0 => (c02::gen_program(rng, 40).nodes, "layout"),
        1 => (c06gen(rng), "data"),
        2 => (c08gen(rng), "conditional"),
        3 => (c09::gen(rng).nodes, "macro"),
        _ => (c10::gen(rng).nodes, "symbol"),
    };
    // every third program ends in reservations whose size is a function call or a sum: what such a line
    // reserves is not this property's business, but it is the same however the line is spelled
    if rng.chance(1, 3) {
        use crate::gen::ir::{DataOp, Seg};
        use crate::refmodel::expr::{Bin, E};
        let f = |rng: &mut Rng| *rng.pick(&["low", "high", "byte2", "lwrd", "exp2"]);
        let (f1, f2) = (f(rng), f(rng));
        nodes.push(Node::Seg(Seg::Data));
        nodes.push(Node::Reserve { label: Some("c14_sized_by_function".into()), n: E::Func(f1, Box::new(E::Lit(if f1 == "exp2" { 3 } else { 0x0203 }, 1))) });
        nodes.push(Node::Reserve { label: Some("c14_sized_by_sum".into()), n: E::bin(Bin::Add, E::Lit(1, 0), E::Lit(2, 1)) });
        nodes.push(Node::Reserve { label: Some("c14_after_them".into()), n: E::Lit(1, 0) });
        nodes.push(Node::Seg(Seg::Eeprom));
        nodes.push(Node::Reserve { label: None, n: E::Func(f2, Box::new(E::Lit(if f2 == "exp2" { 2 } else { 0x0302 }, 1))) });
        nodes.push(Node::Data { label: Some("c14_ee_after".into()), width: 1, ops: vec![DataOp::E(E::Lit(7, 0))] });
        nodes.push(Node::Seg(Seg::Code));
        nodes.push(Node::Data { label: None, width: 2, ops: vec![DataOp::E(E::Sym("c14_sized_by_function".into())), DataOp::E(E::Sym("c14_sized_by_sum".into())), DataOp::E(E::Sym("c14_after_them".into())), DataOp::E(E::Sym("C14_EE_AFTER".into()))] });
    }
    (nodes, kind)
}

#[derive(Clone, Copy)]
struct Dim {
    name: &'static str,
    comments: bool,
    extra: bool,
    crlf: bool,
    case: bool,
    radix: bool,
    blanks: bool,
    unary: bool,
}

const DIMS: [Dim; 9] = [
    Dim { name: "comments", comments: true, extra: false, crlf: false, case: false, radix: false, blanks: false, unary: false },
    Dim { name: "extra-lines", comments: false, extra: true, crlf: false, case: false, radix: false, blanks: false, unary: false },
    Dim { name: "crlf", comments: false, extra: false, crlf: true, case: false, radix: false, blanks: false, unary: false },
    Dim { name: "letter-case", comments: false, extra: false, crlf: false, case: true, radix: false, blanks: false, unary: false },
    Dim { name: "radix", comments: false, extra: false, crlf: false, case: false, radix: true, blanks: false, unary: false },
    Dim { name: "blanks", comments: false, extra: false, crlf: false, case: false, radix: false, blanks: true, unary: false },
    Dim { name: "blanks-after-unary-and-in-displacement", comments: false, extra: false, crlf: false, case: false, radix: false, blanks: true, unary: true },
    Dim { name: "all", comments: true, extra: true, crlf: false, case: true, radix: true, blanks: true, unary: true },
    Dim { name: "all+crlf", comments: true, extra: true, crlf: true, case: true, radix: true, blanks: true, unary: true },
];

fn respell(nodes: &[Node], d: &Dim, rng: Rng) -> String {
    let mut st = Style { rng: Some(rng), comments: d.comments, extra_lines: d.extra, crlf: d.crlf, case: d.case, radix: d.radix, blanks: d.blanks, unary_blanks: d.unary };
    ir::print(nodes, &mut st)
}

fn check(ctx: &Ctx, i: u64, respellings: u64) {
    let mut rng = Rng::for_case(ctx.seed, 0xC14, i);
    let (nodes, family) = base(&mut rng, i);
    let canon = ir::print_canonical(&nodes);
    let a = fw::build_str(&canon);
    ctx.distinct(fw::hash_str(&canon));
    ctx.count(&format!("base:{}:{}", family, a.kind()), 1);
    if i < 2 {
        let d = &DIMS[7];
        ctx.sample(json!({"family": family, "canonical": canon.lines().take(14).collect::<Vec<_>>(), "respelled": respell(&nodes, d, Rng::for_case(ctx.seed, 0xC14_1, i)).lines().take(18).collect::<Vec<_>>()}));
    }
    if a.is_panic() {
        // a panic on the canonical text is C16's business; nothing to compare against
        ctx.count("base_panics_skipped", 1);
        return;
    }
    if a.is_ok() && i % 3 == 0 {
        existence_tests(ctx, i, &nodes, &canon);
    }
    for k in 0..respellings {
        let d = &DIMS[((i + k) % DIMS.len() as u64) as usize];
        let text = respell(&nodes, d, Rng::for_case(ctx.seed, 0xC14_2 + k, i));
        if text == canon {
            continue;
        }
        let b = fw::build_str(&text);
        ctx.eval(1);
        ctx.count(&format!("respelling:{}", d.name), 1);
        let same = match (&a, &b) {
            (Outcome::Ok(x), Outcome::Ok(y)) => {
                x.code == y.code && x.eeprom == y.eeprom && (x.flash_size, x.eeprom_size, x.ram_size, x.ram_filling) == (y.flash_size, y.eeprom_size, y.ram_size, y.ram_filling) && strip_lines(&x.messages) == strip_lines(&y.messages)
            }
            (Outcome::Err(_), Outcome::Err(_)) => true,
            _ => false,
        };
        if !same {
            // which line differs? find the first respelled line that alone breaks equality is expensive; report the dimension
            let aspect = match (&a, &b) {
                (Outcome::Ok(_), Outcome::Ok(_)) => "output-changed",
                (Outcome::Ok(_), Outcome::Err(_)) => "respelled-rejected",
                (Outcome::Err(_), Outcome::Ok(_)) => "respelled-accepted",
                (_, Outcome::Panic(_)) => "panic",
                _ => "other",
            };
            ctx.violation(
                format!("syntax/{}/{}", d.name, aspect),
                format!("respelling ({}) of a {} program changed the result: {:?} -> {}", d.name, family, a.kind(), fw::clip(&format!("{:?}", b.brief()), 200)),
                json!({"source": canon, "respelled": text, "dimension": d.name, "family": family, "observed": a.brief(), "observed_respelled": b.brief()}),
            );
        }
    }
}

/// A symbol reference where a directive tests whether a name exists (`.ifdef` / `.ifndef` on an `.equ` or `.set`
/// name or a label): whatever the tool takes such a test to mean, it means the same in every letter case.
fn existence_tests(ctx: &Ctx, i: u64, nodes: &[Node], canon: &str) {
    let mut rng = Rng::for_case(ctx.seed, 0xC14_E, i);
    let names: Vec<String> = nodes
        .iter()
        .filter_map(|n| match n {
            Node::Equ(name, _) | Node::Set(name, _) | Node::Label(name) => Some(name.clone()),
            Node::Instr { label: Some(l), .. } | Node::Data { label: Some(l), .. } | Node::Reserve { label: Some(l), .. } => Some(l.clone()),
            _ => None,
        })
        .collect();
    if names.is_empty() || canon.to_lowercase().contains(".exit") {
        return;
    }
    let name = rng.pick(&names).clone();
    let dir = *rng.pick(&[".ifdef", ".ifndef", "#ifdef", "#ifndef"]);
    let tail = |spelled: &str| format!("{}.cseg\n{} {}\n\t.dw 0x1111\n.dseg\n\t.byte 2\n.cseg\n.else\n\t.dw 0x2222\n.endif\n", canon, dir, spelled);
    let spellings = [name.to_lowercase(), name.to_uppercase(), crate::gen::spell::case(&name, &mut rng), name.clone()];
    let outs: Vec<Outcome> = spellings.iter().map(|s| fw::build_str(&tail(s))).collect();
    ctx.eval(outs.len() as u64);
    ctx.count("existence_tests_on_symbols", 1);
    for (k, o) in outs.iter().enumerate().skip(1) {
        let same = match (&outs[0], o) {
            (Outcome::Ok(x), Outcome::Ok(y)) => x.code == y.code && x.eeprom == y.eeprom && x.ram_filling == y.ram_filling,
            (Outcome::Err(_), Outcome::Err(_)) => true,
            _ => false,
        };
        if !same {
            ctx.violation(
                format!("syntax/case/existence-test-on-a-symbol/{}", dir.trim_start_matches(['.', '#'])),
                format!("`{} {}` and `{} {}` select different branches (or one of them fails): {:?} vs {:?}", dir, spellings[0], dir, spellings[k], outs[0].kind(), o.kind()),
                json!({"source": tail(&spellings[0]), "respelled": tail(&spellings[k]), "dimension": "case", "family": "existence-test", "observed": outs[0].brief(), "observed_respelled": o.brief()}),
            );
            break;
        }
    }
}

/// Real source files of the repository (tests/*.asm with their includes, the shipped part files they
/// pull in): text-level respellings that are safe without parsing - trailing comments on lines without
/// strings or comments, blank / comment-only lines, CRLF - outside macro bodies. build_file must not care.
fn real_files_leg(ctx: &Ctx) {
    let tests = fw::repo_root().join("tests");
    let incs = fw::repo_root().join("includes");
    let scratch = fw::verif_root().join("build").join(format!("scratch-c14-{}", std::process::id()));
    let mains = ["builder_simple.asm", "include_test.asm", "include_path_test.asm"];
    for (mi, main) in mains.iter().enumerate() {
        let orig = tests.join(main);
        let Ok(text) = std::fs::read_to_string(&orig) else {
            ctx.note(format!("real file {} not found: skipped", main));
            continue;
        };
        let a = fw::build_file(&orig, &[incs.clone()]);
        for round in 0..6u64 {
            let mut rng = Rng::for_case(ctx.seed, 0xC14_F, (mi as u64) << 8 | round);
            let dir = scratch.join(format!("m{}r{}", mi, round));
            // a private copy of tests/ so that includes relative to the main file keep working
            let _ = std::fs::remove_dir_all(&dir);
            if copy_dir(&tests, &dir).is_err() {
                ctx.inconclusive("cannot copy tests/ to scratch");
                continue;
            }
            let crlf = round % 2 == 1;
            let mut out = String::new();
            let mut in_macro = false;
            for line in text.lines() {
                let t = line.trim_start().to_lowercase();
                if t.starts_with(".macro") {
                    in_macro = true;
                }
                let nl = if crlf { "\r\n" } else { "\n" };
                if !in_macro && rng.chance(1, 5) {
                    out.push_str(match rng.below(3) {
                        0 => "",
                        1 => "   \t",
                        _ => "; inserted comment line, with .endif and \"quotes\"",
                    });
                    out.push_str(nl);
                }
                out.push_str(line);
                let plain = !line.contains(';') && !line.contains("//") && !line.contains("/*") && !line.contains('"') && !line.contains('\'');
                if !in_macro && plain && !line.trim().is_empty() && rng.chance(1, 3) {
                    out.push_str(match rng.below(3) {
                        0 => " ; trailing",
                        1 => "\t// trailing, too",
                        _ => " /* c-style */",
                    });
                }
                out.push_str(nl);
                if t.starts_with(".endm") {
                    in_macro = false;
                }
            }
            let respelled = dir.join(main);
            if std::fs::write(&respelled, &out).is_err() {
                ctx.inconclusive("cannot write respelled file");
                continue;
            }
            let b = fw::build_file(&respelled, &[incs.clone()]);
            ctx.eval(1);
            ctx.count("real_file_respellings", 1);
            let same = match (&a, &b) {
                (Outcome::Ok(x), Outcome::Ok(y)) => x.code == y.code && x.eeprom == y.eeprom && (x.flash_size, x.eeprom_size, x.ram_size, x.ram_filling) == (y.flash_size, y.eeprom_size, y.ram_size, y.ram_filling) && strip_lines(&x.messages) == strip_lines(&y.messages),
                (Outcome::Err(_), Outcome::Err(_)) => true,
                _ => false,
            };
            if !same {
                ctx.violation(
                    format!("syntax/real-file/{}/{}", main, if crlf { "comments+lines+crlf" } else { "comments+lines" }),
                    format!("respelling {} changed the result: {:?} -> {}", main, a.kind(), fw::clip(&format!("{:?}", b.brief()), 200)),
                    json!({"source": text, "respelled": out, "dimension": "real-file", "family": "real-file", "observed": a.brief(), "observed_respelled": b.brief(), "real_file": main}),
                );
            }
            let _ = std::fs::remove_dir_all(&dir);
        }
    }
    let _ = std::fs::remove_dir_all(&scratch);
}

fn copy_dir(from: &std::path::Path, to: &std::path::Path) -> std::io::Result<()> {
    std::fs::create_dir_all(to)?;
    for e in std::fs::read_dir(from)? {
        let e = e?;
        let p = e.path();
        let dst = to.join(e.file_name());
        if p.is_dir() {
            copy_dir(&p, &dst)?;
        } else {
            std::fs::copy(&p, &dst)?;
        }
    }
    Ok(())
}

/// Meaningless lines in volume: comment-only, blank and whitespace-only lines by the hundred inside a macro
/// body that is called tens of thousands of times, by the million between the lines of a program.
fn meaningless_lines_in_volume(ctx: &Ctx) {
    let filler = |k: usize| -> String {
        let kinds = ["; note\n", "\n", "\t\n", "// note\n", "   \n", "/* note */\n", "\t; indented note\n", " \t // x\n"];
        (0..k).map(|i| kinds[i % kinds.len()]).collect()
    };
    let mut jobs: Vec<(String, String, String)> = vec![];
    let sets: Vec<(usize, usize)> = if ctx.tier == fw::Tier::Thorough { vec![(34_000, 130), (2_200, 2_000), (70_000, 130), (34_000, 300), (140_000, 40)] } else { vec![(34_000, 130), (2_200, 2_000)] };
    for (calls, lines) in sets {
        let plain = format!(".macro step\n\tdec @0\n.endm\n{}", "\tstep r16\n".repeat(calls));
        let commented = format!(".macro step\n{}\tdec @0\n{}.endm\n{}", filler(lines / 2), filler(lines - lines / 2), "\tstep r16\n".repeat(calls));
        jobs.push((format!("in-macro-body/{}-lines-x-{}-calls", lines, calls), plain, commented));
    }
    let n_top = ctx.tier.pick(1_200_000usize, 5_000_000usize);
    let plain: String = (0..100).map(|i| format!("\tldi r16, {}\n", i)).collect();
    let commented: String = (0..100).map(|i| format!("{}\tldi r16, {}\n", filler(n_top / 100), i)).collect();
    jobs.push((format!("between-the-lines/{}-lines", n_top), plain, commented));
    let plain = ".if 0\n\tnop\n.endif\n.macro never_called\n\tnop\n.endm\n\tinc r2\n".to_string();
    let commented = format!(".if 0\n{}\tnop\n{}.endif\n.macro never_called\n{}\tnop\n.endm\n\tinc r2\n", filler(300_000), filler(300_000), filler(300_000));
    jobs.push(("in-unassembled-text/900000-lines".to_string(), plain, commented));
    fw::par_items(&jobs, |_, (name, plain, commented)| {
        let a = fw::build_str(plain);
        let b = fw::build_str(commented);
        ctx.eval(1);
        ctx.count("meaningless_lines_in_volume_builds", 1);
        let same = match (&a, &b) {
            (Outcome::Ok(x), Outcome::Ok(y)) => x.code == y.code && x.eeprom == y.eeprom && x.ram_filling == y.ram_filling && !x.code.is_empty(),
            _ => false,
        };
        if !same {
            ctx.violation(
                format!("syntax/meaningless-lines-in-volume/{}", name.split('/').next().unwrap_or("")),
                format!("{}: without them {}, with them {}", name, fw::clip(&format!("{:?}", a.brief()), 60), fw::clip(&format!("{:?}", b.brief()), 160)),
                json!({"source": plain, "respelled": commented, "volume": name}),
            );
        }
    });
}

pub fn run(ctx: &Ctx) -> i32 {
    meaningless_lines_in_volume(ctx);
    let n = ctx.tier.pick(2_000u64, 500_000u64);
    let k = ctx.tier.pick(8u64, 16u64);
    fw::par_for(n, 16, |i| check(ctx, i, k));
    real_files_leg(ctx);
    fw::finish(
        ctx,
        "base programs from the layout, data, conditional, macro and symbol generators (valid and failing ones), each rebuilt under 8 (thorough 16) respellings drawn from 9 dimension sets: trailing ;, // and /* */ comments with hostile texts, inserted blank / whitespace-only / comment-only lines, LF vs CRLF, letter case of mnemonics, registers, X/Y/Z, pc, function names and symbol references, radix of every literal (decimal, 0x, $, 0b, leading-zero octal), blanks and tabs after mnemonics, around commas, binary operators, `=`, inside parentheses and function calls, after unary operators and around the `+` of a displacement, and all of them together; plus the repository's own tests/*.asm (with the part files they include) under text-level comment / blank-line / CRLF respellings through build_file; distinct_nontrivial = distinct canonical base programs",
        &[
            "not respelled because the statement does not list them: directive names, #define names, macro names, label definitions, indentation before a label; nothing is inserted inside macro bodies (they are stored as text)",
            "messages are compared with their line numbers removed",
        ],
    )
}

pub fn replay(ctx: &Ctx, case: &Value) -> i32 {
    if case["real_file"].is_string() {
        real_files_leg(ctx);
        ctx.distinct(1);
        ctx.distinct(2);
        return fw::finish(ctx, "replay", &[]);
    }
    let a = fw::build_str(case["source"].as_str().unwrap_or(""));
    let b = fw::build_str(case["respelled"].as_str().unwrap_or(""));
    ctx.eval(1);
    ctx.distinct(1);
    ctx.distinct(2);
    let same = match (&a, &b) {
        (Outcome::Ok(x), Outcome::Ok(y)) => x.code == y.code && x.eeprom == y.eeprom && x.ram_filling == y.ram_filling && strip_lines(&x.messages) == strip_lines(&y.messages),
        (Outcome::Err(_), Outcome::Err(_)) => true,
        _ => false,
    };
    if !same {
        ctx.violation("syntax/replay", "original and respelled program still differ", case.clone());
    }
    fw::finish(ctx, "replay", &[])
}
