#!/bin/sh
# MANIFEST.setup_cmd: offline build of the harness from files on disk + reference-model self tests.
# Also warms the two auxiliary build directories (CLI under test for C18, Miri for C16/C17) so that
# the first quick run does not pay for them; both are rebuilt by the checks themselves when /repo changes.
set -e
ROOT="$(cd "$(dirname "$0")" && pwd)"
export CARGO_NET_OFFLINE=true
export VERIF_ROOT="$ROOT"
mkdir -p "$ROOT/build" "$ROOT/evidence"
cd "$ROOT/harness"
cargo build --release --offline --target-dir "$ROOT/build/harness" 2>&1 | tail -n 3
"$ROOT/build/harness/release/avra-verif" selfcheck
# best effort, never fatal
cargo build --offline --manifest-path /repo/Cargo.toml --target-dir "$ROOT/build/cli" --bin avra-rs >/dev/null 2>&1 || echo "note: CLI warm-up build failed (C18 will report)"
MIRIFLAGS="-Zmiri-disable-isolation" cargo +nightly miri run --offline --target-dir "$ROOT/build/miri" -- miri-conc c17 >/dev/null 2>&1 || echo "note: Miri warm-up failed (Miri legs will be skipped or reported inconclusive)"
exit 0
