#!/bin/sh
# MANIFEST.setup_cmd: offline build of the harness from files on disk + reference-model self tests.
set -e
ROOT="$(cd "$(dirname "$0")" && pwd)"
export CARGO_NET_OFFLINE=true
mkdir -p "$ROOT/build" "$ROOT/evidence"
cd "$ROOT/harness"
cargo build --release --offline 2>&1 | tail -n 3
"$ROOT/build/harness/release/avra-verif" selfcheck
