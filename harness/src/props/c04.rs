//! C04 — operands the ISA cannot encode are rejected, never mis-encoded.
//!
//! For every instruction form one operand at a time (thorough: two) leaves its legal domain:
//! wrong register class, numbers in a window around and far beyond the field limits,
//! operand-kind and operand-count confusions. Oracle: refmodel::isa legality. Must-reject
//! inputs have to return Err (never Ok, never panic); whenever a build is Ok its image must be
//! exactly the reference encoding of what was written.

use crate::fw::{self, Ctx, Outcome, Rng, Tier};
use crate::props::c01::{header, REL_ORG};
use crate::refmodel::isa::{self, Form, Opk};
use serde_json::{json, Value};

#[derive(Clone, Debug, PartialEq)]
enum Expect {
    /// ISA-legal: must build to exactly these words
    Accept(Vec<u16>),
    /// statement is silent (two's-complement spelling of an 8-bit immediate): Err, or exactly these words
    Either(Vec<u16>),
    Reject,
}

struct Case {
    form: usize,
    text: String,
    expect: Expect,
    sig: String,
}

fn num_text(v: i128) -> String {
    if v == i64::MIN as i128 {
        return "(-9223372036854775807-1)".to_string();
    }
    if v < 0 {
        format!("-{}", -v)
    } else {
        format!("{}", v)
    }
}

fn op_text(form: &Form, i: usize, v: i64) -> String {
    match form.ops[i] {
        Opk::Rel { .. } => {
            let t = v as i128 + 1;
            if t >= 0 {
                format!("pc+{}", t)
            } else {
                format!("pc-{}", -t)
            }
        }
        _ => form.operand_text(i, v),
    }
}

fn assemble(form: &Form, ops: &[String]) -> String {
    if ops.is_empty() {
        form.mn.to_string()
    } else {
        format!("{} {}", form.mn, ops.join(", "))
    }
}

/// legal "anchor" tuples for the operands that stay in range
fn anchors(form: &Form, rng: &mut Rng, n: usize) -> Vec<Vec<i64>> {
    let space = form.space();
    let mut v = vec![form.tuple_at(0), form.tuple_at(space - 1)];
    for _ in 0..n.saturating_sub(2) {
        v.push(form.tuple_at(rng.below(space)));
    }
    v.truncate(n.max(1));
    v
}

fn numeric_probe_values(lo: i64, hi: i64, wide: i64) -> Vec<i128> {
    let mut v: Vec<i128> = vec![];
    let (lo, hi) = (lo as i128, hi as i128);
    let w = wide as i128;
    // window around both ends (for small fields this covers the whole field too)
    let e1 = lo + w.min(hi - lo);
    let mut a = lo - w;
    while a <= e1 {
        v.push(a);
        a += 1;
    }
    let mut a = (hi - w).max(e1 + 1);
    while a <= hi + w {
        v.push(a);
        a += 1;
    }
    for k in 0..63 {
        let p = 1i128 << k;
        for d in [-1i128, 0, 1] {
            v.push(p + d);
            v.push(-(p + d));
        }
    }
    v.push(i64::MAX as i128);
    v.push(-(i64::MAX as i128));
    v.push(i64::MIN as i128);
    v.sort();
    v.dedup();
    v
}

fn classify(lo: i128, hi: i128, v: i128) -> &'static str {
    if v < lo {
        if v < 0 {
            "negative"
        } else {
            "below"
        }
    } else if v > hi {
        "above"
    } else {
        "in"
    }
}

fn gen_cases(ctx: &Ctx) -> Vec<Case> {
    let forms = isa::forms();
    let mut rng = Rng::for_case(ctx.seed, 0xC04, 0);
    let wide: i64 = 300;
    let mut cases = vec![];
    for (fi, form) in forms.iter().enumerate() {
        let anchors = anchors(form, &mut rng, ctx.tier.pick(2, 4));
        for anchor in &anchors {
            let base_ops: Vec<String> = anchor.iter().enumerate().map(|(i, v)| op_text(form, i, *v)).collect();
            for (i, op) in form.ops.iter().enumerate() {
                match *op {
                    Opk::Reg { .. } => {
                        for r in 0..32i64 {
                            let mut vals = anchor.clone();
                            vals[i] = r;
                            let mut ops = base_ops.clone();
                            ops[i] = format!("r{}", r);
                            let expect = if op.legal(r) { Expect::Accept(isa::encode(form, &vals)) } else { Expect::Reject };
                            cases.push(Case { form: fi, text: assemble(form, &ops), expect, sig: format!("guard/{}/op{}/reg-class", form.name, i) });
                        }
                    }
                    Opk::Imm { .. } | Opk::ImmCom { .. } | Opk::Disp { .. } | Opk::Addr8l { .. } | Opk::Rel { .. } => {
                        let (lo, hi) = match *op {
                            Opk::Imm { lo, hi, .. } => (lo, hi),
                            Opk::ImmCom { .. } => (0, 255),
                            Opk::Disp { .. } => (0, 63),
                            Opk::Addr8l { .. } => (0x40, 0xbf),
                            Opk::Rel { bits, .. } => (-(1i64 << (bits - 1)), (1i64 << (bits - 1)) - 1),
                            _ => unreachable!(),
                        };
                        let eight_bit = matches!(*op, Opk::ImmCom { .. }) || matches!(*op, Opk::Imm { lo: 0, hi: 255, .. });
                        let w = if ctx.tier == Tier::Thorough && hi >= 65535 { 70000 } else { wide };
                        for v in numeric_probe_values(lo, hi, w) {
                            let mut ops = base_ops.clone();
                            let is_rel = matches!(*op, Opk::Rel { .. });
                            if is_rel {
                                // value is the displacement; the written target is pc+1+d
                                if v == i64::MIN as i128 {
                                    // the target itself is i64::MIN
                                    ops[i] = "(-9223372036854775807-1)".to_string();
                                } else if v.abs() > (1i128 << 40) {
                                    continue;
                                } else {
                                    ops[i] = op_text(form, i, v as i64);
                                }
                            } else if let Opk::Disp { reg, .. } = *op {
                                if v < 0 {
                                    ops[i] = format!("{}+({})", reg, num_text(v));
                                } else {
                                    ops[i] = format!("{}+{}", reg, num_text(v));
                                }
                            } else {
                                ops[i] = num_text(v);
                            }
                            let class = classify(lo as i128, hi as i128, v);
                            let expect = if class == "in" {
                                let mut vals = anchor.clone();
                                vals[i] = v as i64;
                                Expect::Accept(isa::encode(form, &vals))
                            } else if eight_bit && (-128..0).contains(&v) {
                                let mut vals = anchor.clone();
                                vals[i] = (v as i64) & 0xff;
                                Expect::Either(isa::encode(form, &vals))
                            } else {
                                Expect::Reject
                            };
                            cases.push(Case { form: fi, text: assemble(form, &ops), expect, sig: format!("guard/{}/op{}/{}", form.name, i, class) });
                        }
                    }
                    Opk::Index(_) => {}
                }
                // operand-kind confusion
                let wrong: Vec<&str> = match *op {
                    Opk::Reg { .. } => vec!["5", "0", "X", "Z+", "-Y", "Y+1", "undefined_name", "low(3)"],
                    // (a character literal holds exactly one character: 'AB' is not a way to write 'A')
                    Opk::Imm { .. } | Opk::ImmCom { .. } | Opk::Addr8l { .. } | Opk::Rel { .. } => vec!["r5", "r16", "X", "Z+", "-Y", "Y+1", "'AB'", "'10'", "''", "'\\n'", "\"A\"", "'A", "0x", "1 2", "1,"],
                    // (ldd/std take Y+q and Z+q only: the other pointer forms belong to ld/st)
                    Opk::Disp { .. } => vec!["X+1", "X+0", "X+63", "r5", "5", "Y+", "-Y", "Z+", "-Z", "X", "X+", "-X"],
                    Opk::Index(ix) => {
                        if form.mn == "lpm" || form.mn == "elpm" {
                            vec!["X", "Y", "X+", "Y+", "-X", "-Y", "-Z", "Z+1", "Y+1", "r5", "5"].into_iter().filter(|t| *t != ix.text()).collect()
                        } else {
                            // (ld/st take no displacement: that is ldd/std)
                            vec!["r5", "5", "X+1", "X+63", "Y+5", "Z+3", "Y+63", "Z+1"]
                        }
                    }
                };
                for wtxt in wrong {
                    let mut ops = base_ops.clone();
                    ops[i] = wtxt.to_string();
                    cases.push(Case { form: fi, text: assemble(form, &ops), expect: Expect::Reject, sig: format!("guard/{}/op{}/kind", form.name, i) });
                }
            }
            // operand-count confusion: too few
            for n in 0..form.ops.len() {
                // `lpm`/`elpm` without operands are forms of their own
                if n == 0 && (form.mn == "lpm" || form.mn == "elpm") {
                    continue;
                }
                cases.push(Case { form: fi, text: assemble(form, &base_ops[..n]), expect: Expect::Reject, sig: format!("guard/{}/count/missing", form.name) });
            }
            // too many
            for extra in ["r1", "0", "Z"] {
                if form.ops.is_empty() && (form.mn == "lpm" || form.mn == "elpm") {
                    continue; // `lpm r1` is a truncated other form; covered by "missing" there
                }
                let mut ops = base_ops.clone();
                ops.push(extra.to_string());
                // `brbs`-style confusion: branch aliases given a flag number are surplus, too
                cases.push(Case { form: fi, text: assemble(form, &ops), expect: Expect::Reject, sig: format!("guard/{}/count/surplus", form.name) });
            }
            // two-operand forms: complete cross product of small probe sets (every register, the numeric
            // boundary values) - a guard that looks at both operands together is not reachable one at a time
            if form.ops.len() == 2 && std::ptr::eq(anchor, &anchors[0]) {
                let probes = |op: &Opk| -> Vec<(String, Option<i64>)> {
                    match *op {
                        Opk::Reg { .. } => (0..32i64).map(|r| (format!("r{}", r), Some(r))).collect(),
                        Opk::Imm { lo, hi, .. } => [lo - 1, lo, lo + 1, hi - 1, hi, hi + 1].iter().map(|v| (num_text(*v as i128), Some(*v))).collect(),
                        Opk::ImmCom { .. } => [-1i64, 0, 255, 256].iter().map(|v| (num_text(*v as i128), Some(*v))).collect(),
                        Opk::Disp { reg, .. } => [-1i64, 0, 31, 32, 63, 64].iter().map(|v| (if *v < 0 { format!("{}+({})", reg, v) } else { format!("{}+{}", reg, v) }, Some(*v))).collect(),
                        Opk::Addr8l { .. } => [0x3fi64, 0x40, 0x7f, 0x80, 0xbf, 0xc0].iter().map(|v| (num_text(*v as i128), Some(*v))).collect(),
                        Opk::Rel { bits, .. } => {
                            let h = 1i64 << (bits - 1);
                            [-h - 1, -h, 0, h - 1, h].iter().map(|d| (op_text(form, form.ops.len() - 1, *d), Some(*d))).collect()
                        }
                        Opk::Index(ix) => vec![(ix.text().to_string(), Some(0))],
                    }
                };
                let (pa, pb) = (probes(&form.ops[0]), probes(&form.ops[1]));
                for (ta, va) in &pa {
                    for (tb, vb) in &pb {
                        let vals = vec![va.unwrap(), vb.unwrap()];
                        let legal = form.legal(&vals);
                        // negative 8-bit immediates stay in the "either" zone
                        let either = form.ops.iter().zip(&vals).any(|(o, v)| (matches!(o, Opk::ImmCom { .. }) || matches!(o, Opk::Imm { lo: 0, hi: 255, .. })) && (-128..0).contains(v));
                        let others_legal = form.ops.iter().zip(&vals).all(|(o, v)| o.legal(*v) || ((matches!(o, Opk::ImmCom { .. }) || matches!(o, Opk::Imm { lo: 0, hi: 255, .. })) && (-128..0).contains(v)));
                        let expect = if legal {
                            Expect::Accept(isa::encode(form, &vals))
                        } else if either && others_legal {
                            let v2: Vec<i64> = vals.iter().map(|v| if *v < 0 { *v & 0xff } else { *v }).collect();
                            Expect::Either(isa::encode(form, &v2))
                        } else {
                            Expect::Reject
                        };
                        cases.push(Case { form: fi, text: assemble(form, &[ta.clone(), tb.clone()]), expect, sig: format!("guard/{}/cross", form.name) });
                    }
                }
            }
            // many surplus operands (a count kept in a narrow integer or a bit mask wraps at 8, 16, 32, 64, 256)
            if std::ptr::eq(anchor, &anchors[0]) && !(form.ops.is_empty() && (form.mn == "lpm" || form.mn == "elpm")) {
                for extra in [2usize, 6, 7, 8, 9, 14, 15, 16, 17, 30, 31, 32, 33, 62, 63, 64, 65, 254, 255, 256, 257] {
                    let mut ops = base_ops.clone();
                    for k in 0..extra {
                        ops.push(if k % 2 == 0 { format!("{}", k % 7) } else { format!("r{}", k % 32) });
                    }
                    cases.push(Case { form: fi, text: assemble(form, &ops), expect: Expect::Reject, sig: format!("guard/{}/count/surplus-many", form.name) });
                }
            }
            if ctx.tier == Tier::Thorough && form.ops.len() == 2 {
                // two operands out of domain at once
                let bad = |op: &Opk, rng: &mut Rng| -> Option<String> {
                    match *op {
                        Opk::Reg { lo, hi, step, .. } => {
                            let c: Vec<i64> = (0..32).filter(|r| !(*r >= lo as i64 && *r <= hi as i64 && (*r - lo as i64) % step as i64 == 0)).collect();
                            if c.is_empty() {
                                Some("7".to_string())
                            } else {
                                Some(format!("r{}", rng.pick(&c)))
                            }
                        }
                        Opk::Imm { lo, hi, .. } => Some(num_text(if rng.chance(1, 2) { hi as i128 + 1 + rng.below(500) as i128 } else { lo as i128 - 1 - rng.below(500) as i128 })),
                        Opk::ImmCom { .. } => Some(num_text(256 + rng.below(500) as i128)),
                        Opk::Disp { reg, .. } => Some(format!("{}+{}", reg, 64 + rng.below(300))),
                        Opk::Addr8l { .. } => Some(num_text(0xc0 + rng.below(300) as i128)),
                        Opk::Rel { bits, .. } => Some(format!("pc+{}", (1i64 << (bits - 1)) + 1 + rng.below(300) as i64)),
                        Opk::Index(_) => Some("r3".to_string()),
                    }
                };
                for _ in 0..16 {
                    let a = bad(&form.ops[0], &mut rng);
                    let b = bad(&form.ops[1], &mut rng);
                    if let (Some(a), Some(b)) = (a, b) {
                        cases.push(Case { form: fi, text: assemble(form, &[a, b]), expect: Expect::Reject, sig: format!("guard/{}/two-bad", form.name) });
                    }
                }
            }
        }
    }
    cases
}

/// The same line with its operands arriving another way: registers through `.def` aliases and numbers
/// through `.equ` symbols (path 1), or the whole line as the body of a macro with the operands as
/// arguments (path 2). What the ISA cannot encode stays unencodable however it is spelled.
/// number of expression shapes of respell paths 3..
const COMPUTED_SHAPES: u8 = 14;

fn respell(text: &str, path: u8) -> Option<String> {
    let (mn, rest) = match text.split_once(' ') {
        Some((m, r)) => (m, r),
        None => (text, ""),
    };
    let ops: Vec<&str> = if rest.is_empty() { vec![] } else { rest.split(", ").collect() };
    let is_num = |t: &str| -> bool { t == "(-9223372036854775807-1)" || (!t.is_empty() && t.trim_start_matches('-').chars().all(|c| c.is_ascii_digit()) && t.trim_start_matches('-').len() == t.len() - (t.starts_with('-') as usize) && t != "-") };
    match path {
        1 => {
            let mut prelude = String::new();
            let mut new_ops: Vec<String> = vec![];
            let mut changed = false;
            for (i, o) in ops.iter().enumerate() {
                if let Some(n) = o.strip_prefix('r').filter(|n| !n.is_empty() && n.chars().all(|c| c.is_ascii_digit())) {
                    prelude.push_str(&format!(".def c04_alias{} = r{}\n", i, n));
                    new_ops.push(format!("c04_alias{}", i));
                    changed = true;
                } else if is_num(o) {
                    prelude.push_str(&format!(".equ c04_value{} = {}\n", i, o));
                    new_ops.push(format!("c04_value{}", i));
                    changed = true;
                } else if let Some((reg, q)) = o.split_once('+').filter(|(r, q)| ["X", "Y", "Z"].contains(r) && (is_num(q) || (q.starts_with('(') && q.ends_with(')') && is_num(&q[1..q.len() - 1])))) {
                    prelude.push_str(&format!(".equ c04_value{} = {}\n", i, q));
                    new_ops.push(format!("{}+c04_value{}", reg, i));
                    changed = true;
                } else {
                    new_ops.push(o.to_string());
                }
            }
            if !changed {
                return None;
            }
            Some(format!("{}{}{}{}\n", prelude, mn, if new_ops.is_empty() { "" } else { " " }, new_ops.join(", ")))
        }
        250 => {
            // only for lines that must be refused: a block comment in the middle of the line, with what makes
            // the line unencodable behind it (`63 /* max */ + 1`, `1 /* lo */, 2`). Whether a comment may
            // stand there is not the point - the line is refused one way or the other, never assembled from
            // what stands in front of the comment
            let mut new_ops: Vec<String> = vec![];
            let mut changed = false;
            for o in ops.iter() {
                if !changed && is_num(o) {
                    let v: i128 = if *o == "(-9223372036854775807-1)" { i64::MIN as i128 } else { o.parse().ok()? };
                    new_ops.push(if v >= 0 { format!("0 /* base */ + {}", v) } else { format!("0 /* base */ - {}", -v) });
                    changed = true;
                } else {
                    new_ops.push(o.to_string());
                }
            }
            if !changed {
                // surplus operands, wrong registers: everything from the last operand on goes behind the comment
                let last = new_ops.pop()?;
                return Some(format!("{} {}{}/* rest */ {}\n", mn, new_ops.join(", "), if new_ops.is_empty() { "" } else { " " }, if new_ops.is_empty() { last } else { format!(", {}", last) }));
            }
            Some(format!("{} {}\n", mn, new_ops.join(", ")))
        }
        p if p >= 3 => {
            // the same values written as computed expressions: what decides is the value, whichever operator
            // produced it (odd paths: the expression is also passed through a macro argument)
            let shape = (p - 3) / 2;
            let mut new_ops: Vec<String> = vec![];
            let mut changed = false;
            let spell = |t: &str| -> Option<String> {
                let v: i128 = if t == "(-9223372036854775807-1)" { i64::MIN as i128 } else { t.parse().ok()? };
                if v <= i64::MIN as i128 + 1 || v >= i64::MAX as i128 {
                    return None;
                }
                Some(match shape {
                    0 => {
                        let k = -v - 1;
                        if k < 0 { format!("~({})", k) } else { format!("~{}", k) }
                    }
                    1 => format!("{}+0", v),
                    2 => if v < 0 { format!("0-{}", -v) } else { format!("0+{}", v) },
                    3 => format!("({})", v),
                    4 => if v <= 0 { format!("-({})", -v) } else { format!("-(-{})", v) },
                    5 => format!("{}*1", v),
                    6 => format!("~(~({}))", v),
                    7 => format!("{}|0", v),
                    // right-grouped operands: regrouping them to the left (as a careless re-rendering of a
                    // macro argument would) gives another value
                    _ if v.abs() >= 1 << 60 => return None,
                    8 => format!("{}-(10-4)", v + 6),
                    9 => format!("{}/(8/4)", v * 2),
                    10 => format!("{}>>(2>>1)", v * 2),
                    11 => format!("{}-(1+2)", v + 3),
                    // word selectors that leave the value as it is: a selector is no promise that the value fits a byte
                    _ if !(0..=0xffff).contains(&v) => return None,
                    12 => format!("lwrd({})", v),
                    _ => format!("HWRD({})", v << 16),
                })
            };
            for o in ops.iter() {
                if is_num(o) {
                    if let Some(t) = spell(o) {
                        new_ops.push(t);
                        changed = true;
                        continue;
                    }
                } else if let Some((reg, q)) = o.split_once('+').filter(|(r, q)| ["X", "Y", "Z"].contains(r) && is_num(q)) {
                    if let Some(t) = spell(q) {
                        new_ops.push(format!("{}+{}", reg, t));
                        changed = true;
                        continue;
                    }
                }
                new_ops.push(o.to_string());
            }
            if !changed {
                return None;
            }
            if (p - 3) % 2 == 0 {
                Some(format!("{} {}\n", mn, new_ops.join(", ")))
            } else {
                let params: Vec<String> = (0..new_ops.len()).map(|i| format!("@{}", i)).collect();
                Some(format!(".macro c04_line\n\t{} {}\n.endm\nc04_line {}\n", mn, params.join(", "), new_ops.join(", ")))
            }
        }
        _ => {
            let params: Vec<String> = (0..ops.len()).map(|i| format!("@{}", i)).collect();
            Some(format!(".macro c04_line\n\t{}{}{}\n.endm\nc04_line{}{}\n", mn, if params.is_empty() { "" } else { " " }, params.join(", "), if ops.is_empty() { "" } else { " " }, ops.join(", ")))
        }
    }
}

fn run_case(ctx: &Ctx, c: &Case) {
    run_case_path(ctx, c, 0);
    // registers, boundary cross products and kind confusions always take the other paths too; the
    // numeric windows every fourth value (thorough: all)
    let always = c.sig.ends_with("/reg-class") || c.sig.ends_with("/cross") || c.sig.ends_with("/kind");
    if always || ctx.tier == Tier::Thorough || fw::hash_str(&c.text) % 4 == 0 {
        run_case_path(ctx, c, 1);
        run_case_path(ctx, c, 2);
        if matches!(c.expect, Expect::Reject) {
            run_case_path(ctx, c, 250);
        }
        // (all shapes both ways for the register / cross-product / kind-confusion lines of the thorough tier; the
        // numeric windows, which are a hundred times as many there, get two shapes each like in the quick tier)
        if ctx.tier == Tier::Thorough && always {
            for p in 3..3 + 2 * COMPUTED_SHAPES {
                run_case_path(ctx, c, p);
            }
        } else {
            // the complement spelling always (the usual way to write a mask), one other shape, one of the two through a macro
            let h = fw::hash_str(&c.text);
            run_case_path(ctx, c, 3 + (h % 2) as u8);
            run_case_path(ctx, c, 3 + 2 * (1 + (h / 2 % (COMPUTED_SHAPES as u64 - 1)) as u8) + ((h + 1) % 2) as u8);
        }
    }
}

fn run_case_path(ctx: &Ctx, c: &Case, path: u8) {
    let form = &isa::forms()[c.form];
    let h = header(form);
    let pad = if h.contains(".org") { REL_ORG as usize * 2 } else { 0 };
    let (src, via) = match path {
        0 => (format!("{}{}\n", h, c.text), ""),
        p => match respell(&c.text, p) {
            Some(t) => (format!("{}{}", h, t), match p {
                1 => "/via-alias-or-symbol",
                2 => "/via-macro-argument",
                250 => "/behind-a-block-comment",
                p if (p - 3) % 2 == 0 => "/as-computed-expression",
                _ => "/as-computed-expression-in-macro-argument",
            }),
            None => return,
        },
    };
    if path != 0 {
        ctx.count(match path { 1 => "lines_respelled_via_alias_or_symbol", 2 => "lines_respelled_via_macro_argument", 250 => "must_reject_lines_with_the_fault_behind_a_block_comment", _ => "lines_respelled_as_computed_expressions" }, 1);
    }
    let c = &Case { form: c.form, text: c.text.clone(), expect: c.expect.clone(), sig: format!("{}{}", c.sig, via) };
    let out = fw::build_str(&src);
    ctx.eval(1);
    let replay = json!({"source": src, "line": c.text, "path": path, "form": form.name, "expect": format!("{:?}", c.expect), "sig": c.sig, "pad": pad, "observed": out.brief()});
    let img_ok = |b: &fw::BuildResult, words: &Vec<u16>| -> bool {
        b.code.len() == pad + words.len() * 2 && b.code[pad..] == isa::words_to_bytes(words)[..] && b.code[..pad].iter().all(|x| *x == 0)
    };
    match (&c.expect, &out) {
        (_, Outcome::Panic(p)) => ctx.violation(format!("{}/panic", c.sig), format!("`{}` panicked: {}", c.text, fw::clip(p, 160)), replay),
        (Expect::Accept(w), Outcome::Ok(b)) | (Expect::Either(w), Outcome::Ok(b)) => {
            if !img_ok(b, w) {
                ctx.violation(
                    format!("{}/misencoded", c.sig),
                    format!("`{}` assembled to {} instead of {}", c.text, fw::hex(&b.code[pad.min(b.code.len())..], 8), fw::hex(&isa::words_to_bytes(w), 8)),
                    replay,
                );
            }
        }
        (Expect::Accept(_), Outcome::Err(e)) => ctx.violation(format!("{}/rejected-legal", c.sig), format!("ISA-legal `{}` rejected: {}", c.text, fw::clip(e, 120)), replay),
        (Expect::Either(_), Outcome::Err(_)) => {}
        (Expect::Reject, Outcome::Err(_)) => {}
        (Expect::Reject, Outcome::Ok(b)) => ctx.violation(
            c.sig.clone(),
            format!("`{}` is not encodable but assembled to {}", c.text, fw::hex(&b.code[pad.min(b.code.len())..], 8)),
            replay,
        ),
    }
    let kind = match &c.expect {
        Expect::Accept(_) => "must-accept",
        Expect::Either(_) => "either",
        Expect::Reject => "must-reject",
    };
    // cheap thread-safe tallies
    ctx.count(kind, 1);
}

/// The guards must not depend on the selected device: every device of the table x every form the
/// device has x each numeric operand just outside / just inside its field and far outside it.
fn device_sweep(ctx: &Ctx) {
    use crate::refmodel::devices;
    use crate::refmodel::isa::Core;
    let table = devices::table();
    let forms = isa::forms();
    let work: Vec<usize> = (0..table.len()).collect();
    fw::par_items(&work, |_, di| {
        let (name, dev) = &table[*di];
        let reduced = devices::is_reduced(dev);
        for form in forms.iter() {
            if (form.core == Core::Reduced && !reduced) || (form.core == Core::Full && reduced) {
                continue;
            }
            if devices::forbidding_flag(dev, &form.name).is_some() {
                continue;
            }
            let anchor = form.tuple_at(0);
            for (i, op) in form.ops.iter().enumerate() {
                let (lo, hi) = match *op {
                    Opk::Imm { lo, hi, .. } => (lo, hi),
                    Opk::ImmCom { .. } => (0, 255),
                    Opk::Disp { .. } => (0, 63),
                    Opk::Addr8l { .. } => (0x40, 0xbf),
                    Opk::Rel { bits, .. } => (-(1i64 << (bits - 1)), (1i64 << (bits - 1)) - 1),
                    Opk::Reg { lo, hi, .. } => (lo as i64, hi as i64),
                    Opk::Index(_) => continue,
                };
                let eight = matches!(*op, Opk::ImmCom { .. }) || matches!(*op, Opk::Imm { lo: 0, hi: 255, .. });
                let mut probes = vec![lo - 1, lo, hi, hi + 1];
                if !matches!(*op, Opk::Reg { .. }) {
                    for far in [4096i64, 4095, 8192, 65536, 65535, 100_000, 1 << 22, 1 << 32] {
                        probes.push(hi + far);
                        probes.push(lo - far);
                        probes.push(far + lo);
                    }
                }
                for v in probes {
                    if matches!(*op, Opk::Reg { .. }) && !(0..32).contains(&v) {
                        continue;
                    }
                    let mut vals = anchor.clone();
                    vals[i] = v;
                    let mut ops: Vec<String> = anchor.iter().enumerate().map(|(k, x)| op_text(form, k, *x)).collect();
                    ops[i] = match *op {
                        Opk::Reg { .. } => format!("r{}", v),
                        Opk::Rel { .. } => op_text(form, i, v),
                        Opk::Disp { reg, .. } => {
                            if v < 0 {
                                format!("{}+({})", reg, v)
                            } else {
                                format!("{}+{}", reg, v)
                            }
                        }
                        _ => num_text(v as i128),
                    };
                    let text = assemble(form, &ops);
                    let src = format!(".device {}\n{}\n", name, text);
                    let out = fw::build_str(&src);
                    ctx.eval(1);
                    ctx.count("device_sweep_builds", 1);
                    let legal = form.legal(&vals);
                    let either = eight && (-128..0).contains(&v);
                    let bad = match &out {
                        Outcome::Panic(_) => Some("panic"),
                        Outcome::Ok(b) => {
                            if legal {
                                if b.code == isa::words_to_bytes(&isa::encode(form, &vals)) { None } else { Some("misencoded") }
                            } else if either {
                                let mut v2 = vals.clone();
                                v2[i] = v & 0xff;
                                if b.code == isa::words_to_bytes(&isa::encode(form, &v2)) { None } else { Some("misencoded") }
                            } else {
                                Some("accepted")
                            }
                        }
                        Outcome::Err(_) => {
                            if legal { Some("rejected-legal") } else { None }
                        }
                    };
                    if let Some(aspect) = bad {
                        ctx.violation(
                            format!("guard/{}/op{}/on-device/{}", form.name, i, aspect),
                            format!("`{}` on {}: {} ({:?})", text, name, aspect, fw::clip(&format!("{:?}", out.brief()), 120)),
                            json!({"source": src, "form": form.name, "device_sweep": true, "device": name, "legal": legal, "either": either, "vals": vals, "sig": format!("guard/{}/op{}/on-device/{}", form.name, i, aspect)}),
                        );
                    }
                }
            }
        }
    });
}

/// One symbol, several uses: a symbol whose value depends on where it is used (it reads `pc`, directly or through
/// another symbol, or a `.set` that is assigned again) is in range at its first use and out of range at a later
/// one. The later line is unencodable and fails the build - whatever the symbol was worth before.
fn symbol_used_again_cases(ctx: &Ctx) {
    let mut n = 0u64;
    for (mn, tail, hi, pre) in [("adiw r24,", "", 63i64, ""), ("ldi r16,", "", 255, ""), ("sbi", ", 0", 31, ""), ("ldd r0, Y+", "", 63, ""), ("out", ", r0", 63, ""), ("sbrc r1,", "", 7, ""), ("lds r16,", "", 0xbf, ".device ATtiny20\n")] {
        let line = |k: &str| if mn == "sbi" || mn == "out" { format!("\t{} {}{}\n", mn, k, tail) } else { format!("\t{} {}{}\n", mn, k, tail) };
        for (dn, defs) in [
            ("pc-directly", ".equ k = pc - 40\n".to_string()),
            ("pc-through-another-equ", ".equ here = pc\n.equ k = here - 40\n".to_string()),
            ("pc-through-two-equs", ".equ here = pc\n.equ there = here + 0\n.equ k = there - 40\n".to_string()),
            ("pc-through-an-equ-defined-later", ".equ k = here - 40\n".to_string()),
            ("pc-in-a-function", ".equ here = pc\n.equ k = low(here - 40)\n".to_string()),
        ] {
            // first use at word 40 + v1 (in range), second at 40 + hi + 1 + extra (out of range)
            for (v1, extra) in [(0i64, 0i64), (hi, 0), (hi / 2, 5), (1, 300)] {
                let a1 = 40 + v1;
                let a2 = 40 + hi + 1 + extra;
                if dn == "pc-in-a-function" && a2 - 40 > 255 {
                    continue;
                }
                let later = if dn == "pc-through-an-equ-defined-later" { ".equ here = pc\n" } else { "" };
                let src = format!("; C04 symbol used again\n{}{}.org {}\n{}.org {}\n{}{}", pre, defs, a1, line("k"), a2, line("K"), later);
                let out = fw::build_str(&src);
                ctx.eval(1);
                n += 1;
                ctx.distinct(fw::hash_str(&src));
                if !out.is_err() {
                    ctx.violation(
                        format!("guard/{}/symbol-used-again/{}", mn.split_whitespace().next().unwrap_or("?"), dn),
                        format!("`{} k` at word {} (k = {}) and again at word {} (k = {}, not encodable): {}", mn.trim_end_matches(','), a1, v1, a2, a2 - 40, fw::clip(&format!("{:?}", out.brief()), 120)),
                        json!({"source": src, "symbol_used_again": true, "observed": out.brief()}),
                    );
                }
            }
        }
        // the same through a .set that is assigned again between the uses
        for v2 in [hi + 1, hi + 200, -300] {
            let src = format!("; C04 symbol used again\n{}.set k = {}\n{}.set K = {}\n{}", pre, hi, line("k"), v2, line("k"));
            let out = fw::build_str(&src);
            ctx.eval(1);
            n += 1;
            ctx.distinct(fw::hash_str(&src));
            if !out.is_err() {
                ctx.violation(
                    format!("guard/{}/symbol-used-again/set-assigned-again", mn.split_whitespace().next().unwrap_or("?")),
                    format!("`{} k` with k = {} and again after `.set K = {}`: {}", mn.trim_end_matches(','), hi, v2, fw::clip(&format!("{:?}", out.brief()), 120)),
                    json!({"source": src, "symbol_used_again": true, "observed": out.brief()}),
                );
            }
        }
    }
    ctx.put("symbol_used_again_builds", json!(n));
}

pub fn run(ctx: &Ctx) -> i32 {
    if let Err(e) = isa::selfcheck() {
        println!("HARNESS-FAILURE property=C04 {}", e);
        return 2;
    }
    let cases = gen_cases(ctx);
    // distinct = distinct (text) cases that are must-reject or either (the non-trivial ones for this property)
    let mut seen = std::collections::HashSet::new();
    for c in &cases {
        if c.expect != Expect::Reject {
            continue;
        }
        seen.insert(fw::hash_str(&format!("{}|{}", isa::forms()[c.form].core as u8, c.text)));
    }
    ctx.distinct_many(seen);
    let mut classes = std::collections::BTreeMap::new();
    for c in &cases {
        let class = c.sig.rsplit('/').next().unwrap_or("").to_string();
        *classes.entry(class).or_insert(0u64) += 1;
    }
    ctx.put("cases_per_class", json!(classes));
    for c in cases.iter().step_by(cases.len() / 10 + 1) {
        ctx.sample(json!({"line": c.text, "expect": match &c.expect { Expect::Accept(w) => format!("accept -> {:04x?}", w), Expect::Either(w) => format!("either Err or {:04x?}", w), Expect::Reject => "must be rejected".to_string() }, "class": c.sig}));
    }
    fw::par_for(cases.len() as u64, 256, |i| run_case(ctx, &cases[i as usize]));
    device_sweep(ctx);
    symbol_used_again_cases(ctx);
    ctx.exhaustive.store(true, std::sync::atomic::Ordering::Relaxed);
    fw::finish(
        ctx,
        "per instruction form and legal anchor tuple, one operand at a time leaves its ISA domain: every register r0..r31 in each register position, every number in [lo-300, hi+300] plus ±2^k, ±2^k±1, ±i64::MAX and i64::MIN in each numeric position, operand-kind substitutions, 0..arity-1, arity+1 and arity+2..arity+257 operands, and for every two-operand form the complete cross product every register x every register / boundary value (thorough: two operands out at once, ±70000 windows on 16/22-bit fields); plus a device sweep: every device of the table x every form it has x each operand just outside, just inside and far outside (by 4095..2^32) its field; exhaustive for those windows; every register, cross-product and kind-confusion line (and a quarter of the numeric windows; thorough: all) once more with registers through `.def` aliases and numbers through `.equ` symbols, once more as the body of a macro with the operands as arguments, and with every number written as a computed expression of the same value (14 shapes: complement, sums, negations, parenthesised, right-grouped differences / quotients / shifts, lwrd() / hwrd() of a value they leave unchanged; quick: the complement and one other shape, one of them through a macro argument; thorough: all shapes both ways for the register, cross-product and kind-confusion lines); every must-reject line of that subset once more with what makes it unencodable behind a mid-line block comment (`0 /* base */ + 64`, `r1 /* rest */ , r2, r3`: refused one way or the other, never assembled from what stands in front of the comment); seven instructions each used twice with one symbol that is in range at the first use and out of range at the second (the symbol reads pc directly, through one or two other .equ symbols, through one defined later, inside a function; or is a .set assigned again in between): must fail; distinct_nontrivial = distinct must-reject source lines",
        &[
            "legality = refmodel/isa.rs operand domains (manual transcription)",
            "8-bit immediates written as -128..-1 are accepted as two's complement or rejected (statement silent); ld/st written with a displacement and ldd/std written with increment, decrement or X forms are must-reject (the ISA defines no such form for that mnemonic); `ldd Rd, Y` without displacement is not probed",
        ],
    )
}

pub fn replay(ctx: &Ctx, case: &Value) -> i32 {
    if case["symbol_used_again"].as_bool() == Some(true) {
        let out = fw::build_str(case["source"].as_str().unwrap_or(""));
        ctx.eval(1);
        ctx.distinct(1);
        ctx.distinct(2);
        if !out.is_err() {
            ctx.violation("guard/replay", "the line that is not encodable is still assembled", case.clone());
        }
        return fw::finish(ctx, "replay", &[]);
    }
    if case["device_sweep"].as_bool() == Some(true) {
        let out = fw::build_str(case["source"].as_str().unwrap_or(""));
        ctx.eval(1);
        ctx.distinct(1);
        ctx.distinct(2);
        let legal = case["legal"].as_bool().unwrap_or(false);
        let either = case["either"].as_bool().unwrap_or(false);
        let form = isa::form(case["form"].as_str().unwrap_or("nop"));
        let vals: Vec<i64> = case["vals"].as_array().map(|a| a.iter().filter_map(|x| x.as_i64()).collect()).unwrap_or_default();
        let bad = match &out {
            Outcome::Panic(_) => true,
            Outcome::Ok(b) => !(legal && b.code == isa::words_to_bytes(&isa::encode(form, &vals))) && !either,
            Outcome::Err(_) => legal,
        };
        if bad {
            ctx.violation(case["sig"].as_str().unwrap_or("guard/replay").to_string(), "replayed device-sweep case still deviates", case.clone());
        }
        return fw::finish(ctx, "replay", &[]);
    }
    let src = case["source"].as_str().unwrap_or("");
    let form_name = case["form"].as_str().unwrap_or("");
    let fi = isa::form_index(form_name);
    // regenerate the matching case so that the expectation comes from the model, not the file
    let text = case["line"].as_str().map(|s| s.to_string()).unwrap_or_else(|| src.lines().last().unwrap_or("").to_string());
    let path = case["path"].as_u64().unwrap_or(0) as u8;
    let all = gen_cases(ctx);
    let mut found = false;
    for c in all.iter().filter(|c| c.form == fi && c.text == text) {
        run_case_path(ctx, c, path);
        found = true;
        break;
    }
    if !found {
        // fall back to the recorded expectation class
        let exp = case["expect"].as_str().unwrap_or("");
        if exp.starts_with("Reject") {
            run_case(ctx, &Case { form: fi, text, expect: Expect::Reject, sig: case["sig"].as_str().unwrap_or("guard/replay").to_string() });
        } else {
            println!("replay: case not regenerable and not a must-reject case");
            return 2;
        }
    }
    ctx.distinct(1);
    ctx.distinct(2);
    fw::finish(ctx, "replay", &[])
}
