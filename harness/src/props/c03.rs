//! C03 — relative branches and jumps reach exactly the target that was named.
//!
//! Programs place a branch/rjmp/rcall and its target at an exact word distance with a random mix
//! of one- and two-word instructions, data and .org gaps in between. Oracle: the build succeeds
//! iff the displacement fits the field; on success the whole image equals the reference image and
//! the word at the instruction's address decodes (independent decoder) to the mnemonic and d.

use crate::fw::{self, Ctx, Outcome, Rng, Tier};
use crate::refmodel::isa::{self, Alias, Opk};
use serde_json::{json, Value};

#[derive(Clone, Copy, Debug, PartialEq)]
enum Style {
    Label,
    LabelPlus,
    LabelMinus,
    Pc,
}

struct Case {
    form: usize,
    flag: i64, // for brbs/brbc
    d: i64,
    start: u32,
    style: Style,
    mix: u64,
}

struct Built {
    src: String,
    image: Vec<u8>,
    instr_addr: usize, // words
}

struct Prog {
    src: String,
    image: Vec<u8>,
    addr: u32,
}

impl Prog {
    fn emit(&mut self, line: &str, bytes: &[u8]) {
        self.src.push_str(line);
        self.src.push('\n');
        self.image.extend_from_slice(bytes);
        self.addr += (bytes.len() / 2) as u32;
    }
    /// fill exactly `n` words with a random mix of items
    fn fill(&mut self, mut n: u32, rng: &mut Rng, mix: u64) {
        while n > 0 {
            let choice = if mix == 0 { 0 } else { rng.below(9) };
            match choice {
                // mix 100: the reduced core (the program begins with `.device ATtiny20`), whose lds/sts take one word
                1 | 2 if mix == 100 => {
                    let (r, k) = (16 + rng.below(16) as i64, 0x40 + rng.below(0x80) as i64);
                    if choice == 1 {
                        let w = isa::encode(isa::form("sts:rc"), &[k, r]);
                        self.emit(&format!("\tsts 0x{:x}, r{}", k, r), &isa::words_to_bytes(&w));
                    } else {
                        let w = isa::encode(isa::form("lds:rc"), &[r, k]);
                        self.emit(&format!("\tlds r{}, {}", r, k), &isa::words_to_bytes(&w));
                    }
                    n -= 1;
                }
                1 if n >= 2 => {
                    let k = rng.below(4194304) as i64;
                    let w = isa::encode(isa::form("jmp"), &[k]);
                    self.emit(&format!("\tjmp {}", k), &isa::words_to_bytes(&w));
                    n -= 2;
                }
                2 if n >= 2 => {
                    let (r, k) = (rng.below(32) as i64, rng.below(65536) as i64);
                    let w = isa::encode(isa::form("lds"), &[r, k]);
                    self.emit(&format!("\tlds r{}, 0x{:x}", r, k), &isa::words_to_bytes(&w));
                    n -= 2;
                }
                3 => {
                    let v = rng.below(65536) as u16;
                    self.emit(&format!(".dw 0x{:04x}", v), &v.to_le_bytes());
                    n -= 1;
                }
                4 => {
                    let v = rng.below(256) as u8;
                    self.emit(&format!(".db {}", v), &[v, 0]);
                    n -= 1;
                }
                5 if n >= 2 => {
                    let v: Vec<u8> = (0..3).map(|_| rng.below(256) as u8).collect();
                    self.emit(&format!(".db {}, {}, {}", v[0], v[1], v[2]), &[v[0], v[1], v[2], 0]);
                    n -= 2;
                }
                6 if n >= 3 => {
                    // .org gap
                    let g = 1 + rng.below((n as u64 - 1).min(40)) as u32; // an item always follows the gap
                    let to = self.addr + g;
                    self.src.push_str(&format!(".org {}\n", if rng.chance(1, 2) { format!("{}", to) } else { format!("0x{:x}", to) }));
                    self.image.extend(std::iter::repeat(0u8).take(g as usize * 2));
                    self.addr = to;
                    n -= g;
                }
                7 => {
                    let (d, r) = (rng.below(32) as i64, rng.below(32) as i64);
                    let w = isa::encode(isa::form("mov"), &[d, r]);
                    self.emit(&format!("\tmov r{}, r{}", d, r), &isa::words_to_bytes(&w));
                    n -= 1;
                }
                8 if n >= 4 => {
                    let v = rng.next();
                    self.emit(&format!(".dq 0x{:x}", v & 0x7fff_ffff_ffff_ffff), &(v & 0x7fff_ffff_ffff_ffff).to_le_bytes());
                    n -= 4;
                }
                _ => {
                    self.emit("\tnop", &[0, 0]);
                    n -= 1;
                }
            }
        }
    }
}

fn build_case(c: &Case, seed: u64) -> Built {
    let forms = isa::forms();
    let form = &forms[c.form];
    let mut rng = Rng::for_case(seed, 0xC03 ^ c.mix, (c.form as u64) << 32 ^ (c.d as u64 & 0xffff_ffff) ^ ((c.start as u64) << 48));
    let mut p = Prog { src: String::from(if c.mix == 100 { "; C03 case\n.device ATtiny20\n" } else { "; C03 case\n" }), image: vec![], addr: 0 };
    if c.start > 0 {
        p.src.push_str(&format!(".org {}\n", c.start));
        p.image.extend(std::iter::repeat(0u8).take(c.start as usize * 2));
        p.addr = c.start;
    }
    // label offset for label±k styles: the label sits k words away from the real target
    let k: i64 = match c.style {
        Style::LabelPlus => 1 + rng.below(5) as i64,
        Style::LabelMinus => -(1 + rng.below(5) as i64),
        _ => 0,
    };
    let mnem = |target: &str| -> String {
        if form.ops.len() == 2 {
            format!("\t{} {}, {}", form.mn, c.flag, target)
        } else {
            format!("\t{} {}", form.mn, target)
        }
    };
    let vals: Vec<i64> = if form.ops.len() == 2 { vec![c.flag, c.d] } else { vec![c.d] };
    // encoding (only meaningful when d fits; masked otherwise)
    let fits = form.ops.last().unwrap().legal(c.d);
    let enc = if fits { isa::words_to_bytes(&isa::encode(form, &vals)) } else { vec![0, 0] };
    let instr_addr;
    match c.style {
        Style::Pc => {
            // no label at all: target written relative to pc
            let lead = rng.below(6) as u32;
            p.fill(lead, &mut rng, c.mix);
            instr_addr = p.addr as usize;
            let t = c.d + 1;
            let target = if t >= 0 { format!("pc+{}", t) } else { format!("pc-{}", -t) };
            p.emit(&mnem(&target), &enc);
            // keep some code after so that a forward target is inside the image (not required, but realistic)
            let tail = if c.d >= 0 { (c.d as u32).min(70) + 1 } else { 1 };
            p.fill(tail, &mut rng, c.mix);
        }
        _ => {
            // real target T = instr + 1 + d ; label L = T - k  (so that `L + k` == T)
            // layout everything on a line of word addresses
            if c.d >= 0 {
                // forward: instr, then d words, target. The label may sit before or after the target.
                let lead = rng.below(6) as u32 + if k > 0 && (c.d as i64) < k { (k - c.d) as u32 } else { 0 };
                // if label = T - k lies before the instruction (k > d+1), we must place it in the lead-in
                let d = c.d;
                let label_rel = d + 1 - k; // label address relative to instr address
                let tname = "target_lbl";
                let target_expr = match c.style {
                    Style::Label => tname.to_string(),
                    Style::LabelPlus => format!("{}+{}", tname, k),
                    Style::LabelMinus => format!("{} - {}", tname, -k),
                    Style::Pc => unreachable!(),
                };
                if label_rel <= 0 {
                    // label before (or at) the instruction
                    let before = (-label_rel) as u32;
                    p.fill(lead.saturating_sub(before).max(0), &mut rng, c.mix);
                    p.src.push_str(&format!("{}:\n", tname));
                    p.fill(before, &mut rng, c.mix);
                    instr_addr = p.addr as usize;
                    p.emit(&mnem(&target_expr), &enc);
                    p.fill(d as u32 + 1, &mut rng, c.mix);
                } else {
                    p.fill(lead, &mut rng, c.mix);
                    instr_addr = p.addr as usize;
                    p.emit(&mnem(&target_expr), &enc);
                    // label_rel >= 1: label sits (label_rel - 1) words after the instruction
                    p.fill((label_rel - 1) as u32, &mut rng, c.mix);
                    p.src.push_str(&format!("{}:\n", tname));
                    p.fill(2, &mut rng, c.mix);
                }
            } else {
                // backward: T = instr + 1 + d (d <= -1), T <= instr. label L = T - k.
                let m = (-c.d - 1) as u32; // words between T and instr
                let tname = "Target_Lbl";
                let target_expr = match c.style {
                    Style::Label => tname.to_lowercase(),
                    Style::LabelPlus => format!("{} + {}", tname, k),
                    Style::LabelMinus => format!("{}-{}", tname, -k),
                    Style::Pc => unreachable!(),
                };
                if k >= 0 {
                    // L = T - k is k words before T
                    p.src.push_str(&format!("{}:\n", tname));
                    p.fill(k as u32 + m, &mut rng, c.mix);
                    instr_addr = p.addr as usize;
                    p.emit(&mnem(&target_expr), &enc);
                    p.fill(1, &mut rng, c.mix);
                } else {
                    // L = T + |k| : after T; may be before or after the instruction
                    let kk = (-k) as u32;
                    if kk <= m {
                        p.fill(kk, &mut rng, c.mix);
                        p.src.push_str(&format!("{}:\n", tname));
                        p.fill(m - kk, &mut rng, c.mix);
                        instr_addr = p.addr as usize;
                        p.emit(&mnem(&target_expr), &enc);
                        p.fill(1, &mut rng, c.mix);
                    } else {
                        p.fill(m, &mut rng, c.mix);
                        instr_addr = p.addr as usize;
                        p.emit(&mnem(&target_expr), &enc);
                        p.fill(kk - m - 1, &mut rng, c.mix);
                        p.src.push_str(&format!("{}:\n", tname));
                        p.fill(1, &mut rng, c.mix);
                    }
                }
            }
        }
    }
    Built { src: p.src, image: p.image, instr_addr }
}

fn check(ctx: &Ctx, c: &Case) {
    let forms = isa::forms();
    let form = &forms[c.form];
    let b = build_case(c, ctx.seed);
    let fits = form.ops.last().unwrap().legal(c.d);
    let out = fw::build_str(&b.src);
    ctx.eval(1);
    ctx.distinct(fw::mix64((c.form as u64) << 8 | c.flag as u64, c.d as u64));
    let dir = if c.d >= 0 { "fwd" } else { "back" };
    let replay = json!({"source": b.src, "form": form.name, "flag": c.flag, "d": c.d, "fits": fits, "instr_word_addr": b.instr_addr,
        "expect_code": if fits { fw::hex(&b.image, 1 << 20) } else { String::new() }, "observed": out.brief()});
    match &out {
        Outcome::Panic(p) => ctx.violation(format!("rel/{}/panic", form.name), format!("{} d={} panicked: {}", form.mn, c.d, fw::clip(p, 120)), replay),
        Outcome::Err(e) => {
            if fits {
                ctx.violation(format!("rel/{}/in-range-rejected/{}", form.name, dir), format!("{} with displacement {} (fits) was rejected: {}", form.mn, c.d, fw::clip(e, 120)), replay);
            }
        }
        Outcome::Ok(r) => {
            if !fits {
                let w = r.code.get(b.instr_addr * 2..b.instr_addr * 2 + 2).map(|x| fw::hex(x, 2)).unwrap_or_default();
                ctx.violation(format!("rel/{}/out-of-range-accepted/{}", form.name, dir), format!("{} with displacement {} (does not fit) assembled to {}", form.mn, c.d, w), replay);
                return;
            }
            // independent decode of the emitted word
            let off = b.instr_addr * 2;
            if r.code.len() < off + 2 {
                ctx.violation(format!("rel/{}/image", form.name), "image shorter than the instruction's address".to_string(), replay);
                return;
            }
            let w = u16::from_le_bytes([r.code[off], r.code[off + 1]]);
            let (name, ops) = match form.alias {
                Alias::Br(set, bit) => (if set { "brbs" } else { "brbc" }.to_string(), vec![bit as i64, c.d]),
                _ => {
                    if form.ops.len() == 2 {
                        (form.name.clone(), vec![c.flag, c.d])
                    } else {
                        (form.name.clone(), vec![c.d])
                    }
                }
            };
            match isa::decode(w, None, false) {
                Some((n, o, 1)) if n == name && o == ops => {}
                other => {
                    ctx.violation(
                        format!("rel/{}/wrong-displacement/{}", form.name, dir),
                        format!("{} to a target at displacement {}: emitted word {:04x} decodes to {:?}", form.mn, c.d, w, other),
                        replay,
                    );
                    return;
                }
            }
            if r.code != b.image {
                ctx.violation(format!("rel/{}/image", form.name), format!("image differs from the reference layout around a {} (d={})", form.mn, c.d), replay);
            }
        }
    }
    if ctx.want_sample() && (c.d == 63 || c.d == -64 || c.d == 2048) && c.mix == 1 {
        ctx.sample(json!({"mnemonic": form.mn, "d": c.d, "style": format!("{:?}", c.style), "start": c.start, "lines": b.src.lines().count(),
            "outcome": out.kind(), "source_head": b.src.lines().take(8).collect::<Vec<_>>()}));
    }
}

fn cases(ctx: &Ctx) -> Vec<Case> {
    let forms = isa::forms();
    let mut v = vec![];
    let thorough = ctx.tier == Tier::Thorough;
    let mixes: Vec<u64> = if thorough { (0..10).collect() } else { vec![0, 1] };
    let starts: Vec<u32> = if thorough { vec![0, 100, 4096, 70000] } else { vec![0, 300] };
    let styles = [Style::Label, Style::LabelPlus, Style::LabelMinus, Style::Pc];
    for (fi, form) in forms.iter().enumerate() {
        let Some(Opk::Rel { bits, .. }) = form.ops.last().copied() else { continue };
        let ds: Vec<i64> = if bits == 7 {
            (-80..=80).collect()
        } else if thorough {
            (-2100..=2100).collect()
        } else {
            (-2060..=-2036).chain(-8..=8).chain(2036..=2060).collect()
        };
        let flags: Vec<i64> = if form.ops.len() == 2 { (0..8).collect() } else { vec![0] };
        for flag in &flags {
            for d in &ds {
                for (mi, mix) in mixes.iter().chain(std::iter::once(&100u64)).enumerate() {
                    // (the reduced core has 1 Ki words of flash: short distances from the start of the flash only)
                    if *mix == 100 && bits == 12 && d.abs() > 8 {
                        continue;
                    }
                    // rotate styles/starts deterministically so every (d, style) and (d, start) pair occurs
                    let n = (*d + 4000) as usize + mi + *flag as usize;
                    let style_set: Vec<Style> = if thorough || bits == 12 { styles.to_vec() } else { vec![styles[n % 4], styles[(n + 1) % 4]] };
                    for (si, style) in style_set.iter().enumerate() {
                        let start = if bits == 12 && !thorough { starts[(n + si) % starts.len()] } else { starts[(n + si + mi) % starts.len()] };
                        // big start addresses only on a thin slice (they cost 140 KB per build)
                        let start = if start == 70000 && !(d.abs() >= 60 && d.abs() <= 66 || d.abs() >= 2040 && d.abs() <= 2050) { 0 } else { start };
                        let start = if *mix == 100 { 0 } else { start };
                        v.push(Case { form: fi, flag: *flag, d: *d, start, style: *style, mix: *mix });
                    }
                }
            }
        }
    }
    v
}

/// Far targets: displacements around every power of two up to the flash size and their negatives
/// (a field computed in a narrower integer type wraps exactly there), written pc-relative and
/// through labels placed with `.org`. All of them are unreachable and must be errors.
fn far_cases(ctx: &Ctx) {
    let forms = isa::forms();
    for (fi, form) in forms.iter().enumerate() {
        let Some(Opk::Rel { bits, .. }) = form.ops.last().copied() else { continue };
        let flags: Vec<i64> = if form.ops.len() == 2 { vec![0, 7] } else { vec![0] };
        let mut ds: Vec<i64> = vec![];
        for k in [7u32, 8, 11, 12, 13, 15, 16, 17, 20, 21, 22, 23, 24, 31, 32, 33, 40] {
            for delta in [-65i64, -64, -2, -1, 0, 1, 2, 63, 64, 2047, 2048, -2048, -2049] {
                ds.push((1i64 << k) + delta);
                ds.push(-(1i64 << k) + delta);
            }
        }
        ds.sort();
        ds.dedup();
        for flag in &flags {
            for d in &ds {
                let fits = Opk::Rel { bits, f: 'k' }.legal(*d);
                // (a) pc-relative spelling, instruction at a small address
                let t = *d + 1;
                let target = if t >= 0 { format!("pc+{}", t) } else { format!("pc-{}", -t) };
                let line = if form.ops.len() == 2 { format!("\t{} {}, {}", form.mn, flag, target) } else { format!("\t{} {}", form.mn, target) };
                let src = format!("; C03 far case\n\tnop\n{}\n", line);
                let out = fw::build_str(&src);
                ctx.eval(1);
                ctx.distinct(fw::mix64((fi as u64) << 8 | *flag as u64, *d as u64));
                let bad = match &out {
                    Outcome::Ok(_) => !fits,
                    Outcome::Err(_) => fits,
                    Outcome::Panic(_) => true,
                };
                if bad {
                    ctx.violation(
                        format!("rel/{}/{}/far", form.name, if fits { "in-range-rejected" } else { "out-of-range-accepted" }),
                        format!("{} to `{}` (displacement {}): {:?}", form.mn, target, d, out.brief()),
                        json!({"source": src, "form": form.name, "flag": flag, "d": d, "fits": fits, "expect_code": "", "observed": out.brief()}),
                    );
                }
                // (a2) the same target written as a difference with pc on the right: the instruction stands at 1, so
                // `t + 2 - pc` is 1 + t, the address `pc + t` names
                if let Some(x) = t.checked_add(2) {
                    let target2 = format!("{} - {}", x, ["pc", "PC", "Pc"][(d.unsigned_abs() % 3) as usize]);
                    let line2 = if form.ops.len() == 2 { format!("\t{} {}, {}", form.mn, flag, target2) } else { format!("\t{} {}", form.mn, target2) };
                    let src2 = format!("; C03 far case\n\tnop\n{}\n", line2);
                    let out2 = fw::build_str(&src2);
                    ctx.eval(1);
                    let bad2 = match (&out, &out2) {
                        (_, Outcome::Panic(_)) => true,
                        (Outcome::Ok(a), Outcome::Ok(b)) => a.code != b.code,
                        (Outcome::Ok(_), Outcome::Err(_)) | (Outcome::Err(_), Outcome::Ok(_)) => true,
                        _ => false,
                    };
                    if bad2 && !bad {
                        ctx.violation(
                            format!("rel/{}/{}/far/difference-with-pc", form.name, if fits { "in-range-wrong" } else { "out-of-range-accepted" }),
                            format!("{} to `{}` (the same address as `{}`, displacement {}): {:?}", form.mn, target2, target, d, out2.brief()),
                            json!({"source": src2, "form": form.name, "flag": flag, "d": d, "fits": fits, "expect_code": out.brief()["ok"]["code"].as_str().unwrap_or(""), "observed": out2.brief()}),
                        );
                    }
                }
                // (b) a label that far away (forward only, within the default flash), placed with .org
                if *d > 0 && *d < 4_000_000 && !fits && (*flag == 0) {
                    let at = 5u32;
                    let target_addr = at as i64 + 1 + *d;
                    let line = if form.ops.len() == 2 { format!("\t{} {}, far_label", form.mn, flag) } else { format!("\t{} far_label", form.mn) };
                    let src = format!("; C03 far label case\n.org {}\n{}\n.org {}\nfar_label:\n\tnop\n", at, line, target_addr);
                    let out = fw::build_str(&src);
                    ctx.eval(1);
                    if !out.is_err() {
                        ctx.violation(
                            format!("rel/{}/out-of-range-accepted/far-label", form.name),
                            format!("{} to a label {} words ahead was not rejected: {}", form.mn, d, out.kind()),
                            json!({"source": src, "form": form.name, "flag": flag, "d": d, "fits": false, "expect_code": "", "observed": out.brief()}),
                        );
                    }
                }
            }
        }
    }
}

/// Targets that do not fit 64 bits: written as sums and products of literals whose value, taken modulo 2^64,
/// would lie next to the instruction. They are unreachable whichever way the expression arrives - written on the
/// line, through an `.equ` or a `.set`, as a macro argument, as an offset to `pc`.
fn overflowing_target_cases(ctx: &Ctx) {
    let forms = isa::forms();
    let texts = [
        "0x7fffffffffffffff + 0x7fffffffffffffff + 4",
        "0x4000000000000000 * 4 + 3",
        "-0x7fffffffffffffff - 0x7fffffffffffffff - 1",
        "0x2000000000000000 * 8",
        "9223372036854775807 + 3 - 1",
        "4611686018427387904 * 2 + 2",
        "-4611686018427387904 * 3 - 4611686018427387904 + 2",
        "3 - (-0x7fffffffffffffff - 2)",
    ];
    let mut n = 0u64;
    for form in forms.iter().filter(|f| f.mn == "rjmp" || f.mn == "rcall" || f.mn == "brne" || f.mn == "brcs") {
        for t in texts {
            for route in 0..6 {
                let src = match route {
                    0 => format!("\tnop\n\t{} {}\n\tnop\n", form.mn, t),
                    1 => format!(".equ far = {}\n\tnop\n\t{} far\n\tnop\n", t, form.mn),
                    2 => format!("\tnop\n\t{} Far\n\tnop\n.equ far = {}\n", form.mn, t),
                    3 => format!(".set far = {}\n\tnop\n\t{} far\n\tnop\n", t, form.mn),
                    4 => format!(".macro go\n\t{} @0\n.endm\n\tnop\n\tgo {}\n\tnop\n", form.mn, t),
                    _ => format!(".equ skip = {}\n\tnop\n\t{} pc + skip\n\tnop\n", t, form.mn),
                };
                let src = format!("; C03 overflowing target case\n{}", src);
                let out = fw::build_str(&src);
                ctx.eval(1);
                n += 1;
                ctx.distinct(fw::mix64(0x30F1 ^ route, fw::hash_str(t) ^ fw::hash_str(&form.name)));
                if !out.is_err() {
                    ctx.violation(
                        format!("rel/{}/out-of-range-accepted/target-beyond-64-bits/{}", form.name, ["on-the-line", "through-equ", "through-equ-defined-later", "through-set", "as-macro-argument", "as-offset-to-pc"][route as usize]),
                        format!("{} to `{}`, which does not fit 64 bits: {:?}", form.mn, t, out.brief()),
                        json!({"source": src, "form": form.name, "flag": 0, "d": 1i64 << 40, "fits": false, "expect_code": "", "observed": out.brief()}),
                    );
                }
            }
        }
    }
    ctx.put("overflowing_target_builds", json!(n));
}

/// A branch target named like a `#define` that was ended again (in the same or another letter case, by `#undef`
/// or `.undef`): whatever the tool makes of ending a #define - refuse it, or end it - the branch never goes to
/// the 0 a #define stands for when the name is a label of the program.
fn ended_define_cases(ctx: &Ctx) {
    let forms = isa::forms();
    let mut n = 0u64;
    for form in forms.iter().filter(|f| f.mn == "rjmp" || f.mn == "rcall" || f.mn == "brne") {
        for (def, undef, label, used) in [
            ("#define RETRY", "#undef retry", "retry", "RETRY"),
            ("#define RETRY", "#undef RETRY", "retry", "RETRY"),
            ("#define retry", ".undef Retry", "Retry", "retry"),
            ("#define Retry\n#define RETRY", "#undef retry", "retry", "RETRY"),
            ("#define Retry\n#define RETRY", ".undef RETRY", "retry", "Retry"),
            (".define RETRY", ".undef retry", "RETRY", "RETRY"),
        ] {
            for gap in [2i64, 40, 100] {
                let src = format!("; C03 ended define case\n{}\n{}\n\tnop\n\tnop\n{}:\tnop\n{}\t{} {}\n", def, undef, label, "\tnop\n".repeat(gap as usize), form.mn, used);
                let at = 3 + gap;
                let d = 2 - (at + 1);
                let Some(Opk::Rel { bits, .. }) = form.ops.last().copied() else { continue };
                let fits = Opk::Rel { bits, f: 'k' }.legal(d);
                let out = fw::build_str(&src);
                ctx.eval(1);
                n += 1;
                ctx.distinct(fw::mix64(0x3DEF ^ gap as u64, fw::hash_str(def) ^ fw::hash_str(undef) ^ fw::hash_str(&form.name)));
                let ok = match &out {
                    Outcome::Panic(_) => false,
                    Outcome::Err(_) => true,
                    Outcome::Ok(b) => fits && b.code.get(at as usize * 2..at as usize * 2 + 2).map(|w| w == &isa::words_to_bytes(&isa::encode(form, &[d]))[..]).unwrap_or(false),
                };
                if !ok {
                    ctx.violation(
                        format!("rel/{}/ended-define/{}", form.name, if fits { "does-not-reach-the-label" } else { "out-of-range-accepted" }),
                        format!("`{}` / `{}` / label {} / `{} {}` {} words further on: {}", def.replace('\n', " / "), undef, label, form.mn, used, gap, fw::clip(&format!("{:?}", out.brief()), 120)),
                        json!({"source": src, "form": form.name, "flag": 0, "d": d, "fits": fits, "wrap": true, "ended_define": true, "instr_word_addr": at, "observed": out.kind()}),
                    );
                }
            }
        }
    }
    ctx.put("ended_define_builds", json!(n));
}

/// On a part whose flash is exactly 2^k words the program counter of the real chip wraps around, and some
/// assemblers let rjmp/rcall "reach" a target the short way round. The statement does not: a target is
/// reached iff target = address + 1 + d with d in the field. Every device size class, instruction near
/// either end of the flash, target near the other end (so that d is far outside the field but d -/+ size
/// would fit), by label and by number; and in-range controls at the same places.
fn wrap_around_cases(ctx: &Ctx) {
    let forms = isa::forms();
    let table = crate::refmodel::devices::table();
    let mut by_size: std::collections::BTreeMap<u32, String> = std::collections::BTreeMap::new();
    for (n, d) in &table {
        if d.flash_size >= 1024 && d.flash_size.is_power_of_two() && crate::refmodel::devices::forbidding_flag(d, "rjmp").is_none() {
            by_size.entry(d.flash_size).or_insert(n.clone());
        }
    }
    for (size, dev) in &by_size {
        let size = *size as i64;
        for form in forms.iter().filter(|f| f.mn == "rjmp" || f.mn == "rcall" || f.mn == "brne") {
            let Some(Opk::Rel { bits, .. }) = form.ops.last().copied() else { continue };
            let h = 1i64 << (bits - 1);
            for (at, target) in [(0i64, size - 1), (3, size - 5), (0, size - h / 2), (size - 2, 0), (size - 3, 4), (size - h / 2, 1), (5, 5 + h + 3), (size - 2, size - 2 - h)] {
                if at < 0 || target < 0 || at >= size || target >= size {
                    continue;
                }
                let d = target - (at + 1);
                let fits = d >= -h && d < h;
                for by_label in [true, false] {
                    let operand = if by_label { "the_target".to_string() } else { format!("0x{:x}", target) };
                    let ins = format!("\t{} {}", form.mn, operand);
                    // the label and the instruction at their places, lower address first
                    let src = if target <= at {
                        format!("; C03 wrap-around case\n.device {}\n.org {}\nthe_target:\n\tnop\n.org {}\n{}\n", dev, target, at.max(target + 1), ins)
                    } else {
                        format!("; C03 wrap-around case\n.device {}\n.org {}\n{}\n.org {}\nthe_target:\n\tnop\n", dev, at, ins, target)
                    };
                    let src = src.replace(".org 0\n", "");
                    let out = fw::build_str(&src);
                    ctx.eval(1);
                    ctx.count("wrap_around_cases", 1);
                    ctx.distinct(fw::mix64(0x3AC3 ^ (size as u64) << 8, (at as u64) << 24 ^ target as u64 ^ (by_label as u64) << 60));
                    let at_real = if target <= at { at.max(target + 1) } else { at };
                    let d_real = target - (at_real + 1);
                    let fits_real = d_real >= -h && d_real < h;
                    let _ = (d, fits);
                    let ok = match &out {
                        Outcome::Panic(_) => false,
                        Outcome::Err(_) => !fits_real,
                        Outcome::Ok(b) => {
                            let off = at_real as usize * 2;
                            fits_real && b.code.get(off..off + 2).map(|w| w == &isa::words_to_bytes(&isa::encode(form, &[d_real]))[..]).unwrap_or(false)
                        }
                    };
                    if !ok {
                        ctx.violation(
                            format!("rel/{}/{}/wrap-around-{}", form.name, if fits_real { "in-range-wrong" } else { "out-of-range-accepted" }, size),
                            format!("{} at {} to {} on {} ({} words): d = {} {}: {}", form.mn, at_real, target, dev, size, d_real, if fits_real { "fits" } else { "does not fit" }, fw::clip(&format!("{:?}", out.kind()), 80)),
                            json!({"source": src, "form": form.name, "flag": 0, "d": d_real, "fits": fits_real, "wrap": true, "instr_word_addr": at_real, "observed": out.kind()}),
                        );
                    }
                }
            }
        }
    }
}

/// The instruction at the very end (or start) of the flash and a target on the other side of that edge: the
/// statement is about the displacement, not about where the target lies - `rjmp pc+1` in the last word of the
/// flash has d = 0 and builds, whichever way the target is written.
fn flash_edge_cases(ctx: &Ctx) {
    let forms = isa::forms();
    let table = crate::refmodel::devices::table();
    let mut sizes: Vec<(i64, Option<String>)> = vec![(4_194_304, None)];
    for (n, d) in &table {
        if crate::refmodel::devices::forbidding_flag(d, "rjmp").is_none() && !sizes.iter().any(|(s, _)| *s == d.flash_size as i64) {
            sizes.push((d.flash_size as i64, Some(n.clone())));
        }
    }
    for (size, dev) in &sizes {
        let size = *size;
        for form in forms.iter().filter(|f| f.mn == "rjmp" || f.mn == "rcall" || f.mn == "brne") {
            let Some(Opk::Rel { bits, .. }) = form.ops.last().copied() else { continue };
            let h = 1i64 << (bits - 1);
            let mut cases: Vec<(i64, i64)> = vec![];
            for at in [size - 1, size - 2, size - h] {
                for d in [0, 1, h - 1, h] {
                    cases.push((at, d));
                }
            }
            for at in [0, 1] {
                for d in [-2, -3, -h, -h - 1] {
                    cases.push((at, d));
                }
            }
            for (at, d) in cases {
                if at < 0 {
                    continue;
                }
                let target = at + 1 + d;
                let fits = d >= -h && d < h;
                for how in 0..3 {
                    let rel = target - at;
                    let (pre, operand) = match how {
                        0 => (String::new(), if rel >= 0 { format!("pc+{}", rel) } else { format!("pc-{}", -rel) }),
                        1 => (String::new(), if target >= 0 { format!("0x{:x}", target) } else { format!("{}", target) }),
                        _ => (format!(".equ over_the_edge = {}\n", target), "Over_The_Edge".to_string()),
                    };
                    let src = format!("; C03 flash edge case\n{}{}{}\t{} {}\n", dev.as_ref().map(|d| format!(".device {}\n", d)).unwrap_or_default(), pre, if at > 0 { format!(".org 0x{:x}\n", at) } else { String::new() }, form.mn, operand);
                    let out = fw::build_str(&src);
                    ctx.eval(1);
                    ctx.count("flash_edge_cases", 1);
                    ctx.distinct(fw::mix64(0x3ED6 ^ (size as u64) << 8, (at as u64) << 24 ^ (d as u64) << 2 ^ how));
                    let ok = match &out {
                        Outcome::Panic(_) => false,
                        Outcome::Err(_) => !fits,
                        Outcome::Ok(b) => {
                            let off = at as usize * 2;
                            fits && b.code.get(off..off + 2).map(|w| w == &isa::words_to_bytes(&isa::encode(form, &[d]))[..]).unwrap_or(false)
                        }
                    };
                    if !ok {
                        ctx.violation(
                            format!("rel/{}/{}/flash-edge-{}", form.name, if fits { "in-range-wrong" } else { "out-of-range-accepted" }, size),
                            format!("{} {} at 0x{:x} of {} words ({}): d = {} {}: {}", form.mn, operand, at, size, dev.as_deref().unwrap_or("no device"), d, if fits { "fits" } else { "does not fit" }, fw::clip(&format!("{:?}", out.kind()), 80)),
                            json!({"source": src, "form": form.name, "flag": 0, "d": d, "fits": fits, "wrap": true, "instr_word_addr": at, "observed": out.kind()}),
                        );
                    }
                }
            }
        }
    }
}

/// The branch as the last line of a file, with and without a line end behind it, in LF and CRLF files, and in
/// files that hold bytes that are not UTF-8 or begin with a byte order mark (such a file may be refused; if
/// it is built, the branch reaches its target all the same). The label has a namesake that is one character
/// shorter and the pc offset has two digits: a last line that loses a character still assembles.
fn last_line_cases(ctx: &Ctx) {
    let forms = isa::forms();
    for form in forms.iter().filter(|f| f.mn == "rjmp" || f.mn == "rcall" || f.mn == "brne" || f.mn == "brcs") {
        for gap in [11i64, 13, 27] {
            for by_label in [true, false] {
                // loop1 at 0, loop10 at 2, the branch at 2 + gap
                let at = 2 + gap;
                let target = if by_label { 2 } else { at - gap };
                let d = target - (at + 1);
                let mut lines: Vec<String> = vec!["; C03 last line case, 16 MHz".into(), "loop1:\tnop".into(), "\tnop".into(), "loop10:\tnop".into()];
                for _ in 1..gap {
                    lines.push("\tnop".into());
                }
                lines.push(if by_label { format!("\t{} loop10", form.mn) } else { format!("\t{} pc-{}", form.mn, gap) });
                let expect = isa::words_to_bytes(&isa::encode(form, &[d]));
                for variant in 0..7 {
                    let (eol, final_eol, latin1, bom) = match variant {
                        0 => ("\n", true, false, false),
                        1 => ("\n", false, false, false),
                        2 => ("\r\n", false, false, false),
                        3 => ("\r\n", true, false, false),
                        4 => ("\n", false, true, false),
                        5 => ("\n", true, true, false),
                        _ => ("\n", false, false, true),
                    };
                    let mut bytes: Vec<u8> = vec![];
                    if bom {
                        bytes.extend([0xef, 0xbb, 0xbf]);
                    }
                    for (i, l) in lines.iter().enumerate() {
                        bytes.extend(l.as_bytes());
                        if i == 0 && latin1 {
                            bytes.extend(b", 1 \xb5s per cycle \xb0");
                        }
                        if i + 1 < lines.len() || final_eol {
                            bytes.extend(eol.as_bytes());
                        }
                    }
                    let must_build = !latin1 && !bom;
                    let out = fw::build_main_with_part_bytes(&bytes, b"");
                    ctx.eval(1);
                    ctx.count("last_line_of_file_cases", 1);
                    ctx.distinct(fw::mix64(0x3A57 ^ gap as u64, fw::hash_str(&form.name) ^ variant << 3 ^ by_label as u64));
                    let ok = match &out {
                        Outcome::Panic(_) => false,
                        Outcome::Err(e) => !must_build && !e.starts_with("HARNESS:"),
                        Outcome::Ok(b) => b.code.len() == (at as usize + 1) * 2 && b.code[at as usize * 2..] == expect[..],
                    };
                    if let Outcome::Err(e) = &out {
                        if e.starts_with("HARNESS:") {
                            ctx.inconclusive(e.clone());
                            continue;
                        }
                    }
                    if !ok {
                        let what = ["lf-with-final-line-end", "lf-no-final-line-end", "crlf-no-final-line-end", "crlf-with-final-line-end", "not-utf8-no-final-line-end", "not-utf8-with-final-line-end", "byte-order-mark"][variant as usize];
                        ctx.violation(
                            format!("rel/{}/last-line-of-file/{}", form.name, what),
                            format!("`{}` as the last line of a file ({}): d = {} expected, got {}", lines.last().unwrap().trim(), what, d, fw::clip(&format!("{:?}", out.brief()), 120)),
                            json!({"file_bytes_hex": fw::hex(&bytes, 8192), "form": form.name, "d": d, "must_build": must_build, "instr_word_addr": at, "last_line": true}),
                        );
                    }
                }
            }
        }
    }
}

/// The instruction sits in a one-line macro body that is expanded several times back to back (all
/// copies share one source line number), with a pc-relative target and with a label outside.
fn macro_cases(ctx: &Ctx) {
    let forms = isa::forms();
    for (fi, form) in forms.iter().enumerate() {
        let Some(Opk::Rel { bits, .. }) = form.ops.last().copied() else { continue };
        let h = 1i64 << (bits - 1);
        let flag = 3i64;
        for d in [-h, -h + 1, -2, -1, 0, 1, 5, h - 2, h - 1] {
            // (a) pc-relative target, three copies + one copy through an outer macro
            let t = d + 1;
            let target = if t >= 0 { format!("pc+{}", t) } else { format!("pc-{}", -t) };
            let line = if form.ops.len() == 2 { format!("\t{} {}, {}", form.mn, flag, target) } else { format!("\t{} {}", form.mn, target) };
            let src = format!("; C03 macro case\n.macro jm\n{}\n.endm\n.macro twice\n\tjm\n\tjm\n.endm\n\tnop\n\tjm\n\tjm\n\tjm\n\ttwice\n\tnop\n", line);
            let vals: Vec<i64> = if form.ops.len() == 2 { vec![flag, d] } else { vec![d] };
            let w = isa::words_to_bytes(&isa::encode(form, &vals));
            let mut expect = vec![0u8, 0];
            for _ in 0..5 {
                expect.extend(&w);
            }
            expect.extend([0u8, 0]);
            let out = fw::build_str(&src);
            ctx.eval(1);
            ctx.distinct(fw::mix64(0x3AC0 ^ (fi as u64) << 8, d as u64));
            if !matches!(&out, Outcome::Ok(b) if b.code == expect) {
                ctx.violation(
                    format!("rel/{}/in-repeated-macro-body/pc-relative", form.name),
                    format!("{} {} in a one-line macro body expanded five times: {}", form.mn, target, fw::clip(&format!("{:?}", out.brief()), 200)),
                    json!({"source": src, "form": form.name, "flag": flag, "d": d, "fits": true, "instr_word_addr": 1, "expect_code": fw::hex(&expect, 4096), "observed": out.brief()}),
                );
            }
            // (b) label target outside the macro: copy k sits at word 1+k, the label at word T
            if d >= 3 && d < 60 {
                let tword = 1 + 1 + d; // first copy at word 1 reaches T = 1 + 1 + d
                let line = if form.ops.len() == 2 { format!("\t{} {}, tgt_lbl", form.mn, flag) } else { format!("\t{} tgt_lbl", form.mn) };
                let filler = (tword - 4) as usize; // words 1,2,3 are the copies
                let src = format!("; C03 macro label case\n.macro jl\n{}\n.endm\n\tnop\n\tjl\n\tjl\n\tjl\n{}tgt_lbl:\n\tnop\n", line, "\tnop\n".repeat(filler));
                let mut expect = vec![0u8, 0];
                for k in 0..3i64 {
                    let dk = tword - (1 + k + 1);
                    let vals: Vec<i64> = if form.ops.len() == 2 { vec![flag, dk] } else { vec![dk] };
                    expect.extend(isa::words_to_bytes(&isa::encode(form, &vals)));
                }
                expect.extend(std::iter::repeat(0u8).take(filler * 2 + 2));
                let out = fw::build_str(&src);
                ctx.eval(1);
                if !matches!(&out, Outcome::Ok(b) if b.code == expect) {
                    ctx.violation(
                        format!("rel/{}/in-repeated-macro-body/label", form.name),
                        format!("{} tgt_lbl in a one-line macro body expanded three times: {}", form.mn, fw::clip(&format!("{:?}", out.brief()), 200)),
                        json!({"source": src, "form": form.name, "flag": flag, "d": d, "fits": true, "instr_word_addr": 1, "expect_code": fw::hex(&expect, 4096), "observed": out.brief()}),
                    );
                }
            }
        }
        // (c) the target arrives as a macro parameter (pc-relative text or a label), the macro sits in a
        // taken conditional branch, and is called at three different addresses; both limits and the
        // first unreachable displacement on either side
        for (d, lead) in [-h - 1, -h, -1, 0, 1, h - 1, h].into_iter().flat_map(|d| [0usize, 1, 2].into_iter().map(move |l| (d, l))) {
            let fits = d >= -h && d < h;
            let t = d + 1;
            let pcrel = if t >= 0 { format!("pc+{}", t) } else { format!("PC-{}", -t) };
            // (`lead` instructions in front of the branch inside the body: the branch is not at the address of the call)
            let body = format!("{}{}", "\tnop\n".repeat(lead), if form.ops.len() == 2 { format!("\t{} {}, @0", form.mn, flag) } else { format!("\t{} @0", form.mn) });
            // pc-relative argument: every copy has the same displacement
            let src = format!("; C03 macro parameter case\n.equ enabled = 1\n.if enabled\n.macro jp\n{}\n.endm\n.endif\n\tnop\n\tjp {}\n\tnop\n.if enabled\n\tjp {}\n.else\n\tjp pc\n.endif\n\tjp {}\n\tnop\n", body, pcrel, pcrel, pcrel);
            let vals: Vec<i64> = if form.ops.len() == 2 { vec![flag, d] } else { vec![d] };
            let mut expect = vec![0u8, 0];
            if fits {
                let mut w = vec![0u8; lead * 2];
                w.extend(isa::words_to_bytes(&isa::encode(form, &vals)));
                expect.extend(&w);
                expect.extend([0u8, 0]);
                expect.extend(&w);
                expect.extend(&w);
                expect.extend([0u8, 0]);
            }
            let out = fw::build_str(&src);
            ctx.eval(1);
            ctx.distinct(fw::mix64(0x3AC1 ^ (fi as u64) << 8 ^ (lead as u64) << 20, d as u64));
            let ok = match &out {
                Outcome::Ok(b) => fits && b.code == expect,
                Outcome::Err(_) => !fits,
                Outcome::Panic(_) => false,
            };
            if !ok {
                ctx.violation(
                    format!("rel/{}/target-as-macro-parameter/{}", form.name, if fits { "pc-relative" } else { "out-of-range-accepted-or-panic" }),
                    format!("{} with `{}` passed as macro parameter (d = {}, {}): {}", form.mn, pcrel, d, if fits { "fits" } else { "does not fit" }, fw::clip(&format!("{:?}", out.brief()), 200)),
                    json!({"source": src, "form": form.name, "flag": flag, "d": d, "fits": fits, "instr_word_addr": 1, "expect_code": fw::hex(&expect, 4096), "observed": out.brief()}),
                );
            }
        }
        // label argument: a forward and a backward label, each named at two call sites
        {
            let body = if form.ops.len() == 2 { format!("\t{} {}, @0", form.mn, flag) } else { format!("\t{} @0", form.mn) };
            let src = format!("; C03 macro label parameter case\n.macro jp\n{}\n.endm\nback:\n\tnop\n\tjp fwd\n\tjp back\n\tnop\n\tjp fwd\n\tjp back\nfwd:\n\tnop\n", body);
            // words: 0 nop, 1 jp fwd (T=6), 2 jp back (T=0), 3 nop, 4 jp fwd, 5 jp back, 6 nop
            let enc = |at: i64, target: i64| -> Vec<u8> {
                let d = target - (at + 1);
                let vals: Vec<i64> = if form.ops.len() == 2 { vec![flag, d] } else { vec![d] };
                isa::words_to_bytes(&isa::encode(form, &vals))
            };
            let mut expect = vec![0u8, 0];
            expect.extend(enc(1, 6));
            expect.extend(enc(2, 0));
            expect.extend([0u8, 0]);
            expect.extend(enc(4, 6));
            expect.extend(enc(5, 0));
            expect.extend([0u8, 0]);
            let out = fw::build_str(&src);
            ctx.eval(1);
            if !matches!(&out, Outcome::Ok(b) if b.code == expect) {
                ctx.violation(
                    format!("rel/{}/target-as-macro-parameter/label", form.name),
                    format!("{} with labels passed as macro parameter: {}", form.mn, fw::clip(&format!("{:?}", out.brief()), 200)),
                    json!({"source": src, "form": form.name, "flag": flag, "d": 4, "fits": true, "instr_word_addr": 1, "expect_code": fw::hex(&expect, 4096), "observed": out.brief()}),
                );
            }
        }
    }
}

pub fn run(ctx: &Ctx) -> i32 {
    if let Err(e) = isa::selfcheck() {
        println!("HARNESS-FAILURE property=C03 {}", e);
        return 2;
    }
    far_cases(ctx);
    overflowing_target_cases(ctx);
    ended_define_cases(ctx);
    wrap_around_cases(ctx);
    flash_edge_cases(ctx);
    last_line_cases(ctx);
    macro_cases(ctx);
    let cs = cases(ctx);
    let mut forms_seen = std::collections::BTreeSet::new();
    for c in &cs {
        forms_seen.insert(isa::forms()[c.form].name.clone());
    }
    ctx.put("relative_forms", json!(forms_seen));
    ctx.put("programs", json!(cs.len()));
    fw::par_for(cs.len() as u64, 16, |i| check(ctx, &cs[i as usize]));
    ctx.exhaustive.store(true, std::sync::atomic::Ordering::Relaxed);
    fw::finish(
        ctx,
        "for each of the 18 br<cond> mnemonics, brbs/brbc x 8 flags, rjmp and rcall: every displacement in the stated window (branches -80..80; rjmp/rcall around both limits and zero, thorough -2100..2100) x filler mixes (nop-only and random mixes of one/two-word instructions, .dw/.db/.dq data, .org gaps) x target spellings (label, label+k, label-k, pc±k) x start addresses; plus far targets: displacements within ±65/±2049 of ±2^k for k up to 40, pc-relative and through labels placed with .org (all must be rejected); targets written as sums and products of literals that do not fit 64 bits but would lie next to the instruction modulo 2^64, on the line, through .equ / .set, as macro argument and as offset to pc (all must be rejected); rjmp/rcall/brne near either end of the flash of one device per power-of-two flash size with the target near the other end (a wrapped displacement would fit; must be rejected) and in-range controls there; the same three at the last words and the first words of every flash size of the table and of the 4 Mi-word default with targets on the other side of the edge (d = 0, 1, the largest that fits, one more; written as pc±k, as a number, through an .equ); the branch as the last line of a file (label with a shorter namesake, two-digit pc offset) with and without a final line end, LF and CRLF, and in files with non-UTF-8 bytes or a byte order mark (refused or built right); and every form inside a one-line macro body expanded several times back to back (pc-relative and label targets), and with the target as a macro parameter (pc-relative text at both limits and one beyond, forward and backward labels; macro defined and called inside taken conditional branches); distinct_nontrivial = distinct (mnemonic, flag, displacement) triples",
        &["distances are realised with reference encodings of the filler items (refmodel/isa.rs); decode by the independent decoder"],
    )
}

pub fn replay(ctx: &Ctx, case: &Value) -> i32 {
    if case["last_line"].as_bool() == Some(true) {
        let hexs = case["file_bytes_hex"].as_str().unwrap_or("");
        let bytes: Vec<u8> = (0..hexs.len() / 2).filter_map(|i| u8::from_str_radix(&hexs[2 * i..2 * i + 2], 16).ok()).collect();
        let form = isa::form(case["form"].as_str().unwrap_or("rjmp"));
        let at = case["instr_word_addr"].as_u64().unwrap_or(0) as usize * 2;
        let out = fw::build_main_with_part_bytes(&bytes, b"");
        ctx.eval(1);
        ctx.distinct(1);
        ctx.distinct(2);
        let bad = match &out {
            Outcome::Panic(_) => true,
            Outcome::Err(_) => case["must_build"].as_bool() == Some(true),
            Outcome::Ok(r) => r.code.get(at..at + 2).map(|w| w != &isa::words_to_bytes(&isa::encode(form, &[case["d"].as_i64().unwrap_or(0)]))[..]).unwrap_or(true),
        };
        if bad {
            ctx.violation("rel/replay", format!("replayed file still fails: {}", out.kind()), case.clone());
        }
        return fw::finish(ctx, "replay", &[]);
    }
    let src = case["source"].as_str().unwrap_or("");
    let form = isa::form(case["form"].as_str().unwrap_or("rjmp"));
    let d = case["d"].as_i64().unwrap_or(0);
    let fits = form.ops.last().unwrap().legal(d);
    let out = fw::build_str(src);
    ctx.eval(1);
    ctx.distinct(1);
    ctx.distinct(2);
    let bad = if case["wrap"].as_bool() == Some(true) {
        let at = case["instr_word_addr"].as_u64().unwrap_or(0) as usize * 2;
        match &out {
            Outcome::Panic(_) => true,
            Outcome::Err(_) => fits && case["ended_define"].as_bool() != Some(true),
            Outcome::Ok(r) => !fits || r.code.get(at..at + 2).map(|w| w != &isa::words_to_bytes(&isa::encode(form, &[d]))[..]).unwrap_or(true),
        }
    } else {
        match &out {
            Outcome::Panic(_) => true,
            Outcome::Err(_) => fits,
            Outcome::Ok(r) => !fits || fw::hex(&r.code, 1 << 20) != case["expect_code"].as_str().unwrap_or(""),
        }
    };
    if bad {
        ctx.violation(case["sig"].as_str().unwrap_or("rel/replay").to_string(), format!("replayed case still fails: {}", out.kind()), case.clone());
    }
    fw::finish(ctx, "replay", &[])
}
