.equ size = 5
.dseg
v1: .byte size
v2: .byte 1
.cseg
	.dd v2
