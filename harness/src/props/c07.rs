//! C07 — the Intel HEX files reproduce the images byte for byte at the right addresses.
//!
//! Direct calls of write_code_hex / write_eeprom_hex on synthetic BuildResults with
//! position-dependent contents; every written file is decoded by the strict independent reader
//! and compared cell by cell with the image.

use crate::fw::{self, BuildResult, Ctx, Outcome, Tier};
use crate::refmodel::{devices, ihex};
use serde_json::{json, Value};
use std::path::PathBuf;

fn scratch() -> PathBuf {
    let d = fw::verif_root().join("build").join(format!("scratch-c07-{}", std::process::id()));
    let _ = std::fs::create_dir_all(&d);
    d
}

fn image(len: usize, seed: u64) -> Vec<u8> {
    // position-dependent contents: a record written at a wrapped offset cannot decode to the right bytes by luck
    let mut v = Vec::with_capacity(len);
    let mut i = 0u64;
    while v.len() < len {
        let x = fw::mix64(seed, i);
        for b in x.to_le_bytes() {
            if v.len() < len {
                v.push(b);
            }
        }
        i += 1;
    }
    // half of the images also hold stretches a writer might treat specially: whole records of 0xFF
    // (erased flash), of 0x00 (padding), of ':' / CR / LF, at record-aligned offsets, around every
    // 64 KiB boundary, at the very start and the very end
    let mode = fw::mix64(seed ^ 0x5EED, len as u64) % 8;
    if mode >= 4 && len >= 16 {
        let fill = [0xFFu8, 0x00, b':', 0x0D, 0x0A, 0xFF, 0x00, 0xFF];
        let records = len / 16;
        let mut blocks: Vec<usize> = vec![0, records.saturating_sub(1)];
        let mut b = 4096usize; // record index of 64 KiB
        while b <= records {
            blocks.extend([b.saturating_sub(1), b, b + 1]);
            b += 4096;
        }
        for k in 0..(records / 3).min(400) {
            blocks.push((fw::mix64(seed, 0xB10C + k as u64) % records.max(1) as u64) as usize);
        }
        for (k, r) in blocks.iter().enumerate() {
            let f = if mode == 7 { 0xFF } else { fill[(k + mode as usize) % fill.len()] };
            let run = 1 + (fw::mix64(seed, 0xF111 + k as u64) % 3) as usize;
            for j in r * 16..((r + run) * 16).min(len) {
                v[j] = f;
            }
        }
        if mode == 6 {
            // one byte that is not 0xFF in an otherwise erased image
            for x in v.iter_mut() {
                *x = 0xFF;
            }
            let at = (fw::mix64(seed, 0xA7) % len as u64) as usize;
            v[at] = 0x12;
        }
    }
    v
}

#[derive(Clone, Copy, PartialEq, Debug)]
enum Which {
    Code,
    Eeprom,
}

fn check(ctx: &Ctx, which: Which, len: usize, tid: u64) {
    let img = image(len, ctx.seed ^ len as u64);
    // the other image carries different contents, so a writer that picks the wrong field is caught
    let other = image((len % 37) + 3, !ctx.seed ^ len as u64);
    // the declared memory sizes are those of some device that can hold the image (the defaults every third
    // time): what is written depends on the image alone
    let pick = fw::mix64(ctx.seed, len as u64 ^ 0xC07);
    let flash_sizes: Vec<u32> = [256u32, 512, 1024, 2048, 4096, 8192, 16384, 32768, 65536, 131072, 4194304].into_iter().filter(|w| (*w as usize) * 2 >= len).collect();
    let eeprom_sizes: Vec<u32> = [0u32, 64, 128, 256, 512, 1024, 2048, 4096, 65536].into_iter().filter(|b| (*b as usize) >= len.min(65536)).collect();
    let (fs, es) = if pick % 3 == 0 { (4194304, 65536) } else { (flash_sizes[(pick >> 8) as usize % flash_sizes.len()], eeprom_sizes[(pick >> 24) as usize % eeprom_sizes.len()]) };
    let br = match which {
        Which::Code => BuildResult { code: img.clone(), eeprom: other, flash_size: fs, eeprom_size: 65536, ram_size: 8388608, ram_filling: 0, messages: vec![] },
        Which::Eeprom => BuildResult { code: other, eeprom: img.clone(), flash_size: 4194304, eeprom_size: es, ram_size: 8388608, ram_filling: 0, messages: vec![] },
    };
    let path = scratch().join(format!("w{}_{:?}_{}.hex", tid, which, len));
    let p2 = path.clone();
    let res = fw::guarded(move || match which {
        Which::Code => avra_lib::writer::write_code_hex(p2, &br).map_err(|e| e.to_string()),
        Which::Eeprom => avra_lib::writer::write_eeprom_hex(p2, &br).map_err(|e| e.to_string()),
    });
    ctx.eval(1);
    let bucket = if len == 0 { "empty".to_string() } else if len > 65536 { format!("{}x64K", (len - 1) / 65536 + 1) } else { "le64K".to_string() };
    let wname = if which == Which::Code { "code" } else { "eeprom" };
    let replay = json!({"writer": wname, "len": len, "content_seed": ctx.seed ^ len as u64});
    let sig_len = if len == 0 { "len=0" } else if len > 65536 { "len>65536" } else if len % 16 != 0 { "len<=65536,partial-last-record" } else { "len<=65536" };
    match res {
        Err(p) => ctx.violation(format!("hex/{}/{}/panic", wname, sig_len), format!("writer panicked on a {}-byte image: {}", len, fw::clip(&p, 120)), replay),
        Ok(Err(e)) => ctx.violation(format!("hex/{}/{}/error", wname, sig_len), format!("writer failed on a {}-byte image: {}", len, fw::clip(&e, 120)), replay),
        Ok(Ok(())) => {
            let text = std::fs::read(&path).unwrap_or_default();
            match ihex::decode(&text) {
                Err(e) => ctx.violation(format!("hex/{}/{}/malformed", wname, sig_len), format!("file for a {}-byte image is not well-formed Intel HEX: {}", len, e), replay),
                Ok(d) => {
                    if let Err(e) = ihex::compare(&d, &img) {
                        ctx.violation(format!("hex/{}/{}/content", wname, sig_len), format!("file for a {}-byte image decodes wrongly: {}", len, e), replay);
                    }
                    ctx.count("data_records_decoded", d.data_records as u64);
                    ctx.count("extended_address_records_decoded", d.ext_records as u64);
                    ctx.count("bytes_compared", img.len() as u64);
                    if ctx.want_sample() && (len == 0 || len == 17 || len == 65537) {
                        ctx.sample(json!({"writer": wname, "len": len, "file_head": String::from_utf8_lossy(&text[..text.len().min(120)]), "data_records": d.data_records, "ext_records": d.ext_records}));
                    }
                }
            }
        }
    }
    ctx.set_add("length_buckets", &format!("{}:{}", wname, bucket));
    let _ = std::fs::remove_file(&path);
}

/// The same lengths again and again with different contents - through one BuildResult patched in
/// place and through fresh objects - code writer and EEPROM writer alternating: a result remembered
/// from an earlier call must never be written for a later image.
fn repeated_same_length(ctx: &Ctx) {
    let lens: Vec<usize> = vec![0, 1, 15, 16, 17, 33, 64, 255, 256, 600, 4096, 65535, 65536, 65537, 70000];
    fw::par_items(&lens, |ti, len| {
        let path = scratch().join(format!("rep_{}_{}.hex", ti, len));
        let mut shared = BuildResult { code: vec![], eeprom: vec![], flash_size: 4194304, eeprom_size: 65536, ram_size: 8388608, ram_filling: 0, messages: vec![] };
        for round in 0..6u64 {
            let code = image(*len, ctx.seed ^ (round << 32) ^ *len as u64);
            let eep = image((*len).min(65536), !ctx.seed ^ (round << 40) ^ *len as u64);
            // rounds 0,1 and 4: the same object patched in place (twice in a row, so that even a
            // one-entry memory of "the last image" is hit); rounds 2,3,5: a fresh object each
            let fresh;
            let br: &BuildResult = if round < 2 || round == 4 {
                shared.code = code.clone();
                shared.eeprom = eep.clone();
                &shared
            } else {
                fresh = BuildResult { code: code.clone(), eeprom: eep.clone(), flash_size: 4194304, eeprom_size: 65536, ram_size: 8388608, ram_filling: 0, messages: vec![] };
                &fresh
            };
            for which in [Which::Code, Which::Eeprom] {
                let img = if which == Which::Code { &code } else { &eep };
                let p2 = path.clone();
                let res = fw::guarded(|| match which {
                    Which::Code => avra_lib::writer::write_code_hex(p2, br).map_err(|e| e.to_string()),
                    Which::Eeprom => avra_lib::writer::write_eeprom_hex(p2, br).map_err(|e| e.to_string()),
                });
                ctx.eval(1);
                ctx.count("repeated_same_length_writes", 1);
                let ok = match res {
                    Ok(Ok(())) => std::fs::read(&path).ok().and_then(|t| ihex::decode(&t).ok()).map(|d| ihex::compare(&d, img).is_ok()).unwrap_or(false),
                    _ => false,
                };
                if !ok {
                    let wname = if which == Which::Code { "code" } else { "eeprom" };
                    ctx.violation(
                        format!("hex/{}/repeated-same-length/{}", wname, if round < 2 || round == 4 { "object-patched-in-place" } else { "fresh-object" }),
                        format!("write #{} of a {}-byte {} image (same length as the writes before it, other contents) does not decode to that image", round + 1, img.len(), wname),
                        json!({"repeated": true, "writer": wname, "len": len, "round": round}),
                    );
                    return;
                }
            }
        }
        let _ = std::fs::remove_file(&path);
    });
}

/// One output path written again and again with images that shrink and grow: the file holds the last image and
/// nothing of the ones before it.
fn shrinking_rewrites(ctx: &Ctx) {
    for (k, which) in [Which::Code, Which::Eeprom].into_iter().enumerate() {
        let path = scratch().join(format!("shrink_{}.hex", k));
        let seq: [usize; 12] = [5000, 100, 0, 3000, 16, 70000, 1, 65536, 17, 0, 600, 15];
        for (round, len) in seq.iter().enumerate() {
            let len = if which == Which::Eeprom { (*len).min(65536) } else { *len };
            let img = image(len, ctx.seed ^ 0x5A71 ^ (round as u64) << 20);
            let br = BuildResult { code: if which == Which::Code { img.clone() } else { vec![] }, eeprom: if which == Which::Eeprom { img.clone() } else { vec![] }, flash_size: 4194304, eeprom_size: 65536, ram_size: 8388608, ram_filling: 0, messages: vec![] };
            let p2 = path.clone();
            let res = fw::guarded(|| match which {
                Which::Code => avra_lib::writer::write_code_hex(p2, &br).map_err(|e| e.to_string()),
                Which::Eeprom => avra_lib::writer::write_eeprom_hex(p2, &br).map_err(|e| e.to_string()),
            });
            ctx.eval(1);
            ctx.count("rewrites_of_one_path_with_other_lengths", 1);
            ctx.distinct(fw::mix64(0x5A71 + k as u64, round as u64));
            let ok = match res {
                Ok(Ok(())) => std::fs::read(&path).ok().and_then(|t| ihex::decode(&t).ok()).map(|d| ihex::compare(&d, &img).is_ok()).unwrap_or(false),
                _ => false,
            };
            if !ok {
                let wname = if which == Which::Code { "code" } else { "eeprom" };
                ctx.violation(
                    format!("hex/{}/rewrite-of-one-path/{}", wname, if round > 0 && len < seq[round - 1] { "shorter-than-before" } else { "longer-than-before" }),
                    format!("write #{} to one path: a {}-byte {} image over a file that held {} bytes of image does not decode to the new image", round + 1, len, wname, if round > 0 { seq[round - 1] } else { 0 }),
                    json!({"shrinking": true, "writer": wname, "len": len, "round": round}),
                );
                break;
            }
        }
        let _ = std::fs::remove_file(&path);
    }
}

fn lengths(ctx: &Ctx) -> (Vec<usize>, Vec<usize>, usize) {
    let max_flash_words = devices::table().iter().map(|(_, d)| d.flash_size).max().unwrap_or(131072) as usize;
    let max_flash = max_flash_words * 2;
    let mut code: Vec<usize> = (0..=600).collect();
    let mut k = 1;
    while k * 65536 <= max_flash + 65536 {
        for d in -20i64..=20 {
            let l = k as i64 * 65536 + d;
            if l >= 0 {
                code.push(l as usize);
            }
        }
        k += 1;
    }
    code.push(max_flash);
    // beyond the device table: around the 1 MiB limit of segment addressing and one image of 2 MiB + 5
    for l in [(1usize << 20) - 1, 1 << 20, (1 << 20) + 1, (1 << 20) + 17, (1 << 20) + 65536 + 3, (2 << 20) + 5] {
        code.push(l);
    }
    let mut eep: Vec<usize> = (0..=600).collect();
    for d in -20i64..=20 {
        eep.push((65536 + d) as usize);
    }
    if ctx.tier == Tier::Thorough {
        let mut rng = fw::Rng::for_case(ctx.seed, 0xC07, 0);
        for l in 0..4096 {
            if l % 16 == 0 || l % 16 == 1 || l % 16 == 15 {
                code.push(l);
                eep.push(l);
            }
        }
        for _ in 0..10000 {
            code.push(rng.usize(max_flash + 1));
        }
        for _ in 0..400 {
            eep.push(rng.usize(65536 + 1));
        }
        // beyond the table: the no-device default flash (8 MiB) and the 1 MiB segment-addressing limit
        for l in [1 << 20, (1 << 20) + 1, (1 << 20) - 1, (1 << 20) + 65536 + 5, 8 << 20, (8 << 20) - 3] {
            code.push(l);
        }
    }
    code.sort();
    code.dedup();
    eep.sort();
    eep.dedup();
    (code, eep, max_flash)
}

fn pipeline(ctx: &Ctx) {
    // through the whole pipeline: build_str of an .org-padded program, then the writers
    for (words, eebytes) in [(10usize, 5usize), (40000, 300), (70000, 0)] {
        let src = format!(".org {}\nldi r16, 0x5a\n.eseg\n.org {}\n.db 1,2,3\n", words, eebytes.max(1));
        let out = fw::build_str(&src);
        ctx.eval(1);
        if let Outcome::Ok(b) = out {
            for which in [Which::Code, Which::Eeprom] {
                let path = scratch().join(format!("pipe_{}_{:?}.hex", words, which));
                let (p2, b2) = (path.clone(), b.clone());
                let res = fw::guarded(move || match which {
                    Which::Code => avra_lib::writer::write_code_hex(p2, &b2).map_err(|e| e.to_string()),
                    Which::Eeprom => avra_lib::writer::write_eeprom_hex(p2, &b2).map_err(|e| e.to_string()),
                });
                let img = if which == Which::Code { &b.code } else { &b.eeprom };
                let wname = if which == Which::Code { "code" } else { "eeprom" };
                let replay = json!({"pipeline_source": src, "writer": wname});
                let ok = match res {
                    Ok(Ok(())) => std::fs::read(&path).ok().and_then(|t| ihex::decode(&t).ok()).map(|d| ihex::compare(&d, img).is_ok()).unwrap_or(false),
                    _ => false,
                };
                if !ok {
                    ctx.violation(format!("hex/{}/pipeline/{}", wname, if img.len() > 65536 { "len>65536" } else { "len<=65536" }), format!("image of {} bytes built from source does not round-trip through the {} writer", img.len(), wname), replay);
                }
                let _ = std::fs::remove_file(&path);
            }
        } else {
            ctx.inconclusive(format!("pipeline program did not build: {}", out.kind()));
        }
    }
    // every device of the table with both memories filled to the last byte: the images the assembler
    // produces for that part, written with the sizes it reports for that part
    let table = crate::refmodel::devices::table();
    fw::par_items(&table, |_, (name, dev)| {
        let mut src = format!(".device {}\n.org {}\n.dw 0x{:04x}\n", name, dev.flash_size - 1, fw::hash_str(name) as u16);
        if dev.eeprom_size > 0 {
            src.push_str(&format!(".eseg\n.db 1, 2\n.org {}\n.db 0x{:02x}\n", dev.eeprom_size - 1, fw::hash_str(name) as u8 | 1));
        }
        let out = fw::build_str(&src);
        ctx.eval(1);
        ctx.count("pipeline_devices", 1);
        ctx.distinct(fw::hash_str(&src));
        if let Outcome::Ok(b) = out {
            for which in [Which::Code, Which::Eeprom] {
                let path = scratch().join(format!("pipe_dev_{}_{:?}.hex", name, which));
                let (p2, b2) = (path.clone(), b.clone());
                let res = fw::guarded(move || match which {
                    Which::Code => avra_lib::writer::write_code_hex(p2, &b2).map_err(|e| e.to_string()),
                    Which::Eeprom => avra_lib::writer::write_eeprom_hex(p2, &b2).map_err(|e| e.to_string()),
                });
                let img = if which == Which::Code { &b.code } else { &b.eeprom };
                let wname = if which == Which::Code { "code" } else { "eeprom" };
                let ok = match res {
                    Ok(Ok(())) => std::fs::read(&path).ok().and_then(|t| ihex::decode(&t).ok()).map(|d| ihex::compare(&d, img).is_ok()).unwrap_or(false),
                    _ => false,
                };
                if !ok {
                    ctx.violation(format!("hex/{}/pipeline-device-full/{}", wname, if img.len() > 65536 { "len>65536" } else { "len<=65536" }), format!("{}: the full {} image ({} bytes) does not round-trip through the writer", name, wname, img.len()), json!({"pipeline_source": src, "writer": wname}));
                }
                let _ = std::fs::remove_file(&path);
            }
        } else {
            ctx.inconclusive(format!("pipeline program for {} did not build: {}", name, out.kind()));
        }
    });
}

pub fn run(ctx: &Ctx) -> i32 {
    match ihex::selfcheck() {
        Ok(n) => ctx.put("ihex_reader_selfcheck_files", json!(n)),
        Err(e) => {
            println!("HARNESS-FAILURE property=C07 {}", e);
            return 2;
        }
    }
    let (code, eep, max_flash) = lengths(ctx);
    ctx.put("largest_flash_bytes_in_table", json!(max_flash));
    ctx.put("code_lengths", json!(code.len()));
    ctx.put("eeprom_lengths", json!(eep.len()));
    let mut work: Vec<(Which, usize)> = code.iter().map(|l| (Which::Code, *l)).collect();
    work.extend(eep.iter().map(|l| (Which::Eeprom, *l)));
    for (w, l) in &work {
        ctx.distinct(fw::mix64(*l as u64, *w as u64));
    }
    work.sort_by_key(|(_, l)| std::cmp::Reverse(*l));
    fw::par_for(work.len() as u64, 4, |i| {
        let (w, l) = work[i as usize];
        check(ctx, w, l, i);
    });
    pipeline(ctx);
    repeated_same_length(ctx);
    shrinking_rewrites(ctx);
    ctx.exhaustive.store(true, std::sync::atomic::Ordering::Relaxed);
    let _ = std::fs::remove_dir_all(scratch());
    fw::finish(
        ctx,
        "write_code_hex and write_eeprom_hex called on synthetic BuildResults: every length 0..600 and every length within ±20 of each multiple of 64 KiB up to the largest flash in DEVICES and around 1 MiB / 2 MiB (EEPROM writer: up to 64 KiB) with position-dependent contents (thorough: + lengths ≡ 0,1,15 mod 16 below 4096, 10000 random lengths, 1 MiB and 8 MiB images, full pipeline); plus 15 lengths written six times each with different contents through one BuildResult patched in place and through fresh objects, code and EEPROM writer alternating; one path per writer rewritten 12 times with images that shrink and grow (5000, 100, 0, 3000, 16, 70000, 1, ... bytes); distinct_nontrivial = distinct (writer, length) pairs",
        &["refmodel/ihex.rs strict reader (self-tested on hand-made good and bad files)"],
    )
}

pub fn replay(ctx: &Ctx, case: &Value) -> i32 {
    if case["shrinking"].as_bool() == Some(true) {
        shrinking_rewrites(ctx);
    } else if case["repeated"].as_bool() == Some(true) {
        repeated_same_length(ctx);
    } else if let Some(src) = case["pipeline_source"].as_str() {
        let _ = src;
        pipeline(ctx);
    } else {
        let which = if case["writer"].as_str() == Some("eeprom") { Which::Eeprom } else { Which::Code };
        check(ctx, which, case["len"].as_u64().unwrap_or(0) as usize, 0);
    }
    ctx.distinct(1);
    ctx.distinct(2);
    let _ = std::fs::remove_dir_all(scratch());
    fw::finish(ctx, "replay", &[])
}
