//! Sanitizer / interpreter legs (thorough tier): valgrind memcheck on the optimized worker and
//! Miri on a small fixed workload. A clean leg means "no report on N executions", not memory safety.

use crate::fw::Ctx;
use serde_json::json;

pub fn memcheck_leg(ctx: &Ctx) {
    ctx.put("memcheck_leg", json!("not built yet"));
}

pub fn miri_leg(ctx: &Ctx, which: &str) {
    ctx.put(&format!("miri_leg_{}", which), json!("not built yet"));
}
