//! C10 — symbols resolve by the documented binding rules or the build fails.
//!
//! Valid programs defining and using labels, .equ, .set and .def names in independently random
//! letter case (forward and backward references, .set chains, .def/.undef/.def sequences) are
//! compared with the reference resolution; every program is then mutated one symbol at a time:
//! delete a referenced definition, duplicate a label, use an alias after .undef (each must fail),
//! replace every alias by its register (identical image). The LOOKUP hook shows which table
//! answered each reference.

use crate::fw::{self, Ctx, Outcome, Rng};
use crate::gen::ir::{self, DataOp, Names, Node, Opnd, Seg};
use crate::gen::spell;
use crate::refmodel::expr::{Bin, E};
use crate::refmodel::layout::{self, RefErr};
use avra_lib::verif::{self, Event};
use serde_json::{json, Value};
use std::collections::BTreeMap;

#[derive(Clone, Debug)]
struct Sym {
    name: String,
    kind: &'static str, // label-code, label-data, label-eeprom, equ, set, def
    /// index of the defining node(s) in the node list
    def_nodes: Vec<usize>,
    /// directly used by an instruction or data item
    used: bool,
}

pub struct Prog {
    pub nodes: Vec<Node>,
    syms: Vec<Sym>,
    /// (alias, reg, index of .def node, index of .undef node if any)
    aliases: Vec<(String, u8, usize, Option<usize>)>,
}

fn cs(name: &str, rng: &mut Rng) -> String {
    spell::case(name, rng)
}

pub fn gen(rng: &mut Rng) -> Prog {
    let mut names = Names::new();
    let mut nodes: Vec<Node> = vec![Node::Comment("C10 symbol program".into())];
    let mut syms: Vec<Sym> = vec![];
    let mut aliases: Vec<(String, u8, usize, Option<usize>)> = vec![];
    let mut late: Vec<(usize, Node)> = vec![]; // (symbol index, defining node) emitted at the end
    let mut live_alias: Vec<usize> = vec![]; // indices into aliases
    let mut set_live: Vec<usize> = vec![]; // symbol indices of .set vars assigned so far
    let mut exprsyms: Vec<usize> = vec![]; // symbols usable in expressions right now (or late-defined)
    let mut equ_order: Vec<usize> = vec![];
    let mut seg = Seg::Code;
    let n_steps = 5 + rng.usize(36);
    let mut marker = 0i64;
    // one program in three selects a part (one with every pointer register, jmp/call and 4 KiB of RAM and EEPROM)
    let with_device = rng.chance(1, 3);
    if with_device {
        nodes.push(Node::Device("ATmega128".into()));
    }
    // next explicit origin in .dseg / .eseg (far enough apart that no piece reaches the next)
    let mut org_next: [i64; 2] = [0x200, 0x100];
    let mut well_known: Vec<&str> = vec!["xl", "xh", "yl", "yh", "zl", "zh"];
    let mut part_names: Vec<&str> = vec!["ramend", "flashend", "sram_start", "sram_size", "e2end", "eepromend", "xramend", "pagesize", "int_vectors_size", "signature_000", "iostart", "ioend"];
    // one program in three begins with symbol lines that read the location counter, then moves on with `.org`:
    // a `.set` takes the position its line stands at, whatever origin follows
    if rng.chance(1, 3) {
        let name = names.fresh("sv", rng);
        syms.push(Sym { name: name.clone(), kind: "set", def_nodes: vec![nodes.len()], used: false });
        nodes.push(Node::Set(cs(&name, rng), if rng.chance(1, 2) { E::Pc } else { E::bin(Bin::Add, E::Pc, E::Lit(rng.range(1, 9), 0)) }));
        set_live.push(syms.len() - 1);
        exprsyms.push(syms.len() - 1);
        if rng.chance(1, 2) {
            let a = names.fresh("al", rng);
            let reg = rng.below(32) as u8;
            aliases.push((a.clone(), reg, nodes.len(), None));
            live_alias.push(aliases.len() - 1);
            syms.push(Sym { name: a.clone(), kind: "def", def_nodes: vec![nodes.len()], used: false });
            nodes.push(Node::Def(cs(&a, rng), reg));
        }
        nodes.push(Node::Org(E::Lit(rng.range(2, 40), 1)));
        // and once more behind a first instruction: `.org A` / symbol lines / `.org B`
        if rng.chance(1, 2) {
            nodes.push(Node::instr("nop", vec![]));
            nodes.push(Node::Org(E::Lit(0x50, 1)));
            let name = names.fresh("sv", rng);
            syms.push(Sym { name: name.clone(), kind: "set", def_nodes: vec![nodes.len()], used: false });
            nodes.push(Node::Set(cs(&name, rng), E::Pc));
            set_live.push(syms.len() - 1);
            exprsyms.push(syms.len() - 1);
            nodes.push(Node::Org(E::Lit(0x60 + rng.range(0, 8), 1)));
        }
    }
    for _ in 0..n_steps {
        match rng.below(17) {
            16 => {
                // a piece with an origin of its own that (at first) holds nothing but symbol directives
                let k = rng.usize(2);
                if org_next[k] > 0xf00 {
                    continue;
                }
                seg = if k == 0 { Seg::Data } else { Seg::Eeprom };
                nodes.push(Node::Seg(seg));
                nodes.push(Node::Org(E::Lit(org_next[k], 1)));
                org_next[k] += 0x100;
                for _ in 0..1 + rng.below(3) {
                    match rng.below(3) {
                        0 if !set_live.is_empty() => {
                            let si = *rng.pick(&set_live);
                            let nm = syms[si].name.clone();
                            syms[si].def_nodes.push(nodes.len());
                            nodes.push(Node::Set(cs(&nm, rng), E::Lit(rng.range(0, 60000), 0)));
                        }
                        1 if !live_alias.is_empty() => {
                            let k = rng.usize(live_alias.len());
                            let ai = live_alias.remove(k);
                            aliases[ai].3 = Some(nodes.len());
                            let nm = aliases[ai].0.clone();
                            nodes.push(Node::Undef(cs(&nm, rng)));
                        }
                        _ => {
                            let name = names.fresh("al", rng);
                            let reg = rng.below(32) as u8;
                            aliases.push((name.clone(), reg, nodes.len(), None));
                            live_alias.push(aliases.len() - 1);
                            syms.push(Sym { name: name.clone(), kind: "def", def_nodes: vec![nodes.len()], used: false });
                            nodes.push(Node::Def(cs(&name, rng), reg));
                        }
                    }
                }
            }
            // ---- definitions
            0 | 1 => {
                // code label (early); under a selected part now and then a name the part files use for their figures
                let name = if with_device && !part_names.is_empty() && rng.chance(1, 4) { part_names.remove(rng.usize(part_names.len())).to_string() } else { names.fresh("lbl", rng) };
                if seg != Seg::Code {
                    seg = Seg::Code;
                    nodes.push(Node::Seg(seg));
                }
                syms.push(Sym { name: cs(&name, rng), kind: "label-code", def_nodes: vec![nodes.len()], used: false });
                exprsyms.push(syms.len() - 1);
                if rng.chance(1, 2) {
                    nodes.push(Node::Label(syms.last().unwrap().name.clone()));
                } else {
                    nodes.push(Node::Instr { label: Some(syms.last().unwrap().name.clone()), form: crate::refmodel::isa::form_index("nop"), ops: vec![] });
                }
            }
            2 => {
                // data or eeprom label with a reservation
                let name = names.fresh("var", rng);
                let s = if rng.chance(2, 3) { Seg::Data } else { Seg::Eeprom };
                if seg != s {
                    seg = s;
                    nodes.push(Node::Seg(seg));
                }
                syms.push(Sym { name: cs(&name, rng), kind: if s == Seg::Data { "label-data" } else { "label-eeprom" }, def_nodes: vec![nodes.len()], used: false });
                exprsyms.push(syms.len() - 1);
                nodes.push(Node::Reserve { label: Some(syms.last().unwrap().name.clone()), n: E::Lit(1 + rng.below(4) as i64, 0) });
            }
            3 | 4 => {
                // .equ, early or late (forward reference), may chain to earlier-created equs / labels
                let name = names.fresh("eq", rng);
                let e = if !equ_order.is_empty() && rng.chance(1, 2) {
                    let dep = *rng.pick(&equ_order);
                    E::bin(*rng.pick(&[Bin::Add, Bin::Xor, Bin::Or]), E::Sym(cs(&syms[dep].name, rng)), E::Lit(rng.range(1, 50), 0))
                } else {
                    E::Lit(rng.range(0, 60000), rng.below(3) as u8)
                };
                let node = Node::Equ(cs(&name, rng), e);
                let idx = syms.len();
                if rng.chance(1, 3) {
                    syms.push(Sym { name: name.clone(), kind: "equ", def_nodes: vec![], used: false });
                    late.push((idx, node));
                } else {
                    syms.push(Sym { name: name.clone(), kind: "equ", def_nodes: vec![nodes.len()], used: false });
                    nodes.push(node);
                }
                equ_order.push(idx);
                exprsyms.push(idx);
            }
            5 | 6 => {
                // .set: new variable or reassignment of a live one (possibly from its own value)
                if !set_live.is_empty() && rng.chance(1, 2) {
                    let si = *rng.pick(&set_live);
                    let nm = syms[si].name.clone();
                    let e = if rng.chance(1, 2) { E::bin(Bin::Add, E::Sym(cs(&nm, rng)), E::Lit(rng.range(1, 9), 0)) } else { E::Lit(rng.range(0, 60000), 0) };
                    syms[si].def_nodes.push(nodes.len());
                    nodes.push(Node::Set(cs(&nm, rng), e));
                } else {
                    let name = names.fresh("sv", rng);
                    syms.push(Sym { name: name.clone(), kind: "set", def_nodes: vec![nodes.len()], used: false });
                    nodes.push(Node::Set(cs(&name, rng), E::Lit(rng.range(0, 60000), 0)));
                    set_live.push(syms.len() - 1);
                    exprsyms.push(syms.len() - 1);
                }
            }
            7 => {
                // .def (new alias, or re-alias after an .undef)
                // (now and then one of the names part definition files give to the pointer register halves -
                // here they are ordinary aliases of whatever register the program says)
                let name = if !well_known.is_empty() && rng.chance(1, 4) { well_known.remove(rng.usize(well_known.len())).to_string() } else { names.fresh("al", rng) };
                let reg = rng.below(32) as u8;
                aliases.push((name.clone(), reg, nodes.len(), None));
                live_alias.push(aliases.len() - 1);
                syms.push(Sym { name: name.clone(), kind: "def", def_nodes: vec![nodes.len()], used: false });
                nodes.push(Node::Def(cs(&name, rng), reg));
            }
            8 => {
                // .undef, sometimes followed by a new .def of the same name on another register
                if !live_alias.is_empty() {
                    let k = rng.usize(live_alias.len());
                    let ai = live_alias.remove(k);
                    aliases[ai].3 = Some(nodes.len());
                    let nm = aliases[ai].0.clone();
                    nodes.push(Node::Undef(cs(&nm, rng)));
                    if rng.chance(1, 2) {
                        let reg = rng.below(32) as u8;
                        aliases.push((nm.clone(), reg, nodes.len(), None));
                        live_alias.push(aliases.len() - 1);
                        nodes.push(Node::Def(cs(&nm, rng), reg));
                    }
                }
            }
            // ---- uses
            _ => {
                if seg != Seg::Code {
                    seg = Seg::Code;
                    nodes.push(Node::Seg(seg));
                }
                marker += 1;
                let choice = rng.below(8);
                if choice < 3 && !live_alias.is_empty() {
                    let ai = *rng.pick(&live_alias);
                    let (nm, reg, _, _) = aliases[ai].clone();
                    if let Some(s) = syms.iter_mut().find(|s| s.kind == "def" && s.name == nm) {
                        s.used = true;
                    }
                    let a = Opnd::Alias(cs(&nm, rng));
                    match rng.below(3) {
                        0 => nodes.push(Node::instr("mov", vec![a, Opnd::Reg(rng.below(32) as u8)])),
                        1 => nodes.push(Node::instr("inc", vec![a])),
                        _ => {
                            if reg >= 16 {
                                nodes.push(Node::instr("ldi", vec![a, Opnd::Expr(E::Lit(marker % 256, 0))]));
                            } else {
                                nodes.push(Node::instr("mov", vec![Opnd::Reg(rng.below(32) as u8), a]));
                            }
                        }
                    }
                } else if !exprsyms.is_empty() {
                    let si = *rng.pick(&exprsyms);
                    // late-defined .set does not exist; every exprsym is usable here
                    syms[si].used = true;
                    let s = E::Sym(cs(&syms[si].name, rng));
                    match (rng.below(6), syms[si].kind) {
                        (0, _) => nodes.push(Node::instr("ldi", vec![Opnd::Reg(16 + rng.below(16) as u8), Opnd::Expr(E::Func("low", Box::new(s)))])),
                        (1, _) => nodes.push(Node::instr("ldi", vec![Opnd::Reg(16 + rng.below(16) as u8), Opnd::Expr(E::Func("high", Box::new(s)))])),
                        (2, "label-data") => nodes.push(Node::instr("lds", vec![Opnd::Reg(rng.below(32) as u8), Opnd::Expr(s)])),
                        (2, "label-code") | (3, "label-code") => nodes.push(Node::instr(*rng.pick(&["rjmp", "rcall", "jmp", "call"]), vec![Opnd::Expr(s)])),
                        (3, "label-data") => nodes.push(Node::instr("sts", vec![Opnd::Expr(s), Opnd::Reg(rng.below(32) as u8)])),
                        // any number may stand for a data address: the position of an EEPROM label, a constant
                        (2, "label-eeprom") => nodes.push(Node::instr("lds", vec![Opnd::Reg(rng.below(32) as u8), Opnd::Expr(s)])),
                        (3, "label-eeprom") => nodes.push(Node::instr("sts", vec![Opnd::Expr(s), Opnd::Reg(rng.below(32) as u8)])),
                        (5, "equ") => nodes.push(Node::instr("lds", vec![Opnd::Reg(rng.below(32) as u8), Opnd::Expr(E::bin(Bin::And, s, E::Lit(0xffff, 1)))])),
                        (5, "set") => nodes.push(Node::instr("sts", vec![Opnd::Expr(E::bin(Bin::And, s, E::Lit(0xffff, 1))), Opnd::Reg(rng.below(32) as u8)])),
                        (4, _) => nodes.push(Node::Data { label: None, width: 4, ops: vec![DataOp::E(s), DataOp::E(E::Lit(marker, 0))] }),
                        _ => nodes.push(Node::Data { label: None, width: 2, ops: vec![DataOp::E(E::Func("lwrd", Box::new(s)))] }),
                    }
                } else {
                    nodes.push(Node::Data { label: None, width: 2, ops: vec![DataOp::E(E::Lit(0x3000 + marker, 1))] });
                }
            }
        }
    }
    // every segment that was given an origin gets something placed in the end, without an origin of its own: the
    // lines then land behind whatever the last origin piece of that segment holds (an origin behind which
    // nothing at all is ever placed is left out: whether the image reaches up to it is not stated anywhere)
    if org_next[0] > 0x200 {
        nodes.push(Node::Seg(Seg::Data));
        nodes.push(Node::Reserve { label: None, n: E::Lit(1, 0) });
        seg = Seg::Data;
    }
    if org_next[1] > 0x100 {
        nodes.push(Node::Seg(Seg::Eeprom));
        nodes.push(Node::Data { label: None, width: 1, ops: vec![DataOp::E(E::Lit(0xa5, 1))] });
        seg = Seg::Eeprom;
    }
    // late definitions (forward-referenced .equ) and a late code label that earlier code may already have used
    if seg != Seg::Code {
        nodes.push(Node::Seg(Seg::Code));
    }
    for (si, node) in late {
        syms[si].def_nodes.push(nodes.len());
        nodes.push(node);
    }
    nodes.push(Node::instr("nop", vec![]));
    Prog { nodes, syms, aliases }
}

fn lookup_histogram(events: &[Event]) -> BTreeMap<String, u64> {
    let mut m = BTreeMap::new();
    for e in events {
        if let Event::Lookup { table, .. } = e {
            let n = match table {
                0 => "lookup:none",
                1 => "lookup:define",
                2 => "lookup:equ",
                3 => "lookup:set",
                4 => "lookup:special(pc)",
                5 => "lookup:label",
                6 => "lookup:def-alias",
                _ => "lookup:?",
            };
            *m.entry(n.to_string()).or_insert(0) += 1;
        }
    }
    m
}

fn check_valid(ctx: &Ctx, nodes: &[Node], what: &str) -> bool {
    let src = ir::print_canonical(nodes);
    let reference = layout::assemble(&layout::single(nodes.to_vec()));
    fw::hook_enable(verif::LOOKUP);
    let _ = verif::take();
    let out = fw::build_str(&src);
    let events = verif::take();
    fw::hook_enable(0);
    ctx.eval(1);
    ctx.merge_counts(&lookup_histogram(&events));
    let replay = |d: Value| json!({"source": src, "kind": what, "detail": d, "observed": out.brief()});
    match (&reference, &out) {
        (Err(RefErr::Indeterminate(_)), _) => {
            ctx.count("reference_undecided", 1);
            false
        }
        (Err(RefErr::Fail(f)), _) => {
            ctx.inconclusive(format!("generator produced an invalid symbol program ({}): {:?} at line {}", what, f.kind, f.line));
            false
        }
        (Ok(_), Outcome::Panic(p)) => {
            ctx.violation(format!("sym/{}/panic", what), fw::clip(p, 140), replay(json!(null)));
            false
        }
        (Ok(_), Outcome::Err(e)) => {
            ctx.violation(format!("sym/{}/valid-program-rejected", what), format!("valid program rejected: {}", fw::clip(e, 160)), replay(json!(null)));
            false
        }
        (Ok(r), Outcome::Ok(b)) => {
            if b.code != r.code || b.eeprom != r.eeprom || b.ram_filling != r.ram_filling {
                ctx.violation(format!("sym/{}/wrong-resolution", what), format!("code {} vs reference {}", fw::hex(&b.code, 64), fw::hex(&r.code, 64)), replay(json!({"expect_code": fw::hex(&r.code, 4096), "expect_eeprom": fw::hex(&r.eeprom, 512)})));
                false
            } else {
                ctx.count("valid_programs_compared", 1);
                if what == "base" {
                    crate::props::variants::check_one(ctx, nodes, b, &mut Rng::for_case(fw::hash_str(&src), 0x7A80, 0), "sym");
                }
                true
            }
        }
    }
}

fn check_must_fail(ctx: &Ctx, nodes: &[Node], what: &str, detail: &str) {
    let src = ir::print_canonical(nodes);
    let reference = layout::assemble(&layout::single(nodes.to_vec()));
    match reference {
        Err(RefErr::Fail(_)) => {}
        _ => {
            // the mutation did not make the program invalid by the reference's rules (e.g. symbol not really needed)
            ctx.count("mutants_not_invalid_by_reference_skipped", 1);
            return;
        }
    }
    let out = fw::build_str(&src);
    ctx.eval(1);
    ctx.count(&format!("mutants:{}", what), 1);
    match &out {
        Outcome::Ok(b) => ctx.violation(
            format!("sym/mutant/{}/accepted", what),
            format!("{}: program still builds ({} bytes of code)", detail, b.code.len()),
            json!({"source": src, "kind": what, "mutation": detail, "must_fail": true, "observed": out.brief()}),
        ),
        Outcome::Panic(p) => ctx.violation(format!("sym/mutant/{}/panic", what), format!("{}: {}", detail, fw::clip(p, 120)), json!({"source": src, "kind": what, "mutation": detail, "must_fail": true, "observed": out.brief()})),
        Outcome::Err(_) => {}
    }
}

fn strip_label(n: &Node) -> Option<Node> {
    match n {
        Node::Label(_) => Some(Node::Blank),
        Node::Instr { label: Some(_), form, ops } => Some(Node::Instr { label: None, form: *form, ops: ops.clone() }),
        Node::Reserve { label: Some(_), n } => Some(Node::Reserve { label: None, n: n.clone() }),
        Node::Data { label: Some(_), width, ops } => Some(Node::Data { label: None, width: *width, ops: ops.clone() }),
        _ => None,
    }
}

fn replace_aliases(nodes: &[Node], aliases: &[(String, u8, usize, Option<usize>)]) -> Vec<Node> {
    // an alias use at node index i refers to the .def that is live at i
    nodes
        .iter()
        .enumerate()
        .map(|(i, n)| match n {
            Node::Instr { label, form, ops } => Node::Instr {
                label: label.clone(),
                form: *form,
                ops: ops
                    .iter()
                    .map(|o| match o {
                        Opnd::Alias(a) => {
                            let live = aliases.iter().find(|(nm, _, d, u)| nm.eq_ignore_ascii_case(a) && *d < i && u.map(|u| i < u).unwrap_or(true));
                            match live {
                                Some((_, r, _, _)) => Opnd::Reg(*r),
                                None => o.clone(),
                            }
                        }
                        other => other.clone(),
                    })
                    .collect(),
            },
            other => other.clone(),
        })
        .collect()
}

pub fn check_program(ctx: &Ctx, p: &Prog, rng: &mut Rng, all_mutants: bool) {
    if !check_valid(ctx, &p.nodes, "base") {
        return;
    }
    // (4) aliases replaced by registers: identical image
    let plain = replace_aliases(&p.nodes, &p.aliases);
    if plain != p.nodes {
        let a = fw::build_str(&ir::print_canonical(&p.nodes));
        let b = fw::build_str(&ir::print_canonical(&plain));
        ctx.eval(1);
        ctx.count("mutants:alias-replaced-by-register", 1);
        let same = match (&a, &b) {
            (Outcome::Ok(x), Outcome::Ok(y)) => x.code == y.code && x.eeprom == y.eeprom,
            _ => false,
        };
        if !same {
            ctx.violation("sym/alias-vs-register", "program differs when every alias is replaced by its register", json!({"source": ir::print_canonical(&p.nodes), "plain": ir::print_canonical(&plain), "kind": "alias-vs-register"}));
        }
    }
    // (1) delete one referenced definition
    let used: Vec<&Sym> = p.syms.iter().filter(|s| s.used && !s.def_nodes.is_empty()).collect();
    let picks: Vec<&Sym> = if all_mutants { used.clone() } else { used.iter().filter(|_| rng.chance(1, 2)).cloned().collect() };
    for s in picks {
        let di = s.def_nodes[0];
        let mut m = p.nodes.clone();
        m[di] = match s.kind {
            "equ" | "set" | "def" => Node::Blank,
            _ => match strip_label(&p.nodes[di]) {
                Some(x) => x,
                None => continue,
            },
        };
        check_must_fail(ctx, &m, &format!("delete-{}", s.kind), &format!("definition of `{}` deleted", s.name));
    }
    // (2) duplicate one label (in another letter case, at another place)
    let labels: Vec<&Sym> = p.syms.iter().filter(|s| s.kind.starts_with("label")).collect();
    for s in labels.iter() {
        if !all_mutants && !rng.chance(1, 2) {
            continue;
        }
        let mut m = p.nodes.clone();
        // a second definition in the code segment at the end of the program
        m.push(Node::Instr { label: Some(spell::case(&s.name, rng)), form: crate::refmodel::isa::form_index("nop"), ops: vec![] });
        check_must_fail(ctx, &m, "duplicate-label", &format!("label `{}` defined twice", s.name));
    }
    // (2b) a name defined twice by .equ with another value, or by .equ and a label: no unique definition
    for s in p.syms.iter().filter(|s| s.kind == "equ" || s.kind.starts_with("label")) {
        if !all_mutants && !rng.chance(1, 2) {
            continue;
        }
        let mut m = p.nodes.clone();
        m.push(Node::Seg(Seg::Code));
        m.push(Node::Equ(spell::case(&s.name, rng), E::Lit(0x5a5a, 1)));
        m.push(Node::Data { label: None, width: 2, ops: vec![DataOp::E(E::Sym(spell::case(&s.name, rng)))] });
        check_must_fail(ctx, &m, if s.kind == "equ" { "duplicate-equ" } else { "equ-with-the-name-of-a-label" }, &format!("`{}` defined a second time by .equ", s.name));
        if s.kind == "equ" {
            let mut m = p.nodes.clone();
            m.push(Node::Seg(Seg::Code));
            m.push(Node::Instr { label: Some(spell::case(&s.name, rng)), form: crate::refmodel::isa::form_index("nop"), ops: vec![] });
            m.push(Node::Data { label: None, width: 2, ops: vec![DataOp::E(E::Sym(spell::case(&s.name, rng)))] });
            check_must_fail(ctx, &m, "label-with-the-name-of-an-equ", &format!("`{}` defined by .equ and as a label", s.name));
        }
    }
    // (2d) the name is also a #define (first thing in the program, or after everything else), in another
    // letter case: two definitions of one name, and the #define would silently win wherever it is used
    for s in used.iter() {
        if !all_mutants && !rng.chance(1, 2) {
            continue;
        }
        let at_top = rng.chance(1, 2);
        let mut m = p.nodes.clone();
        let other_case = if s.name.chars().any(|c| c.is_ascii_lowercase()) { s.name.to_uppercase() } else { s.name.to_lowercase() };
        let spelled = if rng.chance(1, 2) { other_case } else { s.name.clone() };
        if at_top {
            let at = m.iter().take(3).position(|n| matches!(n, Node::Device(_))).map(|i| i + 1).unwrap_or(1);
            m.insert(at, Node::Define(spelled.clone()));
        } else {
            m.push(Node::Define(spelled.clone()));
        }
        m.push(Node::Seg(Seg::Code));
        if s.kind == "def" {
            m.push(Node::Def(s.name.clone(), 7));
            m.push(Node::instr("inc", vec![Opnd::Alias(s.name.clone())]));
        } else {
            m.push(Node::Data { label: None, width: 2, ops: vec![DataOp::E(E::Sym(spelled))] });
        }
        check_must_fail(ctx, &m, &format!("{}-with-the-name-of-a-define{}", s.kind, if at_top { "" } else { "-made-later" }), &format!("`{}` is also a #define", s.name));
    }
    // (2e) names that are taken from the start: the location counter, the registers
    {
        let pc = *rng.pick(&["pc", "PC", "Pc"]);
        let mut m = p.nodes.clone();
        m.push(Node::Seg(Seg::Code));
        m.push(Node::Instr { label: Some(pc.into()), form: crate::refmodel::isa::form_index("nop"), ops: vec![] });
        m.push(Node::Data { label: None, width: 2, ops: vec![DataOp::E(E::Sym(pc.into()))] });
        check_must_fail(ctx, &m, "label-named-pc", "a label named pc");
        let mut m = p.nodes.clone();
        m.insert(1 + m.iter().take(3).position(|n| matches!(n, Node::Device(_))).map(|i| i + 1).unwrap_or(0), Node::Equ(pc.into(), E::Lit(7, 0)));
        m.push(Node::Seg(Seg::Code));
        m.push(Node::instr("rjmp", vec![Opnd::Expr(E::Sym(pc.into()))]));
        check_must_fail(ctx, &m, "equ-named-pc", "an .equ named pc");
        let mut m = p.nodes.clone();
        m.insert(1 + m.iter().take(3).position(|n| matches!(n, Node::Device(_))).map(|i| i + 1).unwrap_or(0), Node::Define(pc.into()));
        m.push(Node::Seg(Seg::Code));
        m.push(Node::instr("rjmp", vec![Opnd::Expr(E::Sym(pc.into()))]));
        check_must_fail(ctx, &m, "define-named-pc", "a #define named pc");
        let r = rng.below(32);
        let mut m = p.nodes.clone();
        m.push(Node::Seg(Seg::Code));
        m.push(Node::Def(format!("{}{}", if rng.chance(1, 2) { "r" } else { "R" }, r), ((r + 5) % 32) as u8));
        m.push(Node::instr("inc", vec![Opnd::Reg(r as u8)]));
        check_must_fail(ctx, &m, "alias-named-like-a-register", "a .def whose name is a register");
    }
    // (3b) `.undef` with two names ends both aliases
    {
        let live: Vec<&(String, u8, usize, Option<usize>)> = p.aliases.iter().filter(|a| a.3.is_none()).collect();
        if live.len() >= 2 {
            let (a, b) = (live[0], live[live.len() - 1]);
            let mut m = p.nodes.clone();
            m.push(Node::Seg(Seg::Code));
            m.push(Node::Undef(format!("{}, {}", spell::case(&a.0, rng), spell::case(&b.0, rng))));
            m.push(Node::instr("inc", vec![Opnd::Alias(b.0.clone())]));
            check_must_fail(ctx, &m, "alias-after-undef-of-two", &format!("alias `{}` used after `.undef {}, {}`", b.0, a.0, b.0));
        }
    }
    // (2c) a second .def of a live alias on another register, used afterwards: an error, or (the AVR
    // assembler manual lets a .def be redefined) the alias is rebound - never silently the old register
    for (nm, reg, d, undef) in p.aliases.iter() {
        if undef.is_some() || (!all_mutants && !rng.chance(1, 2)) {
            continue;
        }
        let _ = d;
        let other = (*reg + 7) % 32;
        let tail = |with_undef: bool| -> Vec<Node> {
            let mut m = p.nodes.clone();
            m.push(Node::Seg(Seg::Code));
            if with_undef {
                m.push(Node::Undef(nm.clone()));
            }
            m.push(Node::Def(nm.to_uppercase(), other));
            m.push(Node::instr("inc", vec![Opnd::Alias(nm.clone())]));
            m
        };
        let dup = fw::build_str(&ir::print_canonical(&tail(false)));
        let rebound = fw::build_str(&ir::print_canonical(&tail(true)));
        ctx.eval(1);
        ctx.count("mutants:second-def-of-live-alias", 1);
        let ok = match (&dup, &rebound) {
            (Outcome::Err(_), _) => true,
            (Outcome::Ok(a), Outcome::Ok(b)) => a.code == b.code,
            _ => false,
        };
        if !ok {
            ctx.violation("sym/mutant/second-def-of-live-alias/old-register-used", format!("`.def {} = r{}` while the alias is live on r{}: neither refused nor rebound", nm, other, reg), json!({"source": ir::print_canonical(&tail(false)), "kind": "second-def-of-live-alias", "mutation": "second .def", "must_fail": true, "observed": dup.brief()}));
        }
    }
    // (3) use an alias after its .undef
    for (nm, _, _, undef) in p.aliases.iter() {
        if let Some(u) = undef {
            let mut m = p.nodes.clone();
            // directly after the .undef (before a possible re-.def, which sits at u+1 and is pushed down)
            m.insert(u + 1, Node::instr("inc", vec![Opnd::Alias(spell::case(nm, rng))]));
            // the insertion is in the segment of the .undef line; make sure that is code
            let seg_at = m[..=*u].iter().rev().find_map(|n| if let Node::Seg(s) = n { Some(*s) } else { None }).unwrap_or(Seg::Code);
            if seg_at != Seg::Code {
                continue;
            }
            check_must_fail(ctx, &m, "alias-after-undef", &format!("alias `{}` used after .undef", nm));
        }
    }
    // names that exist only in text that is not assembled: a label in an unselected branch, labels in
    // front of the directives of a chain nested in it, a label behind `.exit`
    {
        let ghosts = ["ghost_plain", "ghost_on_nested_if", "ghost_on_nested_else", "ghost_on_nested_endif", "ghost_on_else_after_taken"];
        for (k, g) in ghosts.iter().enumerate() {
            if !all_mutants && !rng.chance(1, 2) {
                continue;
            }
            let mut m = p.nodes.clone();
            m.push(Node::Seg(Seg::Code));
            for l in [".if 0", "ghost_plain: nop", "ghost_on_nested_if: .if 1", "\tnop", "ghost_on_nested_else: .else", "\tnop", "ghost_on_nested_endif: .endif", ".endif", ".if 1", "\tnop", ".elif 1", "\tnop", "ghost_on_else_after_taken: .else", "\tnop", ".endif"] {
                m.push(Node::Raw(l.to_string()));
            }
            m.push(Node::Data { label: None, width: 2, ops: vec![DataOp::E(E::Sym(spell::case(g, rng)))] });
            let src = ir::print_canonical(&m);
            let out = fw::build_str(&src);
            ctx.eval(1);
            ctx.count("mutants:reference-to-a-name-in-unassembled-text", 1);
            if !out.is_err() {
                ctx.violation(format!("sym/mutant/name-in-unassembled-text/{}/accepted", ["plain", "nested-if-line", "nested-else-line", "nested-endif-line", "else-after-taken-branch"][k]), format!("`{}` stands only in text that is not assembled, yet the reference builds", g), json!({"source": src, "kind": "name-in-unassembled-text", "mutation": g, "must_fail": true, "observed": out.brief()}));
            }
        }
    }
    // an undefined name in an operand that cannot change the value is a reference to an undefined name
    // all the same: "no symbol ever silently evaluates to zero"
    {
        let x = "never_defined_anywhere";
        let shapes = ["0 && {x}", "1 || {x}", "{x} && 0", "{x} || 1", "0 * {x}", "{x} * 0", "{x} - {x}", "0 & {x}", "{x} ^ {x}", "(1 || {x}) + 1", "low(0 && {x})", "2 + (0 && ({x} + 1))", "!(1 || {x})", "0 && 0 && {x}", "1 && (1 || {x})", "{x} == {x}", "0 << {x}", "0 >> {x}"];
        let contexts = [("dw", ".dw {e}"), ("ldi", "ldi r16, {e}"), ("set", ".set dead_operand_probe = {e}"), ("if", ".if {e}\nnop\n.endif"), ("db", ".db {e}, 1")];
        for (si, shape) in shapes.iter().enumerate() {
            for (cn, c) in contexts.iter() {
                if !all_mutants && !rng.chance(1, 6) {
                    continue;
                }
                let e = shape.replace("{x}", &spell::case(x, rng));
                let mut m = p.nodes.clone();
                m.push(Node::Seg(Seg::Code));
                for l in c.replace("{e}", &e).split('\n') {
                    m.push(Node::Raw(l.to_string()));
                }
                let src = ir::print_canonical(&m);
                let out = fw::build_str(&src);
                ctx.eval(1);
                ctx.count("mutants:undefined-name-in-operand-that-cannot-change-the-value", 1);
                if !out.is_err() {
                    ctx.violation(format!("sym/mutant/undefined-in-dead-operand/{}/shape{}/accepted", cn, si), format!("`{}` names nothing that is defined, yet `{}` builds", x, c.replace("{e}", &e).replace('\n', " / ")), json!({"source": src, "kind": "undefined-in-dead-operand", "mutation": e, "must_fail": true, "observed": out.brief()}));
                }
            }
        }
    }
    // undefined name in each kind of use
    let mut m = p.nodes.clone();
    let pos = m.len();
    m.insert(pos, Node::Data { label: None, width: 2, ops: vec![DataOp::E(E::Sym("never_defined_anywhere".into()))] });
    check_must_fail(ctx, &m, "undefined-in-data", "reference to an undefined name in .dw");
    let mut m = p.nodes.clone();
    m.insert(pos, Node::instr("ldi", vec![Opnd::Reg(16), Opnd::Expr(E::Sym("never_defined_anywhere".into()))]));
    check_must_fail(ctx, &m, "undefined-in-instruction", "reference to an undefined name in ldi");
    let mut m = p.nodes.clone();
    m.insert(pos, Node::instr("inc", vec![Opnd::Alias("never_defined_alias".into())]));
    check_must_fail(ctx, &m, "undefined-alias", "undefined register alias");
}

pub fn run(ctx: &Ctx) -> i32 {
    let n = ctx.tier.pick(3_000u64, 300_000u64);
    fw::par_for(n, 16, |i| {
        let mut rng = Rng::for_case(ctx.seed, 0xC10, i);
        let p = gen(&mut rng);
        let text = ir::print_canonical(&p.nodes);
        ctx.distinct(fw::hash_str(&text));
        if i < 3 {
            ctx.sample(json!({"program": text.lines().collect::<Vec<_>>(), "symbols": p.syms.iter().map(|s| format!("{}:{}", s.kind, s.name)).collect::<Vec<_>>()}));
        }
        check_program(ctx, &p, &mut rng, true);
    });
    fw::finish(
        ctx,
        "programs of 5-40 steps defining and using code/data/EEPROM labels, .equ (chained, forward-defined), .set (reassignment chains incl. `v = v + k`) and .def/.undef/.def aliases, every definition and reference in independently random letter case, referenced from ldi low()/high(), lds/sts, rjmp/rcall/jmp/call and .dw/.dd; per program all single-symbol mutants: delete each referenced definition, duplicate each label, define each .equ a second time with another value, each label also by .equ and each .equ also as a label, redefine each live alias on another register (refused, or rebound - never the old register), use each alias after its .undef (also after an .undef that names two aliases), give each referenced name also to a #define (before everything else or after it, in the same or another letter case), a label and an .equ named pc, a .def named like a register, reference names that stand only in unassembled text (unselected branch, labels in front of the directives of a chain nested in it, `.else` after a taken branch), undefined names in data/instruction/alias position (all must fail), and every alias replaced by its register (identical image); counters lookup:* = LOOKUP hook events by answering table; every valid program once more in one randomly chosen setting that means nothing (as a file beginning with blank lines / CRLF / no final line end; a run of top-level lines in an included file; inside a selected branch; followed by .exit and unread text; preceded by unused definitions; respelled; branch and included file at once) with the same images, sizes, RAM extent and message texts required (props/variants.rs; counters variants:*); distinct_nontrivial = distinct base program texts",
        &["refmodel/layout.rs binding rules (labels and .equ global and lazy, .set sequential in source order, .def live from definition to .undef)", "a second .def of a live alias without .undef may be refused or rebind the alias (both documented behaviours); silently keeping the old register is a violation"],
    )
}

pub fn replay(ctx: &Ctx, case: &Value) -> i32 {
    if case.get("variant").is_some() {
        return crate::props::variants::replay(ctx, case);
    }
    let src = case["source"].as_str().unwrap_or("");
    let out = fw::build_str(src);
    ctx.eval(1);
    ctx.distinct(1);
    ctx.distinct(2);
    let still = if case["must_fail"].as_bool() == Some(true) {
        !out.is_err()
    } else if let Some(plain) = case["plain"].as_str() {
        let b = fw::build_str(plain);
        match (&out, &b) {
            (Outcome::Ok(x), Outcome::Ok(y)) => x.code != y.code || x.eeprom != y.eeprom,
            _ => true,
        }
    } else {
        match (&out, case["detail"]["expect_code"].as_str()) {
            (Outcome::Ok(b), Some(ec)) => fw::hex(&b.code, 4096) != ec,
            (Outcome::Ok(_), None) => false,
            _ => true,
        }
    };
    if still {
        ctx.violation("sym/replay", "replayed case still deviates", case.clone());
    }
    fw::finish(ctx, "replay", &[])
}
