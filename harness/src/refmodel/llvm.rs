//! Cross-check of refmodel::isa against an unrelated implementation: the LLVM 14 AVR assembler
//! (`llvm-mc-14 -triple=avr --show-encoding`). Disagreement is a *harness* failure, not a
//! verdict about the code under test. Skipped (and said so in the evidence) when absent.
//! LLVM 14 does not implement the reduced-core 16-bit lds/sts, and it leaves pc-relative
//! fields to fixups (printed as `A` bits), so for those only the fixed opcode bits are compared.

use crate::fw::{self, Ctx, Rng};
use crate::refmodel::isa::{self, Core, Form, Opk};
use serde_json::json;
use std::io::Write;
use std::process::{Command, Stdio};

const MATTR: &str = "+avr6,+eijmpcall,+spmx,+elpmx,+des,+rmw,+mul,+movw,+lpmx,+jmpcall,+break,+sram,+addsubiw,+ijmpcall,+lpm,+elpm,+spm";

fn llvm_text(form: &Form, vals: &[i64]) -> String {
    let mut ops = vec![];
    for (i, v) in vals.iter().enumerate() {
        ops.push(match form.ops[i] {
            Opk::Reg { .. } => format!("r{}", v),
            Opk::Imm { .. } if form.mn == "jmp" || form.mn == "call" => format!("{}", v * 2),
            Opk::Imm { .. } | Opk::ImmCom { .. } | Opk::Addr8l { .. } => format!("{}", v),
            Opk::Rel { .. } => {
                let b = v * 2;
                if b >= 0 {
                    format!(".+{}", b)
                } else {
                    format!(".-{}", -b)
                }
            }
            Opk::Index(ix) => ix.text().to_string(),
            Opk::Disp { reg, .. } => format!("{}+{}", reg, v),
        });
    }
    if ops.is_empty() {
        form.mn.to_string()
    } else {
        format!("{} {}", form.mn, ops.join(", "))
    }
}

/// parse `encoding: [0x12,0b1100AAAA,A]` into (mask, value) per byte
fn parse_encoding(s: &str) -> Option<Vec<(u8, u8)>> {
    let a = s.find("encoding: [")? + "encoding: [".len();
    let b = s[a..].find(']')? + a;
    let mut out = vec![];
    for tok in s[a..b].split(',') {
        let tok = tok.trim();
        if tok == "A" {
            out.push((0u8, 0u8));
        } else if let Some(h) = tok.strip_prefix("0x") {
            out.push((0xff, u8::from_str_radix(h, 16).ok()?));
        } else if let Some(bits) = tok.strip_prefix("0b") {
            let mut m = 0u8;
            let mut v = 0u8;
            for c in bits.chars() {
                m <<= 1;
                v <<= 1;
                match c {
                    '0' => m |= 1,
                    '1' => {
                        m |= 1;
                        v |= 1
                    }
                    _ => {}
                }
            }
            out.push((m, v));
        } else {
            return None;
        }
    }
    Some(out)
}

fn tool() -> Option<&'static str> {
    for t in ["llvm-mc-14", "llvm-mc"] {
        if Command::new(t).arg("--version").stdout(Stdio::null()).stderr(Stdio::null()).status().map(|s| s.success()).unwrap_or(false) {
            return Some(if t == "llvm-mc-14" { "llvm-mc-14" } else { "llvm-mc" });
        }
    }
    None
}

/// Returns Err(description) on disagreement (harness failure).
pub fn crosscheck_inner(seed: u64, deep: bool) -> Result<serde_json::Value, String> {
    let Some(tool) = tool() else {
        return Ok(json!({"skipped": "llvm-mc not found"}));
    };
    let mut rng = Rng::for_case(seed, 0x11F3, 0);
    let mut lines: Vec<String> = vec![];
    let mut expect: Vec<(usize, Vec<i64>, Vec<u8>)> = vec![];
    let forms = isa::forms();
    for (fi, form) in forms.iter().enumerate() {
        if form.core == Core::Reduced {
            continue;
        }
        let space = form.space();
        let take: Vec<u64> = if form.words() == 1 && (deep || space <= 4096) {
            (0..space).collect()
        } else {
            let n = if deep { 20000 } else { 1500 };
            let mut v: Vec<u64> = (0..n).map(|_| rng.below(space)).collect();
            v.push(0);
            v.push(space - 1);
            v
        };
        for i in take {
            let vals = form.tuple_at(i);
            lines.push(llvm_text(form, &vals));
            expect.push((fi, vals.clone(), isa::words_to_bytes(&isa::encode(form, &vals))));
        }
    }
    let mut child = Command::new(tool)
        .args(["-triple=avr", &format!("-mattr={}", MATTR), "--show-encoding"])
        .stdin(Stdio::piped())
        .stdout(Stdio::piped())
        .stderr(Stdio::piped())
        .spawn()
        .map_err(|e| format!("cannot start {}: {}", tool, e))?;
    let input = lines.join("\n") + "\n";
    let mut stdin = child.stdin.take().unwrap();
    let writer = std::thread::spawn(move || {
        let _ = stdin.write_all(input.as_bytes());
    });
    let out = child.wait_with_output().map_err(|e| e.to_string())?;
    let _ = writer.join();
    let stderr = String::from_utf8_lossy(&out.stderr);
    if stderr.contains("error:") {
        let first = stderr.lines().find(|l| l.contains("error:")).unwrap_or("");
        return Err(format!("llvm-mc rejected a line of the reference table: {}", first));
    }
    let stdout = String::from_utf8_lossy(&out.stdout);
    let encs: Vec<Vec<(u8, u8)>> = stdout.lines().filter(|l| l.contains("encoding: [")).filter_map(parse_encoding).collect();
    if encs.len() != expect.len() {
        return Err(format!("llvm-mc produced {} encodings for {} lines", encs.len(), expect.len()));
    }
    let mut full = 0u64;
    let mut masked = 0u64;
    for (enc, (fi, vals, bytes)) in encs.iter().zip(&expect) {
        let form = &forms[*fi];
        if enc.len() != bytes.len() {
            return Err(format!("{} {:?}: llvm-mc length {} vs model {}", form.name, vals, enc.len(), bytes.len()));
        }
        let mut all = true;
        for ((m, v), b) in enc.iter().zip(bytes) {
            if *m != 0xff {
                all = false;
            }
            if b & m != v & m {
                return Err(format!(
                    "{} {:?}: llvm-mc encodes {:?} (mask,value) but the reference model gives {}",
                    form.name,
                    vals,
                    enc,
                    fw::hex(bytes, 8)
                ));
            }
        }
        if all {
            full += 1;
        } else {
            masked += 1;
        }
    }
    Ok(json!({"tool": tool, "lines": expect.len(), "agree_full_encoding": full, "agree_fixed_bits_only_pc_relative": masked}))
}

pub fn crosscheck(ctx: &Ctx, deep: bool) {
    match crosscheck_inner(ctx.seed, deep) {
        Ok(v) => ctx.put("llvm_mc_crosscheck_of_reference_model", v),
        Err(e) => {
            println!("HARNESS-FAILURE property={} reference ISA model disagrees with llvm-mc: {}", ctx.prop, e);
            std::process::exit(2);
        }
    }
}
