.macro pull
.include "part.inc"
.endm
nop
pull
ret
