//! Strict, independent Intel HEX reader (record types 00/01/02/04; 03/05 tolerated and ignored).
//! Produces an address -> byte map and rejects malformed records, bad checksums, double
//! definitions, a missing / repeated / non-final end-of-file record and any junk.

use std::collections::BTreeMap;

#[derive(Debug, Clone, PartialEq, Eq)]
pub struct Decoded {
    pub bytes: BTreeMap<u64, u8>,
    pub data_records: usize,
    pub ext_records: usize,
    pub crlf_lines: usize,
    pub lf_lines: usize,
}

fn hexval(c: u8) -> Option<u8> {
    match c {
        b'0'..=b'9' => Some(c - b'0'),
        b'A'..=b'F' => Some(c - b'A' + 10),
        b'a'..=b'f' => Some(c - b'a' + 10),
        _ => None,
    }
}

pub fn decode(text: &[u8]) -> Result<Decoded, String> {
    let mut out = Decoded { bytes: BTreeMap::new(), data_records: 0, ext_records: 0, crlf_lines: 0, lf_lines: 0 };
    let mut base: u64 = 0;
    let mut linear = false;
    let mut eof_seen = false;
    let mut lineno = 0usize;
    let mut rest = text;
    while !rest.is_empty() {
        lineno += 1;
        // split at LF; a CR is only legal directly before LF (or at the very end of the file)
        let (line, next, had_lf) = match rest.iter().position(|b| *b == b'\n') {
            Some(p) => (&rest[..p], &rest[p + 1..], true),
            None => (rest, &rest[rest.len()..], false),
        };
        rest = next;
        let line = if line.last() == Some(&b'\r') {
            out.crlf_lines += 1;
            &line[..line.len() - 1]
        } else {
            if had_lf {
                out.lf_lines += 1;
            }
            line
        };
        if line.is_empty() {
            continue; // blank line (line termination only)
        }
        if line.contains(&b'\r') {
            return Err(format!("line {}: stray CR", lineno));
        }
        if eof_seen {
            return Err(format!("line {}: content after the end-of-file record", lineno));
        }
        if line[0] != b':' {
            return Err(format!("line {}: record does not start with ':'", lineno));
        }
        let hexpart = &line[1..];
        if hexpart.len() % 2 != 0 {
            return Err(format!("line {}: odd number of hex digits", lineno));
        }
        let mut raw = Vec::with_capacity(hexpart.len() / 2);
        for pair in hexpart.chunks(2) {
            let (h, l) = (hexval(pair[0]), hexval(pair[1]));
            match (h, l) {
                (Some(h), Some(l)) => raw.push(h << 4 | l),
                _ => return Err(format!("line {}: non-hex character", lineno)),
            }
        }
        if raw.len() < 5 {
            return Err(format!("line {}: record too short", lineno));
        }
        let len = raw[0] as usize;
        if raw.len() != len + 5 {
            return Err(format!("line {}: length byte {} does not match record size {}", lineno, len, raw.len() - 5));
        }
        let sum: u32 = raw.iter().map(|b| *b as u32).sum();
        if sum & 0xff != 0 {
            return Err(format!("line {}: bad checksum", lineno));
        }
        let offset = (raw[1] as u64) << 8 | raw[2] as u64;
        let typ = raw[3];
        let data = &raw[4..4 + len];
        match typ {
            0x00 => {
                out.data_records += 1;
                for (i, b) in data.iter().enumerate() {
                    let addr = if linear { base + offset + i as u64 } else { base + ((offset + i as u64) & 0xffff) };
                    if out.bytes.insert(addr, *b).is_some() {
                        return Err(format!("line {}: address 0x{:x} defined twice", lineno, addr));
                    }
                }
            }
            0x01 => {
                if len != 0 {
                    return Err(format!("line {}: end-of-file record with data", lineno));
                }
                eof_seen = true;
            }
            0x02 => {
                if len != 2 || offset != 0 {
                    return Err(format!("line {}: malformed extended segment address record", lineno));
                }
                base = ((data[0] as u64) << 8 | data[1] as u64) << 4;
                linear = false;
                out.ext_records += 1;
            }
            0x04 => {
                if len != 2 || offset != 0 {
                    return Err(format!("line {}: malformed extended linear address record", lineno));
                }
                base = ((data[0] as u64) << 8 | data[1] as u64) << 16;
                linear = true;
                out.ext_records += 1;
            }
            0x03 | 0x05 => {
                if len != 4 {
                    return Err(format!("line {}: malformed start address record", lineno));
                }
            }
            t => return Err(format!("line {}: unknown record type {:02x}", lineno, t)),
        }
    }
    if !eof_seen {
        return Err("no end-of-file record".to_string());
    }
    Ok(out)
}

/// Compare a decoded file with an image: every byte once at its own address, nothing else.
pub fn compare(dec: &Decoded, image: &[u8]) -> Result<(), String> {
    if dec.bytes.len() != image.len() {
        // find the first discrepancy for the message
        for (i, b) in image.iter().enumerate() {
            match dec.bytes.get(&(i as u64)) {
                None => return Err(format!("image byte at 0x{:x} (of {}) is missing from the file ({} bytes decoded)", i, image.len(), dec.bytes.len())),
                Some(x) if x != b => return Err(format!("byte at 0x{:x} is {:02x} in the file, {:02x} in the image", i, x, b)),
                _ => {}
            }
        }
        let extra = dec.bytes.keys().find(|a| **a >= image.len() as u64);
        return Err(format!("file defines {} bytes, image has {} (first extra address {:x?})", dec.bytes.len(), image.len(), extra));
    }
    for (i, b) in image.iter().enumerate() {
        match dec.bytes.get(&(i as u64)) {
            None => return Err(format!("image byte at 0x{:x} is missing from the file", i)),
            Some(x) if x != b => return Err(format!("byte at 0x{:x} is {:02x} in the file, {:02x} in the image", i, x, b)),
            _ => {}
        }
    }
    Ok(())
}

/// self test of the reader on hand-made files (good and bad)
pub fn selfcheck() -> Result<usize, String> {
    let good: &[(&str, usize)] = &[
        (":00000001FF\r\n", 0),
        (":020000020000FC\r\n:0400000001020304F2\r\n:00000001FF\r\n\r\n", 4),
        (":02000004000AF0\n:02FFFE00AABB9C\n:00000001FF", 2),
    ];
    let mut n = 0;
    for (t, cnt) in good {
        let d = decode(t.as_bytes()).map_err(|e| format!("ihex selfcheck: good file rejected: {} ({:?})", e, t))?;
        if d.bytes.len() != *cnt {
            return Err(format!("ihex selfcheck: {:?} decoded {} bytes", t, d.bytes.len()));
        }
        n += 1;
    }
    let d = decode(b":02000004000AF0\n:02FFFE00AABB9C\n:00000001FF").unwrap();
    if d.bytes.get(&0xAFFFE) != Some(&0xAA) || d.bytes.get(&0xAFFFF) != Some(&0xBB) {
        return Err("ihex selfcheck: linear base not applied".into());
    }
    let d = decode(b":020000021000EC\n:02FFFF00AABB9B\n:00000001FF").unwrap();
    if d.bytes.get(&0x1FFFF) != Some(&0xAA) || d.bytes.get(&0x10000) != Some(&0xBB) {
        return Err("ihex selfcheck: segment wrap not applied".into());
    }
    let bad: &[&str] = &[
        "",
        ":0400000001020304F2\r\n",
        ":0400000001020304F3\r\n:00000001FF\r\n",
        ":0400000001020304F2\r\n:0400000001020304F2\r\n:00000001FF\r\n",
        ":00000001FF\r\n:00000001FF\r\n",
        ":00000001FF\r\nxx",
        ":0400000001020304F\r\n:00000001FF\r\n",
        ":05000000010203040E\r\n:00000001FF\r\n",
        "0400000001020304F2\r\n:00000001FF\r\n",
        ":04000000010203G4F2\r\n:00000001FF\r\n",
        ":00000007F9\r\n:00000001FF\r\n",
        ":00000001FF\r\r\n",
    ];
    for t in bad {
        if decode(t.as_bytes()).is_ok() {
            return Err(format!("ihex selfcheck: bad file accepted: {:?}", t));
        }
        n += 1;
    }
    Ok(n)
}
