; 41 macros, each calling the previous one twice: 2^40 nops from 1 KB of source
.macro m0
nop
.endm
.macro m1
m0
m0
.endm
.macro m2
m1
m1
.endm
.macro m3
m2
m2
.endm
.macro m4
m3
m3
.endm
.macro m5
m4
m4
.endm
.macro m6
m5
m5
.endm
.macro m7
m6
m6
.endm
.macro m8
m7
m7
.endm
.macro m9
m8
m8
.endm
.macro m10
m9
m9
.endm
.macro m11
m10
m10
.endm
.macro m12
m11
m11
.endm
.macro m13
m12
m12
.endm
.macro m14
m13
m13
.endm
.macro m15
m14
m14
.endm
.macro m16
m15
m15
.endm
.macro m17
m16
m16
.endm
.macro m18
m17
m17
.endm
.macro m19
m18
m18
.endm
.macro m20
m19
m19
.endm
.macro m21
m20
m20
.endm
.macro m22
m21
m21
.endm
.macro m23
m22
m22
.endm
.macro m24
m23
m23
.endm
.macro m25
m24
m24
.endm
.macro m26
m25
m25
.endm
.macro m27
m26
m26
.endm
.macro m28
m27
m27
.endm
.macro m29
m28
m28
.endm
.macro m30
m29
m29
.endm
.macro m31
m30
m30
.endm
.macro m32
m31
m31
.endm
.macro m33
m32
m32
.endm
.macro m34
m33
m33
.endm
.macro m35
m34
m34
.endm
.macro m36
m35
m35
.endm
.macro m37
m36
m36
.endm
.macro m38
m37
m37
.endm
.macro m39
m38
m38
.endm
.macro m40
m39
m39
.endm
m40
