"""helpers for making small fix commits in /repo: edit(), commit() (runs the unedited suite first)"""
import subprocess, os
os.chdir('/repo')
def edit(path, pairs):
    s=open(path).read()
    for old,new in pairs:
        assert s.count(old)==1, (path, old[:80], s.count(old))
        s=s.replace(old,new)
    open(path,'w').write(s)
def commit(msg):
    r=subprocess.run(["cargo","test","--workspace","--no-fail-fast","--offline"],capture_output=True,text=True)
    assert "test result: ok. 67 passed; 0 failed" in r.stdout, r.stdout[-4000:]+r.stderr[-3000:]
    r=subprocess.run(["git","commit","-q","-a","-m",msg],capture_output=True,text=True)
    assert r.returncode==0, r.stderr
    h=subprocess.run(["git","log","-1","--format=%h"],capture_output=True,text=True).stdout.strip()
    print("committed", h, msg.splitlines()[0])
