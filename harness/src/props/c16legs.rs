//! Sanitizer / interpreter legs: valgrind memcheck on the optimized worker (C16, thorough) and
//! Miri on small fixed workloads (C16 single-threaded hostile lines; C17 concurrent builds with
//! seed-varied scheduling and the data-race detector). A clean leg means "no report on N
//! executions", never memory safety. A tool that is missing or fails to start makes the leg
//! inconclusive-and-skipped (noted in the evidence), not a violation.

use crate::fw::{self, Ctx, Outcome, Tier};
use crate::props::c16::{DIRECTIVES, OPERANDS};
use serde_json::json;
use std::io::Write;
use std::process::{Command, Stdio};

fn hostile_lines() -> Vec<String> {
    let mut v = vec![];
    for d in DIRECTIVES.iter() {
        v.push(format!("{}\n", d));
        for (o, _) in OPERANDS.iter() {
            v.push(format!("{} {}\n", d, o));
        }
    }
    for m in ["ldi", "add", "ld", "ldd", "rjmp", "brbs", "lpm", "sts", "movw", "frobnicate"] {
        v.push(format!("{}\n", m));
        for (a, _) in OPERANDS.iter() {
            v.push(format!("{} {}\n", m, a));
            for (b, _) in OPERANDS.iter().step_by(3) {
                v.push(format!("{} {}, {}\n", m, a, b));
            }
        }
    }
    v
}

pub fn memcheck_leg(ctx: &Ctx) {
    if Command::new("valgrind").arg("--version").stdout(Stdio::null()).stderr(Stdio::null()).status().map(|s| !s.success()).unwrap_or(true) {
        ctx.put("memcheck_leg", json!("valgrind not available: skipped"));
        return;
    }
    let Ok(exe) = std::env::current_exe() else { return };
    let lines = hostile_lines();
    let mut input = Vec::new();
    for (i, l) in lines.iter().enumerate() {
        input.extend_from_slice(format!("S {} {}\n", i, l.len()).as_bytes());
        input.extend_from_slice(l.as_bytes());
    }
    let child = Command::new("valgrind")
        .args(["--tool=memcheck", "--error-exitcode=99", "--quiet", "--leak-check=no"])
        .arg(exe)
        .arg("worker")
        .stdin(Stdio::piped())
        .stdout(Stdio::piped())
        .stderr(Stdio::piped())
        .spawn();
    let Ok(mut child) = child else {
        ctx.put("memcheck_leg", json!("valgrind could not be started: skipped"));
        return;
    };
    let mut stdin = child.stdin.take().unwrap();
    let w = std::thread::spawn(move || {
        let _ = stdin.write_all(&input);
    });
    let out = child.wait_with_output();
    let _ = w.join();
    match out {
        Ok(o) => {
            let done = String::from_utf8_lossy(&o.stdout).lines().filter(|l| l.starts_with("E ")).count();
            let err = String::from_utf8_lossy(&o.stderr).to_string();
            ctx.eval(done as u64);
            if o.status.code() == Some(99) || err.contains("Invalid read") || err.contains("Invalid write") || err.contains("uninitialised") {
                ctx.violation("sanitizer/memcheck", format!("valgrind memcheck reported: {}", fw::clip(&err, 400)), json!({"kind": "S", "text": "(memcheck leg: hostile one-line programs)", "construct": "memcheck", "detail": fw::clip(&err, 2000)}));
            }
            ctx.put("memcheck_leg", json!({"builds_under_memcheck": done, "of": lines.len(), "exit": o.status.code(), "reports": if err.trim().is_empty() { 0 } else { err.matches("==").count() / 2 }}));
        }
        Err(e) => ctx.put("memcheck_leg", json!(format!("valgrind run failed: {}: skipped", e))),
    }
}

/// Programs for the Miri workloads (tiny: Miri costs ~1 s per build)
fn miri_programs() -> Vec<&'static str> {
    vec![
        ".device ATmega8\n.equ shared = 1\nldi r16, shared\n",
        ".equ shared = 2\njmp shared\n",
        ".device ATtiny20\nlds r16, 0x80\n.dseg\nshared: .byte 1\n",
        ".macro shared\nnop\n.endm\nshared\n",
        "ldi r16, shared\n",
    ]
}

/// `avra-verif miri-conc <c16|c17>`: the workload Miri interprets
pub fn miri_workload(which: &str) -> i32 {
    if which == "c16" {
        let mut n = 0;
        for l in [".undef\n", ".byte\n", ".org -1\nnop\n", "ldi r32, 1\n", ".def a = b\n", ".dq 1<<64\n", ".dq 99999999999999999999\n", ".equ a = a\n.dw a\n", ".if\n", "add r1\n", ".db \"x\", 'y', 1/0\n", ".macro m\nm\n.endm\nm\n", ".eseg\n.byte 70000\n", "ldi r16, ((((1))))\n", ".include \"nowhere\"\n", "\u{feff}nop\n"] {
            let o = fw::build_str(l);
            if o.is_panic() {
                println!("MIRI-PANIC {:?}", o.brief());
                return 1;
            }
            n += 1;
        }
        println!("MIRI-OK {}", n);
        return 0;
    }
    let progs = miri_programs();
    let seq: Vec<u64> = progs.iter().map(|p| crate::monitor::worker::fingerprint(&fw::build_str(p))).collect();
    let bad = std::sync::atomic::AtomicBool::new(false);
    std::thread::scope(|s| {
        for t in 0..3usize {
            let progs = &progs;
            let seq = &seq;
            let bad = &bad;
            s.spawn(move || {
                for k in 0..3usize {
                    let i = (t * 2 + k) % progs.len();
                    let o: Outcome = fw::build_str(progs[i]);
                    if crate::monitor::worker::fingerprint(&o) != seq[i] {
                        bad.store(true, std::sync::atomic::Ordering::SeqCst);
                    }
                }
            });
        }
    });
    if bad.load(std::sync::atomic::Ordering::SeqCst) {
        println!("MIRI-MISMATCH concurrent result differs from sequential result");
        return 1;
    }
    println!("MIRI-OK {}", 9 + progs.len());
    0
}

pub fn miri_leg(ctx: &Ctx, which: &str) {
    let key = format!("miri_leg_{}", which);
    if std::env::var("VERIF_SKIP_MIRI").is_ok() {
        ctx.put(&key, json!("skipped by VERIF_SKIP_MIRI"));
        return;
    }
    let seeds = match (which, ctx.tier) {
        ("c17", Tier::Quick) => 2,
        ("c17", Tier::Thorough) => 32,
        _ => 1,
    };
    let harness = fw::verif_root().join("harness");
    let target = fw::verif_root().join("build").join("miri");
    let t0 = std::time::Instant::now();
    let out = Command::new("cargo")
        .current_dir(&harness)
        .args(["+nightly", "miri", "run", "--offline", "--target-dir"])
        .arg(&target)
        .args(["--", "miri-conc", which])
        .env("MIRIFLAGS", format!("-Zmiri-disable-isolation -Zmiri-many-seeds=0..{}", seeds))
        .env("CARGO_NET_OFFLINE", "true")
        .output();
    match out {
        Err(e) => ctx.put(&key, json!(format!("cargo miri could not be started ({}): skipped", e))),
        Ok(o) => {
            let stdout = String::from_utf8_lossy(&o.stdout).to_string();
            let stderr = String::from_utf8_lossy(&o.stderr).to_string();
            let oks = stdout.matches("MIRI-OK").count();
            let ub = stderr.contains("Undefined Behavior") || stderr.contains("Data race detected") || stderr.contains("error: unsupported operation") && false;
            if ub || stdout.contains("MIRI-MISMATCH") || stdout.contains("MIRI-PANIC") {
                let what = if stdout.contains("MIRI-MISMATCH") { "concurrent result differs from sequential result under Miri" } else if stdout.contains("MIRI-PANIC") { "panic under Miri" } else { "Miri reported undefined behaviour or a data race" };
                ctx.violation(format!("sanitizer/miri/{}", which), format!("{}: {}", what, fw::clip(&stderr, 500)), json!({"how": "miri", "kind": "S", "text": "(miri leg)", "construct": "miri", "stderr": fw::clip(&stderr, 3000), "stdout": fw::clip(&stdout, 500)}));
            } else if oks == 0 {
                // Miri did not get to run the workload (setup problem): say so, do not guess
                ctx.put(&key, json!({"status": "inconclusive: workload did not complete under Miri", "exit": o.status.code(), "stderr_tail": stderr.chars().rev().take(400).collect::<String>().chars().rev().collect::<String>()}));
                return;
            }
            ctx.eval(oks as u64);
            ctx.put(&key, json!({"runs_completed_without_report": oks, "seeds": seeds, "seconds": t0.elapsed().as_secs_f64(), "exit": o.status.code()}));
        }
    }
}
