#!/usr/bin/env python3
"""Writes /verif/MANIFEST.json from the table below (one entry per claimed property)."""
import json, os, subprocess
ROOT = os.path.dirname(os.path.dirname(os.path.abspath(__file__)))

CLAIMED = {
 "C01": dict(
   technique="reference-model monitor over exhaustive operand enumeration (runtime execution of build_str, independent encoder+decoder oracle, llvm-mc cross-check of the oracle)",
   text="Runs the real assembler on every ISA-legal operand tuple of every supported instruction form (complete one-word space and reduced-core lds/sts in quick; additionally the complete 2^22 jmp/call and 32x2^16 lds/sts spaces in thorough) and compares the emitted bytes with an independently transcribed ISA encoder and a hand-coded decoder. Held-on-observed for the enumerated spaces; the oracle itself is cross-checked against LLVM's AVR assembler.",
   note="Trusted base: refmodel/isa.rs (manual transcription; decode∘encode self-check; llvm-mc-14 agreement except the reduced-core lds/sts form, which LLVM 14 lacks, and pc-relative fields, which LLVM leaves to fixups). Relative operands are written pc±k; label targets are C03.",
   design="§6 C01"),
}

PENDING_REASON = "check not built yet in this round (work in progress; design in DESIGN.md §6)"

def main():
    props = [json.loads(l) for l in open(os.path.join(ROOT, "properties.jsonl"))]
    commits = subprocess.run(["git", "-C", "/repo", "log", "--format=%h %s"], capture_output=True, text=True).stdout.splitlines()
    hook_commits = [c.split()[0] for c in commits if "observation hook" in c or "verif" in c.lower() and not c.split(" ",1)[1].startswith("fix:")]
    checks, na = [], []
    for p in props:
        pid = p["id"]
        if pid in CLAIMED:
            c = CLAIMED[pid]
            checks.append({
                "property_id": pid,
                "quick_cmd": f"./check {pid} --tier quick",
                "thorough_cmd": f"./check {pid} --tier thorough",
                "evidence_file": f"/verif/evidence/{pid}.json",
                "replay_cmd_template": f"./check {pid} --replay {{path}}",
                "engine": "avra-verif",
                "level_claimed": {"category": "exploration", "text": c["text"], "design_ref": c["design"]},
                "level_note": c["note"],
                "technique": c["technique"],
            })
        else:
            na.append({"property_id": pid, "reason": PENDING_REASON})
    m = {
        "version": 1,
        "setup_cmd": "./setup.sh",
        "hooks": {
            "guard": "cargo feature `verif` (cfg(feature = \"verif\")), off by default",
            "enable": "the harness crate /verif/harness depends on /repo by path with features = [\"verif\"]; ./check rebuilds it (cargo build --release --offline) before every run",
            "baseline_off_cmd": "cd /repo && cargo test --workspace --no-fail-fast --offline",
            "source_commits": hook_commits,
            "add_only": True,
        },
        "engines": [{
            "name": "avra-verif",
            "path": "/verif/harness",
            "serves_properties": sorted(CLAIMED),
            "kind_free_text": "Rust harness linking the real avra_lib (hooks on): seeded/enumerated workloads, independent reference models as oracles, hook-trace checkers, isolated worker processes; external legs: Miri, valgrind memcheck, strace",
        }],
        "checks": checks,
        "not_applicable": na,
        "notes": "Technique family: runtime monitoring and sanitizers. Every check executes the real code from /repo's working tree and decides by an oracle over observed executions; see DESIGN.md. Known findings: KNOWN_FINDINGS.txt.",
    }
    if not na:
        del m["not_applicable"]
    json.dump(m, open(os.path.join(ROOT, "MANIFEST.json"), "w"), indent=1)
    print("wrote MANIFEST.json:", len(checks), "checks,", len(na), "not_applicable; hook commits", hook_commits)

main()
