.macro inner
#define INNER_RAN
.endm
.macro outer
 inner
.ifdef INNER_RAN
.dw 1
.else
.dw 2
.endif
.endm
 outer
