//! C13 — instructions the selected device lacks are rejected; all others are unaffected.
//!
//! Complete in both tiers: every device of the table x every instruction form of the reference
//! ISA x lowest/highest legal operand tuple (thorough: + 256 random tuples). Oracle: flag→forms map
//! transcribed from the DisabledOptions documentation, flags read from DEVICES at run time; an
//! allowed form must assemble to the reference (no-device) encoding, lds/sts taking the one-word
//! form on reduced cores.

use crate::fw::{self, Ctx, Outcome, Rng, Tier};
use crate::refmodel::{devices, isa::{self, Core, Opk}};
use serde_json::{json, Value};

fn tuples(form: &isa::Form, rng: &mut Rng, extra: usize) -> Vec<Vec<i64>> {
    let space = form.space();
    let mut v = vec![form.tuple_at(0), form.tuple_at(space - 1)];
    for _ in 0..extra {
        v.push(form.tuple_at(rng.below(space)));
    }
    // relative operands: keep the displacement small (no .org on 512-word parts)
    for t in v.iter_mut() {
        for (i, o) in form.ops.iter().enumerate() {
            if let Opk::Rel { .. } = o {
                t[i] = t[i].clamp(-64, 63);
            }
        }
    }
    v.sort();
    v.dedup();
    v
}

fn check(ctx: &Ctx, dev_name: &str, form: &isa::Form, vals: &[i64]) {
    let dev = &avra_lib::device::DEVICES[dev_name];
    let forbidden = devices::forbidding_flag(dev, &form.name);
    let text = form.text(vals);
    // every other line carries a label of its own (a label and the instruction behind it are one line)
    let labelled = fw::hash_str(&format!("{}{}", dev_name, text)) % 2 == 0;
    let src = format!(".device {}\n{}{}\n", dev_name, if labelled { "here:" } else { "" }, text);
    let out = fw::build_str(&src);
    ctx.eval(1);
    let expect = isa::words_to_bytes(&isa::encode(form, vals));
    let replay = json!({"source": src, "device": dev_name, "form": form.name, "vals": vals,
        "forbidden_by": forbidden.as_ref().map(|f| format!("{:?}", f)), "expect_code": fw::hex(&expect, 8), "observed": out.brief()});
    match (&forbidden, &out) {
        (_, Outcome::Panic(p)) => ctx.violation(format!("gate/{}/panic", form.name), format!("{} on {} panicked: {}", text, dev_name, fw::clip(p, 120)), replay),
        (Some(flag), Outcome::Ok(b)) => ctx.violation(
            format!("gate/{:?}/{}/accepted", flag, form.name),
            format!("`{}` assembled ({}) on {} although the device has {:?}", text, fw::hex(&b.code, 4), dev_name, flag),
            replay,
        ),
        (Some(_), Outcome::Err(_)) => {}
        (None, Outcome::Err(e)) => ctx.violation(
            format!("gate/allowed/{}/rejected", form.name),
            format!("`{}` rejected on {} although no flag of the device forbids it: {}", text, dev_name, fw::clip(e, 120)),
            replay,
        ),
        (None, Outcome::Ok(b)) => {
            if b.code != expect {
                ctx.violation(
                    format!("gate/allowed/{}/bytes", form.name),
                    format!("`{}` on {} assembled to {} but {} without a device", text, dev_name, fw::hex(&b.code, 4), fw::hex(&expect, 4)),
                    replay,
                );
            }
        }
    }
    ctx.count(if forbidden.is_some() { "forbidden_pairs_runs" } else { "allowed_pairs_runs" }, 1);
}

/// Whole programs per device: the gate must decide every instruction on its own, whatever was
/// assembled before it (a verdict cached per mnemonic, per segment or per build would pass the
/// one-instruction sweep).
/// Lines that assemble to nothing and say nothing about the device: other segments with content,
/// directives that are accepted and ignored, definitions nobody uses, an unselected `.device`.
/// Whatever they do internally, the selected device and its instruction set stay what they were.
const INERT_KINDS: u64 = 17;

/// The ways a program can come to select its part: the line itself, the line as (part of) a macro body - the
/// part is then only known once macros are expanded -, the line in a selected branch.
const DEVICE_ROUTES: u64 = 7;

fn select_device(route: u64, name: &str) -> String {
    match route {
        1 => format!(".macro pick_part\n.device {}\n.endm\npick_part\n", name),
        2 => format!(".macro inner_part\n.device {}\n.endm\n.macro outer_part\n\tinner_part\n.endm\n\touter_part\n", name),
        3 => format!(".if 1\n.device {}\n.endif\n", name),
        4 => format!(".ifndef never_defined_c13\n.device {}\n.else\n.device ATmega8\n.endif\n", name),
        5 => format!(".macro pick_named\n.device @0\n.endm\n\tpick_named {}\n", name),
        6 => format!(".macro pick_late\n.device {}\n.endm\n; the part is chosen further down\n\n\tpick_late\n", name),
        _ => format!(".device {}\n", name),
    }
}

/// a device line too many: a program holding one never builds, whatever else it holds
fn second_selection(kind: u64, name: &str) -> String {
    match kind {
        0 => format!(".device {}\n", name),
        1 => format!(".device {}\n.device {}\n", name, name),
        2 => format!(".device {}\n", if name == "ATmega16" { "ATmega8" } else { "ATmega16" }),
        3 => format!(".macro again_part\n.device {}\n.endm\n\tagain_part\n", name),
        // the second line sits in an included file (the way the shipped part files name their part)
        4 | 5 => ".include \"part.inc\"\n".to_string(),
        _ => String::new(),
    }
}

fn inert_lines(rng: &mut Rng, k: usize, has_ram: bool, has_eeprom: bool) -> String {
    let kind = rng.below(24);
    inert_kind(kind, rng, k, has_ram, has_eeprom)
}

fn inert_kind(kind: u64, rng: &mut Rng, k: usize, has_ram: bool, has_eeprom: bool) -> String {
    match kind {
        13 => ".csegsize 10\n".to_string(),
        14 => ".csegsize 12\n".to_string(),
        15 => ".csegsize 14\n".to_string(),
        16 => ".csegsize 16\n".to_string(),
        _ => inert_kind_common(kind, rng, k, has_ram, has_eeprom),
    }
}

fn inert_kind_common(kind: u64, rng: &mut Rng, k: usize, has_ram: bool, has_eeprom: bool) -> String {
    match kind {
        0 if has_ram => format!(".dseg\ndata_lbl_{}: .byte 1\n.cseg\n", k),
        1 if has_eeprom => format!(".eseg\nee_lbl_{}: .db {}\n.cseg\n", k, k % 200),
        0 | 1 => format!(".dseg\nd1_lbl_{}:\n.cseg\n", k),
        2 => format!(".dseg\nd2_lbl_{}:\n.eseg\ne2_lbl_{}:\n.cseg\n", k, k),
        3 => format!(".csegsize {}\n", rng.pick(&[10, 11, 12, 14, 16])),
        4 => "#pragma AVRPART CORE CORE_VERSION V2E\n".to_string(),
        5 => ".pragma partinc 0\n".to_string(),
        6 => format!(".message \"note {}\"\n", k),
        7 => format!(".equ inert_equ_{} = {}\n.set inert_set_{} = inert_equ_{} + 1\n", k, k, k, k),
        8 => format!(".def inert_alias_{} = r{}\n.undef inert_alias_{}\n", k, 16 + k % 16, k),
        9 => format!(".macro inert_mac_{}\n\tnop\n.endm\n", k),
        10 => ".if 0\n.device ATmega2560\n.endif\n".to_string(),
        11 => format!("#define INERT_FLAG_{}\n.ifdef INERT_FLAG_{}\n.else\n.device ATmega2560\n.endif\n", k, k),
        12 => format!("inert_code_lbl_{}:\n", k),
        _ => String::new(),
    }
}

fn sequences(ctx: &Ctx, rounds: u64) {
    let table = devices::table();
    let forms = isa::forms();
    let work: Vec<(usize, u64)> = (0..table.len()).flat_map(|d| (0..rounds).map(move |r| (d, r))).collect();
    fw::par_items(&work, |_, (di, round)| {
        let (name, dev) = &table[*di];
        let reduced = devices::is_reduced(dev);
        let mut rng = Rng::for_case(ctx.seed, 0xC13_5, (*di as u64) << 16 | round);
        let usable: Vec<usize> = (0..forms.len()).filter(|i| !((forms[*i].core == Core::Reduced && !reduced) || (forms[*i].core == Core::Full && reduced))).collect();
        let allowed: Vec<usize> = usable.iter().cloned().filter(|i| devices::forbidding_flag(dev, &forms[*i].name).is_none()).collect();
        let forbidden: Vec<usize> = usable.iter().cloned().filter(|i| devices::forbidding_flag(dev, &forms[*i].name).is_some()).collect();
        let tuple = |f: &isa::Form, rng: &mut Rng| -> Vec<i64> {
            let mut t = f.tuple_at(rng.below(f.space()));
            for (i, o) in f.ops.iter().enumerate() {
                if let Opk::Rel { .. } = o {
                    t[i] = t[i].clamp(-3, 3);
                }
            }
            t
        };
        // (a) a program of allowed forms only, sometimes split over several .cseg blocks
        let n = 10 + rng.usize(30);
        let route = (*round + *di as u64) % DEVICE_ROUTES;
        let mut src = select_device(route, name);
        let mut expect: Vec<u8> = vec![];
        let mut lines: Vec<(usize, String)> = vec![];
        for _ in 0..n {
            let fi = *rng.pick(&allowed);
            let t = tuple(&forms[fi], &mut rng);
            let text = forms[fi].text(&t);
            if rng.chance(1, 4) {
                src.push_str(&inert_lines(&mut rng, lines.len(), dev.ram_size >= 64, dev.eeprom_size >= 64));
            }
            if rng.chance(1, 3) {
                src.push_str(&format!("at_{}:", lines.len()));
            }
            src.push_str(&text);
            src.push('\n');
            expect.extend(isa::words_to_bytes(&isa::encode(&forms[fi], &t)));
            lines.push((fi, text));
        }
        let out = fw::build_str(&src);
        ctx.eval(1);
        ctx.count("sequence_programs_allowed_only", 1);
        match &out {
            Outcome::Ok(b) if b.code == expect => {}
            other => ctx.violation(
                if route == 0 { "gate/sequence/allowed-program".to_string() } else { format!("gate/sequence/allowed-program/device-selected-by-route-{}", route) },
                format!("program of {} instructions that {} has was rejected or mis-assembled: {}", n, name, fw::clip(&format!("{:?}", other.brief()), 160)),
                json!({"source": src, "device": name, "sequence": true, "must_build": true, "expect_code": fw::hex(&expect, 4096)}),
            ),
        }
        // (b) every forbidden form after a prefix that already used allowed forms of the same mnemonic
        for fi in forbidden.iter() {
            let f = &forms[*fi];
            let route = rng.below(DEVICE_ROUTES);
            let mut src = select_device(route, name);
            // now and then the part is named once more (that alone fails the build; it never un-selects the part)
            let again = rng.below(12);
            src.push_str(&second_selection(again, name));
            // sometimes the code follows (non-empty) data / EEPROM segments, or is split by them
            let seg_noise = |rng: &mut Rng, k: usize| inert_lines(rng, k, dev.ram_size >= 16, dev.eeprom_size >= 16);
            src.push_str(&seg_noise(&mut rng, 0));
            let siblings: Vec<usize> = allowed.iter().cloned().filter(|a| forms[*a].mn == f.mn).collect();
            let k = 1 + rng.usize(6);
            for j in 0..k {
                let pick = if !siblings.is_empty() && (j == 0 || rng.chance(1, 2)) { *rng.pick(&siblings) } else { *rng.pick(&allowed) };
                let t = tuple(&forms[pick], &mut rng);
                src.push_str(&forms[pick].text(&t));
                src.push('\n');
                if rng.chance(1, 4) {
                    src.push_str(&seg_noise(&mut rng, j + 1));
                }
            }
            let t = tuple(f, &mut rng);
            if rng.chance(1, 2) {
                src.push_str(*rng.pick(&["the_one:", "the_one:\t", "a: ", "L1:  "]));
            }
            src.push_str(&f.text(&t));
            src.push('\n');
            // and something allowed after it
            let pick = *rng.pick(&allowed);
            let t2 = tuple(&forms[pick], &mut rng);
            src.push_str(&forms[pick].text(&t2));
            src.push('\n');
            let part = match again {
                4 => Some(format!(".device {}\n", name)),
                5 => Some(format!("; part definitions\n.equ part_file_read = 1\n\t.device {}\n.equ part_file_end = 2\n", name)),
                _ => None,
            };
            let out = match &part {
                Some(p) => fw::build_main_with_part(&src, p),
                None => fw::build_str(&src),
            };
            ctx.eval(1);
            ctx.count("sequence_programs_with_one_forbidden_form", 1);
            if part.is_some() {
                ctx.count("sequence_programs_device_named_again_in_an_included_file", 1);
            }
            if !out.is_err() {
                let flag = devices::forbidding_flag(dev, &f.name).map(|x| format!("{:?}", x)).unwrap_or_default();
                ctx.violation(
                    format!("gate/{}/{}/accepted-after-allowed-instructions{}{}", flag, f.name, if route == 0 { String::new() } else { format!("/device-selected-by-route-{}", route) }, if again < 4 { "/device-named-again" } else if again < 6 { "/device-named-again-in-an-included-file" } else { "" }),
                    format!("`{}` assembled on {} (which has {}) when it followed allowed instructions{}", f.text(&t), name, flag, if siblings.is_empty() { "" } else { " of the same mnemonic" }),
                    json!({"source": src, "part_file": part, "device": name, "sequence": true, "must_build": false}),
                );
            }
        }
        // (b2) the forbidden form out of a macro whose body line is the mnemonic with its operands as parameters,
        // called first with the operands of an allowed form of the same mnemonic: every expansion is looked at
        for fi in forbidden.iter() {
            let f = &forms[*fi];
            let siblings: Vec<usize> = allowed.iter().cloned().filter(|a| forms[*a].mn == f.mn && forms[*a].ops.len() == f.ops.len()).collect();
            if siblings.is_empty() || f.ops.is_empty() {
                continue;
            }
            let sib = &forms[*rng.pick(&siblings)];
            let (ts, tf) = (tuple(sib, &mut rng), tuple(f, &mut rng));
            let operands = |t: String| t.split_once(' ').map(|(_, o)| o.to_string()).unwrap_or_default();
            let params: Vec<String> = (0..f.ops.len()).map(|i| format!("@{}", i)).collect();
            let times = 1 + rng.usize(3);
            let src = format!(
                "{}.macro through_parameters\n\t{} {}\n.endm\n{}\tthrough_parameters {}\n\tnop\n",
                select_device(rng.below(DEVICE_ROUTES), name),
                f.mn,
                params.join(", "),
                format!("\tthrough_parameters {}\n", operands(sib.text(&ts))).repeat(times),
                operands(f.text(&tf))
            );
            let out = fw::build_str(&src);
            ctx.eval(1);
            ctx.count("forbidden_form_through_macro_parameters_after_allowed_calls", 1);
            if !out.is_err() {
                let flag = devices::forbidding_flag(dev, &f.name).map(|x| format!("{:?}", x)).unwrap_or_default();
                ctx.violation(
                    format!("gate/{}/{}/accepted-through-macro-parameters-after-allowed-calls", flag, f.name),
                    format!("`{}` assembled on {} (which has {}) out of a macro that was called with `{}` before", f.text(&tf), name, flag, operands(sib.text(&ts))),
                    json!({"source": src, "device": name, "sequence": true, "must_build": false}),
                );
            }
        }
        // (c) every kind of inert line, placed between `.device` and a forbidden form
        if !forbidden.is_empty() && *round == 0 {
            for kind in 0..INERT_KINDS {
                let f = &forms[*rng.pick(&forbidden)];
                let t = tuple(f, &mut rng);
                let src = format!(".device {}\n{}{}\n", name, inert_kind(kind, &mut rng, 0, dev.ram_size >= 16, dev.eeprom_size >= 16), f.text(&t));
                let out = fw::build_str(&src);
                ctx.eval(1);
                ctx.count("forbidden_form_behind_each_inert_line", 1);
                if !out.is_err() {
                    let flag = devices::forbidding_flag(dev, &f.name).map(|x| format!("{:?}", x)).unwrap_or_default();
                    ctx.violation(
                        format!("gate/{}/{}/accepted-behind-inert-line", flag, f.name),
                        format!("`{}` assembled on {} (which has {}) behind `{}`", f.text(&t), name, flag, src.lines().nth(1).unwrap_or("")),
                        json!({"source": src, "device": name, "sequence": true, "must_build": false}),
                    );
                }
            }
        }
    });
}

/// Programs that hold nothing but instructions the device lacks, 2 to 65536 of them (the last fills the flash of a
/// 64 Ki-word part to its last word): one is enough to fail the build, and so are all of them.
fn many_forbidden(ctx: &Ctx) {
    for (dev, line, per) in [("ATmega128", "\teijmp\n", 1usize), ("ATmega103", "\tmul r0, r1\n", 1), ("ATmega128", "here:\teicall\n", 1), ("ATmega1280", "\tespm\n", 1)] {
        if avra_lib::device::DEVICES.get(dev).map(|d| d.flash_size) != Some(65536) {
            continue;
        }
        for n in [2usize, 255, 256, 257, 65535, 65536] {
            let line = if line.starts_with("here:") { "\teicall\n" } else { line };
            let src = format!(".device {}\n{}", dev, line.repeat(n / per));
            let out = fw::build_str(&src);
            ctx.eval(1);
            ctx.count("programs_of_nothing_but_forbidden_instructions", 1);
            if !out.is_err() {
                ctx.violation(
                    format!("gate/many-forbidden/{}", if n < 256 { "below-256" } else if n < 65536 { "256-and-more" } else { "65536" }),
                    format!("{} x `{}` on {}: {}", n, line.trim(), dev, fw::clip(&format!("{:?}", out.kind()), 80)),
                    json!({"source": src, "device": dev, "sequence": true, "must_build": false}),
                );
            }
        }
    }
}

pub fn run(ctx: &Ctx) -> i32 {
    many_forbidden(ctx);
    if let Err(e) = isa::selfcheck() {
        println!("HARNESS-FAILURE property=C13 {}", e);
        return 2;
    }
    let table = devices::table();
    let forms = isa::forms();
    let extra = ctx.tier.pick(0usize, 256usize);
    let mut work: Vec<(String, usize, Vec<i64>)> = vec![];
    let mut rng = Rng::for_case(ctx.seed, 0xC13, 0);
    let mut pairs = 0u64;
    let mut forbidden_pairs = 0u64;
    for (name, dev) in &table {
        let reduced = devices::is_reduced(dev);
        for (fi, form) in forms.iter().enumerate() {
            // lds/sts: the form that exists on this core
            if (form.core == Core::Reduced && !reduced) || (form.core == Core::Full && reduced) {
                continue;
            }
            pairs += 1;
            if devices::forbidding_flag(dev, &form.name).is_some() {
                forbidden_pairs += 1;
            }
            ctx.distinct(fw::hash_str(&format!("{}|{}", name, form.name)));
            for t in tuples(form, &mut rng, extra) {
                work.push((name.clone(), fi, t));
            }
        }
    }
    ctx.put("devices", json!(table.len()));
    ctx.put("forms", json!(forms.len()));
    ctx.put("device_form_pairs", json!(pairs));
    ctx.put("forbidden_pairs", json!(forbidden_pairs));
    ctx.put("flag_histogram", json!(devices::flags_histogram()));
    for (name, fi, t) in work.iter().step_by(work.len() / 10 + 1) {
        let dev = &avra_lib::device::DEVICES[name.as_str()];
        ctx.sample(json!({"device": name, "line": forms[*fi].text(t), "forbidden_by": devices::forbidding_flag(dev, &forms[*fi].name).map(|f| format!("{:?}", f))}));
    }
    fw::par_for(work.len() as u64, 64, |i| {
        let (name, fi, t) = &work[i as usize];
        check(ctx, name, &forms[*fi], t);
    });
    sequences(ctx, ctx.tier.pick(3, 200));
    ctx.exhaustive.store(true, std::sync::atomic::Ordering::Relaxed);
    fw::finish(
        ctx,
        "every device of DEVICES x every instruction form of the reference ISA (the lds/sts form of the device's core) x lowest and highest legal operand tuple (thorough: + 256 random tuples); forbidden iff a flag of the device forbids the form per the DisabledOptions documentation; plus per device 3 (thorough 200) whole programs of 10-40 allowed instructions (must build to the concatenated encodings) and, for every forbidden form, a program where it follows 1-6 allowed instructions incl. allowed forms of the same mnemonic, with non-empty data / EEPROM segments before and between the code (must fail); in these programs the part is selected in one of 7 ways (the line itself; as the body of a macro, of a nested macro, of a macro that takes the name as argument; in a selected branch) and a third of the must-fail programs name the part a second time; every forbidden form that has an allowed sibling of the same mnemonic also out of a macro with the operands as parameters, after 1-3 calls with the sibling's operands; distinct_nontrivial = distinct (device, form) pairs",
        &["flag→forms map transcribed from the doc comments of DisabledOptions (refmodel/devices.rs); flags read from the DEVICES table at run time, as the statement says"],
    )
}

pub fn replay(ctx: &Ctx, case: &Value) -> i32 {
    if case["sequence"].as_bool() == Some(true) {
        let out = match case["part_file"].as_str() {
            Some(p) => fw::build_main_with_part(case["source"].as_str().unwrap_or(""), p),
            None => fw::build_str(case["source"].as_str().unwrap_or("")),
        };
        ctx.eval(1);
        ctx.distinct(1);
        ctx.distinct(2);
        let bad = match (&out, case["must_build"].as_bool()) {
            (Outcome::Ok(b), Some(true)) => Some(fw::hex(&b.code, 4096).as_str()) != case["expect_code"].as_str(),
            (Outcome::Err(_), Some(false)) => false,
            _ => true,
        };
        if bad {
            ctx.violation("gate/sequence/replay", "replayed sequence still deviates", case.clone());
        }
        return fw::finish(ctx, "replay", &[]);
    }
    let dev = case["device"].as_str().unwrap_or("");
    let form = isa::form(case["form"].as_str().unwrap_or("nop"));
    let vals: Vec<i64> = case["vals"].as_array().map(|a| a.iter().filter_map(|x| x.as_i64()).collect()).unwrap_or_default();
    if !avra_lib::device::DEVICES.contains_key(dev) {
        println!("replay: device {} no longer in table", dev);
        return 2;
    }
    check(ctx, dev, form, &vals);
    ctx.distinct(1);
    ctx.distinct(2);
    fw::finish(ctx, "replay", &[])
}
