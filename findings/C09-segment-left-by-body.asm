.macro toee
.eseg
.endm
 nop
 toee
.db 1
.org 0x10
.db 2
