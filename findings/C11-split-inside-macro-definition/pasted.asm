.macro m
nop
ldi r16, 1
.endm
m
ret
