//! Framework shared by all property monitors: PRNG, verdict collection, signatures,
//! known findings, evidence and replay files, parallel drivers, panic-safe build wrappers.

use serde_json::{json, Map, Value};
use std::{
    cell::{Cell, RefCell},
    collections::{BTreeMap, BTreeSet, HashSet},
    fs,
    panic::{self, AssertUnwindSafe},
    path::{Path, PathBuf},
    sync::{
        atomic::{AtomicBool, AtomicU64, AtomicUsize, Ordering},
        Mutex,
    },
    time::Instant,
};

pub use avra_lib::builder::BuildResult;

// ------------------------------------------------------------------------------------------
// PRNG (xoshiro256** seeded by SplitMix64)

#[derive(Clone)]
pub struct Rng {
    s: [u64; 4],
}

fn splitmix(x: &mut u64) -> u64 {
    *x = x.wrapping_add(0x9E3779B97F4A7C15);
    let mut z = *x;
    z = (z ^ (z >> 30)).wrapping_mul(0xBF58476D1CE4E5B9);
    z = (z ^ (z >> 27)).wrapping_mul(0x94D049BB133111EB);
    z ^ (z >> 31)
}

pub fn mix64(a: u64, b: u64) -> u64 {
    let mut x = a ^ b.rotate_left(32) ^ 0xD6E8FEB86659FD93;
    splitmix(&mut x)
}

impl Rng {
    pub fn new(seed: u64) -> Self {
        let mut x = seed;
        Rng {
            s: [
                splitmix(&mut x),
                splitmix(&mut x),
                splitmix(&mut x),
                splitmix(&mut x),
            ],
        }
    }
    /// independent stream for (seed, stream id, index)
    pub fn for_case(seed: u64, stream: u64, index: u64) -> Self {
        Rng::new(mix64(mix64(seed, stream), index))
    }
    pub fn next(&mut self) -> u64 {
        let r = self.s[1].wrapping_mul(5).rotate_left(7).wrapping_mul(9);
        let t = self.s[1] << 17;
        self.s[2] ^= self.s[0];
        self.s[3] ^= self.s[1];
        self.s[1] ^= self.s[2];
        self.s[0] ^= self.s[3];
        self.s[2] ^= t;
        self.s[3] = self.s[3].rotate_left(45);
        r
    }
    /// uniform in 0..n (n > 0)
    pub fn below(&mut self, n: u64) -> u64 {
        debug_assert!(n > 0);
        ((self.next() as u128 * n as u128) >> 64) as u64
    }
    pub fn range(&mut self, lo: i64, hi: i64) -> i64 {
        debug_assert!(lo <= hi);
        let span = (hi as i128 - lo as i128 + 1) as u128;
        if span > u64::MAX as u128 {
            return self.next() as i64;
        }
        (lo as i128 + self.below(span as u64) as i128) as i64
    }
    pub fn usize(&mut self, n: usize) -> usize {
        self.below(n as u64) as usize
    }
    pub fn chance(&mut self, num: u64, den: u64) -> bool {
        self.below(den) < num
    }
    pub fn pick<'a, T>(&mut self, xs: &'a [T]) -> &'a T {
        &xs[self.usize(xs.len())]
    }
    pub fn shuffle<T>(&mut self, xs: &mut [T]) {
        for i in (1..xs.len()).rev() {
            let j = self.usize(i + 1);
            xs.swap(i, j);
        }
    }
}

pub fn hash_bytes(b: &[u8]) -> u64 {
    // FNV-1a 64 then mix
    let mut h: u64 = 0xcbf29ce484222325;
    for x in b {
        h ^= *x as u64;
        h = h.wrapping_mul(0x100000001b3);
    }
    mix64(h, b.len() as u64)
}

pub fn hash_str(s: &str) -> u64 {
    hash_bytes(s.as_bytes())
}

// ------------------------------------------------------------------------------------------
// Outcome of one execution of the code under test

#[derive(Clone, Debug, PartialEq, Eq)]
pub enum Outcome {
    Ok(BuildResult),
    Err(String),
    Panic(String),
}

impl Outcome {
    pub fn is_ok(&self) -> bool {
        matches!(self, Outcome::Ok(_))
    }
    pub fn is_err(&self) -> bool {
        matches!(self, Outcome::Err(_))
    }
    pub fn is_panic(&self) -> bool {
        matches!(self, Outcome::Panic(_))
    }
    pub fn kind(&self) -> &'static str {
        match self {
            Outcome::Ok(_) => "ok",
            Outcome::Err(_) => "err",
            Outcome::Panic(_) => "panic",
        }
    }
    pub fn brief(&self) -> Value {
        match self {
            Outcome::Ok(b) => json!({
                "ok": {
                    "code": hex(&b.code, 96), "code_len": b.code.len(),
                    "eeprom": hex(&b.eeprom, 96), "eeprom_len": b.eeprom.len(),
                    "flash_size": b.flash_size, "eeprom_size": b.eeprom_size, "ram_size": b.ram_size,
                    "ram_filling": b.ram_filling, "messages": b.messages,
                }
            }),
            Outcome::Err(e) => json!({ "err": clip(e, 400) }),
            Outcome::Panic(e) => json!({ "panic": clip(e, 400) }),
        }
    }
}

pub fn clip(s: &str, n: usize) -> String {
    if s.len() <= n {
        s.to_string()
    } else {
        let mut end = n;
        while !s.is_char_boundary(end) {
            end -= 1;
        }
        format!("{}…[{} bytes]", &s[..end], s.len())
    }
}

pub fn hex(b: &[u8], max: usize) -> String {
    let mut s = String::new();
    for x in b.iter().take(max) {
        s.push_str(&format!("{:02x}", x));
    }
    if b.len() > max {
        s.push_str(&format!("…[{} bytes]", b.len()));
    }
    s
}

thread_local! {
    static LAST_PANIC: std::cell::RefCell<Option<String>> = const { std::cell::RefCell::new(None) };
}

static QUIET_HOOK: AtomicBool = AtomicBool::new(false);

/// Install a panic hook that records message + location in a thread-local and prints nothing.
pub fn install_quiet_panic_hook() {
    if QUIET_HOOK.swap(true, Ordering::SeqCst) {
        return;
    }
    let default = panic::take_hook();
    panic::set_hook(Box::new(move |info| {
        let msg = if let Some(s) = info.payload().downcast_ref::<&str>() {
            s.to_string()
        } else if let Some(s) = info.payload().downcast_ref::<String>() {
            s.clone()
        } else {
            "<non-string panic>".to_string()
        };
        let loc = info
            .location()
            .map(|l| format!("{}:{}", l.file(), l.line()))
            .unwrap_or_default();
        // panics raised by the harness itself must stay visible
        // (cargo gives the harness crate relative paths, the path dependency absolute ones)
        if loc.starts_with("src/") || loc.contains("harness/src") {
            default(info);
        }
        LAST_PANIC.with(|p| *p.borrow_mut() = Some(format!("{} @ {}", msg, loc)));
    }));
}

pub fn take_last_panic() -> String {
    LAST_PANIC
        .with(|p| p.borrow_mut().take())
        .unwrap_or_else(|| "<unknown panic>".to_string())
}

/// Run a closure that calls into the code under test; panics become Outcome::Panic.
pub fn guarded<T>(f: impl FnOnce() -> Result<T, String>) -> Result<Result<T, String>, String> {
    match panic::catch_unwind(AssertUnwindSafe(f)) {
        Ok(r) => Ok(r),
        Err(_) => Err(take_last_panic()),
    }
}

/// In-process builds get a hook step budget too: code that stops making progress must surface as a
/// reported panic of that one build, not as a monitor that never returns. (C16 decides hangs in
/// isolated workers with its own budget; this one is only a safety net, set far above any workload.)
pub const INPROCESS_STEP_BUDGET: u64 = 200_000_000;

fn budget_exceeded(n: u64) {
    // only once per build: lift the budget before unwinding
    avra_lib::verif::reset_steps(u64::MAX, None);
    panic!("verif step budget exceeded: no result after {} hook steps (hang)", n);
}

/// set by the isolated worker, which installs its own budget and verdict
pub static BUDGET_MANAGED_BY_CALLER: AtomicBool = AtomicBool::new(false);

fn arm_budget() {
    if !BUDGET_MANAGED_BY_CALLER.load(Ordering::Relaxed) {
        avra_lib::verif::reset_steps(INPROCESS_STEP_BUDGET, Some(budget_exceeded));
    }
}

// ------------------------------------------------------------------------------------------
// Hostile history: builds are independent of each other (C17), so any build may be preceded on the
// same thread by any other build without changing its result. Every HISTORY_PERIOD-th in-process
// build of a thread (and its first) is therefore preceded by one small program of another kind -
// other devices, failing builds, macros, #defines, segments, high addresses. On a tree where the
// properties hold this is unobservable; state that survives a build (a thread-local, a cache keyed
// too coarsely, a table not unwound on the error path) shows up in whichever oracle runs next.

pub const HISTORY_PERIOD: u64 = 16;
const HISTORY_PROGRAMS_PLAIN: &[&str] = &[
    ".device ATtiny10\nldi r16, 1\nlds r16, 0x41\nsts 0x42, r17\n",
    ".device ATmega2560\n.org 0x1ff00\nfar: jmp far\ncall far\neijmp\nelpm r0, Z+\n",
    ".device ATtiny11\nnop\npush r0\n",
    ".macro m\nldi @0, @1\n.endm\n.macro select_part\n.device ATmega8\n.endm\nselect_part\nm r16, 1\nm r17, 2\n",
    ".equ x = 5\n.set y = x + 1\n.def tmp = r16\n.def temp = r17\nldi tmp, y\nldi temp, low(x)\n.undef tmp\n.set y = y + 1\n.dw y\n",
    "this is not assembler ?!\n",
    ".dseg\nvar: .byte 3\nbuf: .byte 5\n.eseg\n.db 1, 2, 3\nee: .dw var, buf\n",
    ".include \"no/such/file.inc\"\nnop\n",
    "#define FLAG\n.ifdef FLAG\n.define OTHER\n.message \"flag\"\n.else\n.error \"no flag\"\n.endif\n.ifndef OTHER\n.dw 1\n.endif\n",
    ".if 1\nnop\n",
    ".macro unfinished\nnop\n",
    "start: rjmp start\nloop: brne loop\n.db \"text\", 0\n.dw undefined_symbol\n",
    ".device AT90S1200\nldi r16, 300\n",
    ".device ATmega103\n.cseg\n.org 0x100\nlbl: .db 1\n.dseg\n.org 0x200\nd: .byte 1\n.cseg\nldi r30, low(d)\nlpm\n",
];

/// `.equ` doubling ladder: evaluating `a<n>` takes about 2^n steps
pub fn equ_ladder(rungs: usize, last_line: &str) -> String {
    let mut s = String::from(".equ a0 = 1\n");
    for i in 1..=rungs {
        s.push_str(&format!(".equ a{} = a{} + a{}\n", i, i - 1, i - 1));
    }
    s.push_str(last_line);
    s.push('\n');
    s
}

/// the plain programs plus builds that end at one of the assembler's own resource limits
pub fn history_programs() -> &'static Vec<String> {
    static P: std::sync::OnceLock<Vec<String>> = std::sync::OnceLock::new();
    P.get_or_init(|| {
        let mut v: Vec<String> = HISTORY_PROGRAMS_PLAIN.iter().map(|s| s.to_string()).collect();
        v.push(equ_ladder(21, "ldi r16, low(a21)")); // evaluation step limit
        v.push(equ_ladder(18, "ldi r16, low(a18 + nowhere)")); // long evaluation that then fails
        v.push(".macro again\nnop\nagain\n.endm\nagain\n".to_string()); // macro nesting limit
        v.push(format!("ldi r16, 1{}\n", "+1".repeat(700))); // line complexity limit
        v.push(".device ATtiny13\n.org 0x1ff\nnop\nnop\n".to_string()); // capacity
        // the budget of evaluation steps of a whole build runs out in the middle of an expression over names that
        // the monitors' own programs use too (all of them worked out at length here, with other values)
        v.push({
            let mut s = equ_ladder(13, "");
            for (k, name) in ["eq_chain", "eq_fwd", "eqa", "eq_b", "eqbig", "xval", "zero_ish", "yes", "lowest", "width", "size", "where", "s0", "s1", "s2", "s3"].iter().enumerate() {
                s.push_str(&format!(".equ {} = a13 - a13 + {}\n", name, 4242 + k));
            }
            for _ in 0..40 {
                s.push_str(".dd eq_chain + eq_fwd + eqa + eq_b + eqbig + xval + zero_ish + yes\n.dd lowest + width + size + where + s0 + s1 + s2 + s3\n");
            }
            s
        });
        v
    })
}

thread_local! {
    static HIST_CALLS: Cell<u64> = const { Cell::new(0) };
    static HIST_SLOT: Cell<usize> = const { Cell::new(usize::MAX) };
    static HIST_SEEN: RefCell<Vec<usize>> = const { RefCell::new(Vec::new()) };
    static HOOK_MASK: Cell<u32> = const { Cell::new(0) };
}
static HIST_THREADS: AtomicUsize = AtomicUsize::new(0);
pub static HISTORY_BUILDS: AtomicU64 = AtomicU64::new(0);
pub static HISTORY_OFF: AtomicBool = AtomicBool::new(false);

/// the hook mask is mirrored here so that history builds can run with the hooks switched off
pub fn hook_enable(mask: u32) {
    HOOK_MASK.with(|m| m.set(mask));
    avra_lib::verif::enable(mask);
}

/// history programs this thread has built so far, in first-use order (recorded with every violation)
pub fn thread_history() -> Vec<usize> {
    HIST_SEEN.with(|h| h.borrow().clone())
}

pub fn run_history_program(idx: usize) {
    let progs = history_programs();
    let src = progs[idx % progs.len()].as_str();
    let mask = HOOK_MASK.with(|m| m.get());
    avra_lib::verif::enable(0);
    arm_budget();
    let _ = guarded(|| avra_lib::builder::build_str(src).map(|_| ()).map_err(|e| e.to_string()));
    avra_lib::verif::enable(mask);
    HIST_SEEN.with(|h| {
        let mut h = h.borrow_mut();
        if !h.contains(&idx) {
            h.push(idx);
        }
    });
    HISTORY_BUILDS.fetch_add(1, Ordering::Relaxed);
}

fn hostile_history() {
    // (the Miri legs run a fixed small workload of their own, at interpreter speed)
    if cfg!(miri) || HISTORY_OFF.load(Ordering::Relaxed) || BUDGET_MANAGED_BY_CALLER.load(Ordering::Relaxed) {
        return;
    }
    let n = HIST_CALLS.with(|c| {
        let n = c.get();
        c.set(n + 1);
        n
    });
    if n % HISTORY_PERIOD != 0 {
        return;
    }
    let slot = HIST_SLOT.with(|s| {
        if s.get() == usize::MAX {
            s.set(HIST_THREADS.fetch_add(1, Ordering::Relaxed));
        }
        s.get()
    });
    let k = slot + (n / HISTORY_PERIOD) as usize;
    let len = history_programs().len();
    let mut idx = k % len;
    // the two long evaluations cost about a million steps each: every fourth time their turn comes
    if (idx == HISTORY_PROGRAMS_PLAIN.len() || idx == HISTORY_PROGRAMS_PLAIN.len() + 1) && (k / len) % 4 != 0 {
        idx = (idx + 2) % len;
    }
    // the build that uses up the whole evaluation budget takes more than a second: twice per thread
    if idx == len - 1 {
        thread_local! { static EXHAUSTED: Cell<u32> = const { Cell::new(0) }; }
        let seen = EXHAUSTED.with(|c| {
            c.set(c.get() + 1);
            c.get()
        });
        if seen > 2 {
            idx = 1;
        }
    }
    run_history_program(idx);
}

pub fn build_str(src: &str) -> Outcome {
    hostile_history();
    arm_budget();
    match guarded(|| avra_lib::builder::build_str(src).map_err(|e| e.to_string())) {
        Ok(Ok(b)) => Outcome::Ok(b),
        Ok(Err(e)) => Outcome::Err(e),
        Err(p) => Outcome::Panic(p),
    }
}

pub fn build_file(path: &Path, dirs: &[PathBuf]) -> Outcome {
    let paths: BTreeSet<PathBuf> = dirs.iter().cloned().collect();
    hostile_history();
    arm_budget();
    match guarded(|| {
        avra_lib::builder::build_file(path.to_path_buf(), paths).map_err(|e| e.to_string())
    }) {
        Ok(Ok(b)) => Outcome::Ok(b),
        Ok(Err(e)) => Outcome::Err(e),
        Err(p) => Outcome::Panic(p),
    }
}

/// The program `main` (which holds a line `.include "part.inc"`) with `part` as that file, built from a
/// scratch directory of this thread; `leading` is written in front of both files (blank lines, a BOM-less
/// comment - whatever must not matter).
pub fn build_main_with_part(main: &str, part: &str) -> Outcome {
    build_main_with_part_bytes(main.as_bytes(), part.as_bytes())
}

/// the same for files that need not be valid UTF-8
pub fn build_main_with_part_bytes(main: &[u8], part: &[u8]) -> Outcome {
    use std::sync::atomic::{AtomicU64, Ordering};
    static N: AtomicU64 = AtomicU64::new(0);
    thread_local! { static DIR: PathBuf = verif_root().join("build").join(format!("scratch-split-{}-{}", std::process::id(), N.fetch_add(1, Ordering::Relaxed))); }
    let dir = DIR.with(|d| d.clone());
    if std::fs::create_dir_all(&dir).is_err() || std::fs::write(dir.join("main.asm"), main).is_err() || std::fs::write(dir.join("part.inc"), part).is_err() {
        return Outcome::Err("HARNESS: cannot write the scratch files".into());
    }
    let out = build_file(&dir.join("main.asm"), &[]);
    let _ = std::fs::remove_dir_all(&dir);
    out
}

// ------------------------------------------------------------------------------------------
// Tier / configuration

#[derive(Clone, Copy, PartialEq, Eq, Debug)]
pub enum Tier {
    Quick,
    Thorough,
}

impl Tier {
    pub fn name(self) -> &'static str {
        match self {
            Tier::Quick => "quick",
            Tier::Thorough => "thorough",
        }
    }
    pub fn pick<T>(self, q: T, t: T) -> T {
        match self {
            Tier::Quick => q,
            Tier::Thorough => t,
        }
    }
}

pub fn verif_root() -> PathBuf {
    PathBuf::from(std::env::var("VERIF_ROOT").unwrap_or_else(|_| "/verif".to_string()))
}

pub fn repo_root() -> PathBuf {
    PathBuf::from(std::env::var("VERIF_REPO").unwrap_or_else(|_| "/repo".to_string()))
}

pub fn threads() -> usize {
    std::env::var("VERIF_THREADS")
        .ok()
        .and_then(|s| s.parse().ok())
        .unwrap_or_else(|| {
            std::thread::available_parallelism()
                .map(|n| n.get())
                .unwrap_or(4)
                .min(16)
        })
}

// ------------------------------------------------------------------------------------------
// Violations, known findings

#[derive(Clone, Debug)]
pub struct Violation {
    pub sig: String,
    pub what: String,
    pub replay: Value,
    /// history programs built earlier on the reporting thread (see `hostile_history`)
    pub history: Vec<usize>,
}

#[derive(Clone, Debug)]
pub struct Finding {
    pub status: String, // open | fixed
    pub property: String,
    pub sig: String,
    pub text: String,
}

pub fn load_findings() -> Vec<Finding> {
    let path = verif_root().join("KNOWN_FINDINGS.txt");
    let mut out = vec![];
    if let Ok(text) = fs::read_to_string(path) {
        for line in text.lines() {
            let line = line.trim();
            if line.is_empty() || line.starts_with('#') {
                continue;
            }
            let (status, rest) = match line.split_once(':') {
                Some((s, r)) if s == "open" || s == "fixed" => (s.to_string(), r.trim()),
                _ => continue,
            };
            let mut property = String::new();
            let mut sig = String::new();
            let mut text = vec![];
            for tok in rest.split_whitespace() {
                if let Some(p) = tok.strip_prefix("property=") {
                    property = p.to_string();
                } else if let Some(s) = tok.strip_prefix("sig=") {
                    sig = s.to_string();
                } else {
                    text.push(tok);
                }
            }
            out.push(Finding {
                status,
                property,
                sig,
                text: text.join(" "),
            });
        }
    }
    out
}

// ------------------------------------------------------------------------------------------
// Per-run context: counters, distinct sets, samples, violations

pub struct Ctx {
    pub prop: String,
    pub tier: Tier,
    pub seed: u64,
    pub start: Instant,
    pub evaluations: AtomicU64,
    pub inconclusive: AtomicU64,
    distinct: Mutex<HashSet<u64>>,
    samples: Mutex<Vec<Value>>,
    counters: Mutex<BTreeMap<String, u64>>,
    sets: Mutex<BTreeMap<String, BTreeSet<String>>>,
    violations: Mutex<Vec<Violation>>,
    viol_count: Mutex<BTreeMap<String, u64>>,
    notes: Mutex<Vec<String>>,
    pub extra: Mutex<Map<String, Value>>,
    pub exhaustive: AtomicBool,
    pub replay_mode: bool,
    /// distinct cases measured outside the hash set (e.g. by a bitmap)
    pub distinct_extra: AtomicU64,
}

pub const MAX_SAMPLES: usize = 12;
const MAX_REPLAYS_PER_SIG: u64 = 2;

impl Ctx {
    pub fn new(prop: &str, tier: Tier, seed: u64) -> Self {
        Ctx {
            prop: prop.to_string(),
            tier,
            seed,
            start: Instant::now(),
            evaluations: AtomicU64::new(0),
            inconclusive: AtomicU64::new(0),
            distinct: Mutex::new(HashSet::new()),
            samples: Mutex::new(vec![]),
            counters: Mutex::new(BTreeMap::new()),
            sets: Mutex::new(BTreeMap::new()),
            violations: Mutex::new(vec![]),
            viol_count: Mutex::new(BTreeMap::new()),
            notes: Mutex::new(vec![]),
            extra: Mutex::new(Map::new()),
            exhaustive: AtomicBool::new(false),
            replay_mode: false,
            distinct_extra: AtomicU64::new(0),
        }
    }

    pub fn eval(&self, n: u64) {
        self.evaluations.fetch_add(n, Ordering::Relaxed);
    }
    pub fn distinct(&self, h: u64) {
        self.distinct.lock().unwrap().insert(h);
    }
    pub fn distinct_many(&self, hs: impl IntoIterator<Item = u64>) {
        let mut d = self.distinct.lock().unwrap();
        for h in hs {
            d.insert(h);
        }
    }
    pub fn distinct_count(&self) -> usize {
        self.distinct.lock().unwrap().len() + self.distinct_extra.load(Ordering::Relaxed) as usize
    }
    pub fn sample(&self, v: Value) {
        let mut s = self.samples.lock().unwrap();
        if s.len() < MAX_SAMPLES {
            s.push(v);
        }
    }
    pub fn want_sample(&self) -> bool {
        self.samples.lock().unwrap().len() < MAX_SAMPLES
    }
    pub fn count(&self, key: &str, n: u64) {
        *self
            .counters
            .lock()
            .unwrap()
            .entry(key.to_string())
            .or_insert(0) += n;
    }
    pub fn merge_counts(&self, m: &BTreeMap<String, u64>) {
        let mut c = self.counters.lock().unwrap();
        for (k, v) in m {
            *c.entry(k.clone()).or_insert(0) += v;
        }
    }
    pub fn counter(&self, key: &str) -> u64 {
        *self.counters.lock().unwrap().get(key).unwrap_or(&0)
    }
    pub fn set_add(&self, set: &str, item: &str) {
        self.sets
            .lock()
            .unwrap()
            .entry(set.to_string())
            .or_default()
            .insert(item.to_string());
    }
    pub fn set_len(&self, set: &str) -> usize {
        self.sets
            .lock()
            .unwrap()
            .get(set)
            .map(|s| s.len())
            .unwrap_or(0)
    }
    pub fn note(&self, s: impl Into<String>) {
        self.notes.lock().unwrap().push(s.into());
    }
    pub fn inconclusive(&self, why: impl Into<String>) {
        self.inconclusive.fetch_add(1, Ordering::Relaxed);
        let mut n = self.notes.lock().unwrap();
        if n.len() < 50 {
            n.push(format!("inconclusive: {}", why.into()));
        }
    }
    pub fn put(&self, key: &str, v: Value) {
        self.extra.lock().unwrap().insert(key.to_string(), v);
    }

    /// Report a violation. Keeps at most MAX_REPLAYS_PER_SIG witnesses per signature.
    pub fn violation(&self, sig: impl Into<String>, what: impl Into<String>, replay: Value) {
        let sig = sig.into();
        let mut c = self.viol_count.lock().unwrap();
        let n = c.entry(sig.clone()).or_insert(0);
        *n += 1;
        if *n <= MAX_REPLAYS_PER_SIG {
            self.violations.lock().unwrap().push(Violation {
                sig,
                what: what.into(),
                replay,
                history: thread_history(),
            });
        }
    }

    pub fn violation_sigs(&self) -> Vec<String> {
        self.viol_count.lock().unwrap().keys().cloned().collect()
    }

    pub fn elapsed(&self) -> f64 {
        self.start.elapsed().as_secs_f64()
    }
}

/// The monitors are built with overflow checks and debug assertions on (the arithmetic a library user
/// gets from `cargo build` / `cargo test`). Code may behave differently in a plain release build: an
/// overflow wraps instead of panicking, a `debug_assert!` with a side effect disappears. So every run
/// ends with a quick-size leg of the same monitor built with the `plainrelease` profile (a sibling
/// binary, run as a child process); what it reports is reported here with the prefix
/// `plain-release-build/`. The child writes no evidence file of its own.
fn plain_release_leg(ctx: &Ctx) {
    if ctx.replay_mode || !cfg!(debug_assertions) || std::env::var("VERIF_PLAIN_LEG").is_ok() || std::env::var("VERIF_SKIP_PLAIN_LEG").is_ok() {
        return;
    }
    if ctx.prop == "C18" {
        // (C18 runs the dev and the release build of the CLI binary itself)
        return;
    }
    let Ok(me) = std::env::current_exe() else { return };
    let Some(sibling) = me.parent().and_then(|p| p.parent()).map(|p| p.join("plainrelease").join("avra-verif")) else { return };
    if !sibling.exists() {
        ctx.put("plain_release_leg", json!("binary not built (run through ./check)"));
        return;
    }
    let t0 = Instant::now();
    let out = std::process::Command::new(&sibling)
        .args(["run", &ctx.prop, "--tier", "quick", "--seed", &ctx.seed.to_string()])
        .env("VERIF_PLAIN_LEG", "1")
        .env("VERIF_SKIP_MIRI", "1")
        .output();
    let Ok(out) = out else {
        ctx.inconclusive("plain-release leg could not be started");
        return;
    };
    let text = String::from_utf8_lossy(&out.stdout);
    let mut n = 0;
    for l in text.lines().filter(|l| l.starts_with("VIOLATION ")) {
        let field = |k: &str| l.split_whitespace().find_map(|w| w.strip_prefix(k)).unwrap_or("").to_string();
        let (replay, sig) = (field("replay="), field("sig="));
        let what = l.splitn(6, ' ').nth(5).unwrap_or("").to_string();
        ctx.violation(format!("plain-release-build/{}", sig), format!("only the plain release build was asked: {}", what), json!({"harness_profile": "plainrelease", "leg_replay_file": replay}));
        n += 1;
    }
    let summary = text.lines().rev().find(|l| l.starts_with(&format!("{} tier=", ctx.prop))).unwrap_or("").to_string();
    match out.status.code() {
        Some(0) | Some(1) => {}
        other => ctx.inconclusive(format!("plain-release leg ended abnormally ({:?}): {}", other, clip(&String::from_utf8_lossy(&out.stderr), 200))),
    }
    ctx.put("plain_release_leg", json!({"profile": "opt-level 3, overflow-checks off, debug-assertions off", "tier": "quick", "summary": summary, "violation_lines": n, "exit": out.status.code(), "wall_s": t0.elapsed().as_secs_f64()}));
}

/// Finish a run: print KNOWN-FINDING / VIOLATION lines, write replays and evidence. Returns exit code.
pub fn finish(ctx: &Ctx, rule: &str, assumptions: &[&str]) -> i32 {
    plain_release_leg(ctx);
    let findings = load_findings();
    let open: BTreeMap<String, String> = findings
        .iter()
        .filter(|f| f.status == "open" && f.property == ctx.prop)
        .map(|f| (f.sig.clone(), f.text.clone()))
        .collect();

    let viol_count = ctx.viol_count.lock().unwrap().clone();
    let violations = ctx.violations.lock().unwrap().clone();
    let root = verif_root();
    let mut unlisted = 0u64;
    let mut known_seen = BTreeSet::new();
    let mut printed = BTreeSet::new();
    let mut viol_summary = vec![];
    let replay_dir = root.join("replays").join(&ctx.prop);

    for v in &violations {
        if let Some(text) = open.get(&v.sig) {
            if known_seen.insert(v.sig.clone()) {
                println!(
                    "KNOWN-FINDING: property={} sig={} {} (re-observed {}x)",
                    ctx.prop, v.sig, text, viol_count[&v.sig]
                );
            }
            continue;
        }
        unlisted += 1;
        let _ = fs::create_dir_all(&replay_dir);
        let idx = printed.iter().filter(|s: &&String| s.starts_with(&v.sig)).count();
        let fname = format!(
            "{}-{:016x}-{}.json",
            sanitize(&v.sig),
            hash_str(&v.replay.to_string()),
            idx
        );
        let path = replay_dir.join(fname);
        let body = json!({
            "property": ctx.prop, "sig": v.sig, "what": v.what, "seed": ctx.seed, "tier": ctx.tier.name(),
            "case": v.replay, "thread_history": v.history,
        });
        let _ = fs::write(&path, serde_json::to_string_pretty(&body).unwrap());
        println!(
            "VIOLATION property={} replay={} sig={} ({}x) {}",
            ctx.prop,
            path.display(),
            v.sig,
            viol_count[&v.sig],
            clip(&v.what, 300)
        );
        printed.insert(format!("{}#{}", v.sig, idx));
        if viol_summary.len() < 40 {
            viol_summary.push(json!({"sig": v.sig, "count": viol_count[&v.sig], "what": clip(&v.what, 300), "replay": path.display().to_string()}));
        }
    }
    let stale: Vec<&String> = open.keys().filter(|s| !known_seen.contains(*s)).collect();

    let evaluations = ctx.evaluations.load(Ordering::Relaxed);
    let distinct = ctx.distinct_count() as u64;
    let inconclusive = ctx.inconclusive.load(Ordering::Relaxed);

    let mut coverage = Map::new();
    coverage.insert("evaluations".into(), json!(evaluations));
    coverage.insert("distinct_nontrivial".into(), json!(distinct));
    coverage.insert("rule".into(), json!(rule));
    coverage.insert("samples".into(), Value::Array(ctx.samples.lock().unwrap().clone()));
    coverage.insert(
        "exhaustive".into(),
        json!(ctx.exhaustive.load(Ordering::Relaxed)),
    );
    coverage.insert(
        "counters".into(),
        json!(ctx.counters.lock().unwrap().clone()),
    );
    let sets = ctx.sets.lock().unwrap();
    let mut set_json = Map::new();
    for (k, v) in sets.iter() {
        set_json.insert(
            k.clone(),
            json!({"distinct": v.len(), "first": v.iter().take(24).collect::<Vec<_>>()}),
        );
    }
    coverage.insert("observed_sets".into(), Value::Object(set_json));
    coverage.insert("inconclusive".into(), json!(inconclusive));
    coverage.insert("notes".into(), json!(ctx.notes.lock().unwrap().clone()));
    coverage.insert(
        "hostile_history_builds".into(),
        json!({"builds": HISTORY_BUILDS.load(Ordering::Relaxed), "period": HISTORY_PERIOD, "programs": history_programs().len(),
               "meaning": "small builds of another kind (other devices, failing builds, macros, #defines, segments) run on the same thread before every period-th in-process build, hooks off; they must be unobservable"}),
    );
    coverage.insert(
        "known_findings_reobserved".into(),
        json!(known_seen.iter().collect::<Vec<_>>()),
    );
    coverage.insert("stale_findings".into(), json!(stale));
    coverage.insert("unlisted_violations".into(), Value::Array(viol_summary));
    for (k, v) in ctx.extra.lock().unwrap().iter() {
        coverage.insert(k.clone(), v.clone());
    }

    let harness_fail = evaluations == 0 || distinct < 2;
    let ev = json!({
        "property_id": ctx.prop,
        "tier": ctx.tier.name(),
        "seed": ctx.seed,
        "level": "exploration",
        "coverage": Value::Object(coverage),
        "assumptions": assumptions,
        "wall_s": (ctx.elapsed() * 1000.0).round() / 1000.0,
        "violations": unlisted,
        "verdict": if unlisted > 0 { "violated" } else if harness_fail { "inconclusive" } else { "held-on-observed" },
    });
    if !ctx.replay_mode && std::env::var("VERIF_PLAIN_LEG").is_err() {
        let evdir = root.join("evidence");
        let _ = fs::create_dir_all(&evdir);
        let p = evdir.join(format!("{}.json", ctx.prop));
        let tmp = evdir.join(format!(".{}.json.tmp", ctx.prop));
        fs::write(&tmp, serde_json::to_string_pretty(&ev).unwrap()).expect("write evidence");
        fs::rename(&tmp, &p).expect("rename evidence");
    }
    println!(
        "{} tier={} seed={} evaluations={} distinct={} inconclusive={} known-findings={} unlisted-violations={} wall={:.1}s",
        ctx.prop,
        ctx.tier.name(),
        ctx.seed,
        evaluations,
        distinct,
        inconclusive,
        known_seen.len(),
        unlisted,
        ctx.elapsed()
    );
    for s in &stale {
        println!("STALE-FINDING: property={} sig={} (listed open, not re-observed in this run)", ctx.prop, s);
    }
    if unlisted > 0 {
        1
    } else if harness_fail && !ctx.replay_mode {
        println!("INCONCLUSIVE property={} nothing observed (evaluations={}, distinct={})", ctx.prop, evaluations, distinct);
        2
    } else {
        0
    }
}

fn sanitize(s: &str) -> String {
    s.chars()
        .map(|c| if c.is_ascii_alphanumeric() || c == '-' || c == '_' { c } else { '_' })
        .collect()
}

// ------------------------------------------------------------------------------------------
// Parallel driver: run `f(index)` for index in 0..n on `threads()` OS threads, dynamic chunks.

pub fn par_for<F>(n: u64, chunk: u64, f: F)
where
    F: Fn(u64) + Sync,
{
    let next = AtomicU64::new(0);
    let nthreads = threads().min(((n + chunk - 1) / chunk.max(1)).max(1) as usize);
    std::thread::scope(|s| {
        for _ in 0..nthreads {
            s.spawn(|| {
                install_quiet_panic_hook();
                loop {
                    let start = next.fetch_add(chunk, Ordering::Relaxed);
                    if start >= n {
                        break;
                    }
                    let end = (start + chunk).min(n);
                    for i in start..end {
                        f(i);
                    }
                }
            });
        }
    });
}

/// Parallel over a slice of work items.
pub fn par_items<T: Sync, F>(items: &[T], f: F)
where
    F: Fn(usize, &T) + Sync,
{
    let next = AtomicUsize::new(0);
    let nthreads = threads().min(items.len().max(1));
    std::thread::scope(|s| {
        for _ in 0..nthreads {
            s.spawn(|| {
                install_quiet_panic_hook();
                loop {
                    let i = next.fetch_add(1, Ordering::Relaxed);
                    if i >= items.len() {
                        break;
                    }
                    f(i, &items[i]);
                }
            });
        }
    });
}

/// Watchdog: wall-clock cap per run; firing is *inconclusive* (exit 2), never a violation.
pub fn start_watchdog(prop: &str, secs: u64) {
    let prop = prop.to_string();
    std::thread::spawn(move || {
        std::thread::sleep(std::time::Duration::from_secs(secs));
        println!("INCONCLUSIVE property={} wall-clock watchdog fired after {}s", prop, secs);
        std::process::exit(2);
    });
}
