//! Isolated worker process and its supervisor.
//!
//! `avra-verif worker` reads cases from stdin, runs ONE build at a time on the main thread (8 MiB
//! stack, the default an embedding application has) under these monitors: panic hook +
//! catch_unwind, counting allocator with a hard cap on live heap, hook step budget (deterministic
//! hang verdict), and writes one line per event to stdout:
//!     B <idx>                                    before the build (flushed)
//!     E <idx> <ok|err|panic> <steps> <depth> <peak> <micros> <fingerprint> <allocator calls> <message…>
//!     A <idx> <calls>                            allocator-call budget exceeded -> exit 96
//!     H <idx> <steps>                            step budget exceeded  -> exit 97
//!     M <idx> <live bytes>                       heap cap exceeded     -> exit 98
//! A worker that dies on a signal leaves its last `B` line as the culprit's identity.

use crate::fw::{self, Outcome};
use crate::monitor::alloc;
use avra_lib::verif;
use std::io::{BufRead, BufReader, Read, Write};
use std::path::PathBuf;
use std::process::{Child, Command, Stdio};
use std::sync::atomic::{AtomicBool, AtomicU64, Ordering};
use std::sync::Arc;
use std::time::{Duration, Instant};

pub const STEP_BUDGET: u64 = 50_000_000;
pub const HEAP_CAP: i64 = 256 << 20;
/// allocator calls one case may make (see alloc::mark_calls)
pub const CALL_BUDGET: u64 = 3_000_000_000;
pub const WALL_BACKSTOP_S: u64 = 90;

#[derive(Clone, Debug)]
pub struct Case {
    /// b'S' = build_str(text), b'F' = build_file(path in text)
    pub kind: u8,
    pub text: Vec<u8>,
    /// structural description used for the signature (never derived from the code under test)
    pub construct: String,
    pub family: &'static str,
}

#[derive(Clone, Debug, PartialEq)]
pub enum Verdict {
    /// normal return: (kind, steps, depth, peak heap, micros, fingerprint, message)
    Done { kind: String, steps: u64, depth: u32, peak: u64, micros: u64, fp: u64, allocs: u64, msg: String },
    Hang { steps: u64 },
    /// allocator-call budget exceeded (deterministic measure of work the step hooks do not see)
    Churn { calls: u64 },
    Memory { live: u64 },
    /// died on a signal / aborted: (description, stderr tail)
    Crash { how: String, stderr: String },
    /// wall-clock backstop fired or the worker could not be run: no verdict
    Inconclusive(String),
}

fn on_budget(n: u64) {
    let s = format!("H {} {}\n", alloc::CURRENT_CASE.load(Ordering::Relaxed), n);
    unsafe {
        libc::write(1, s.as_ptr() as *const libc::c_void, s.len());
        libc::_exit(97);
    }
}

fn escape(s: &str) -> String {
    s.chars().take(300).map(|c| if c == '\n' || c == '\r' { ' ' } else { c }).collect()
}

pub fn fingerprint(o: &Outcome) -> u64 {
    match o {
        Outcome::Ok(b) => {
            let mut h = fw::hash_bytes(&b.code);
            h = fw::mix64(h, fw::hash_bytes(&b.eeprom));
            h = fw::mix64(h, (b.flash_size as u64) << 32 | b.eeprom_size as u64);
            h = fw::mix64(h, (b.ram_size as u64) << 32 | b.ram_filling as u64);
            for m in &b.messages {
                h = fw::mix64(h, fw::hash_str(m));
            }
            h
        }
        Outcome::Err(e) => fw::mix64(0xE, fw::hash_str(e)),
        Outcome::Panic(p) => fw::mix64(0xF, fw::hash_str(p)),
    }
}

/// Entry point of `avra-verif worker [--budget N] [--cap BYTES]`
pub fn worker_main(args: &[String]) -> i32 {
    let mut budget = STEP_BUDGET;
    let mut cap = HEAP_CAP;
    let mut call_cap = CALL_BUDGET;
    let mut i = 0;
    while i < args.len() {
        match args[i].as_str() {
            "--budget" => {
                i += 1;
                budget = args[i].parse().unwrap_or(STEP_BUDGET);
            }
            "--calls" => {
                i += 1;
                call_cap = args[i].parse().unwrap_or(CALL_BUDGET);
            }
            "--cap" => {
                i += 1;
                cap = args[i].parse().unwrap_or(HEAP_CAP);
            }
            _ => {}
        }
        i += 1;
    }
    unsafe {
        // a runaway allocation must not hurt the sandbox; no core files
        let lim = libc::rlimit { rlim_cur: 4 << 30, rlim_max: 4 << 30 };
        libc::setrlimit(libc::RLIMIT_AS, &lim);
        let zero = libc::rlimit { rlim_cur: 0, rlim_max: 0 };
        libc::setrlimit(libc::RLIMIT_CORE, &zero);
    }
    fw::install_quiet_panic_hook();
    fw::BUDGET_MANAGED_BY_CALLER.store(true, Ordering::SeqCst);
    alloc::enable(cap);
    let stdin = std::io::stdin();
    let mut input = BufReader::new(stdin.lock());
    let stdout = std::io::stdout();
    let mut out = stdout.lock();
    let mut header = String::new();
    loop {
        header.clear();
        match input.read_line(&mut header) {
            Ok(0) | Err(_) => return 0,
            _ => {}
        }
        let parts: Vec<&str> = header.trim().split(' ').collect();
        if parts.len() != 3 {
            return 3;
        }
        let kind = parts[0].as_bytes()[0];
        let idx: u64 = parts[1].parse().unwrap_or(0);
        let len: usize = parts[2].parse().unwrap_or(0);
        let mut buf = vec![0u8; len];
        if input.read_exact(&mut buf).is_err() {
            return 3;
        }
        let text = String::from_utf8_lossy(&buf).into_owned();
        let _ = writeln!(out, "B {}", idx);
        let _ = out.flush();
        alloc::CURRENT_CASE.store(idx, Ordering::Relaxed);
        let mark = alloc::mark();
        alloc::mark_calls(call_cap);
        verif::reset_steps(budget, Some(on_budget));
        let t = Instant::now();
        let outcome = if kind == b'F' { fw::build_file(&PathBuf::from(&text), &[]) } else { fw::build_str(&text) };
        let micros = t.elapsed().as_micros() as u64;
        let (steps, depth) = (verif::steps(), verif::max_depth());
        let peak = alloc::peak_since(mark);
        let allocs = alloc::calls_since_mark();
        verif::reset_steps(u64::MAX, None);
        let msg = match &outcome {
            Outcome::Ok(_) => String::new(),
            Outcome::Err(e) => escape(e),
            Outcome::Panic(p) => escape(p),
        };
        let fp = fingerprint(&outcome);
        let okind = outcome.kind();
        drop(outcome);
        let _ = writeln!(out, "E {} {} {} {} {} {} {:016x} {} {}", idx, okind, steps, depth, peak, micros, fp, allocs, msg);
        let _ = out.flush();
    }
}

struct Running {
    child: Child,
    stderr: std::thread::JoinHandle<String>,
}

fn spawn_worker(extra: &[String]) -> std::io::Result<Running> {
    let exe = std::env::current_exe()?;
    let mut cmd = Command::new(exe);
    cmd.arg("worker").args(extra).stdin(Stdio::piped()).stdout(Stdio::piped()).stderr(Stdio::piped());
    let mut child = cmd.spawn()?;
    let mut se = child.stderr.take().unwrap();
    let stderr = std::thread::spawn(move || {
        let mut s = String::new();
        let mut buf = [0u8; 4096];
        while let Ok(n) = se.read(&mut buf) {
            if n == 0 {
                break;
            }
            if s.len() < 8192 {
                s.push_str(&String::from_utf8_lossy(&buf[..n]));
            }
        }
        s
    });
    Ok(Running { child, stderr })
}

/// Run `cases` in isolated workers (one worker process per shard, restarted after every abnormal
/// end). `per_process` = 1 gives every case a fresh process. Calls `sink(index, verdict)`.
pub fn supervise<F>(cases: &[Case], shards: usize, per_process: usize, extra_args: &[String], sink: F)
where
    F: Fn(usize, &Verdict) + Sync,
{
    let next = AtomicU64::new(0);
    let chunk = 4096usize.min((cases.len() / shards.max(1)).max(1)).max(1) as u64;
    std::thread::scope(|s| {
        for _ in 0..shards {
            s.spawn(|| loop {
                let start = next.fetch_add(chunk, Ordering::Relaxed) as usize;
                if start >= cases.len() {
                    break;
                }
                let end = (start + chunk as usize).min(cases.len());
                run_range(cases, start, end, per_process, extra_args, &sink);
            });
        }
    });
}

fn run_range<F>(cases: &[Case], start: usize, end: usize, per_process: usize, extra: &[String], sink: &F)
where
    F: Fn(usize, &Verdict) + Sync,
{
    let mut pos = start;
    while pos < end {
        let stop = if per_process == 0 { end } else { (pos + per_process).min(end) };
        let mut run = match spawn_worker(extra) {
            Ok(r) => r,
            Err(e) => {
                for i in pos..stop {
                    sink(i, &Verdict::Inconclusive(format!("cannot start worker: {}", e)));
                }
                pos = stop;
                continue;
            }
        };
        let mut stdin = run.child.stdin.take().unwrap();
        let stdout = run.child.stdout.take().unwrap();
        let progress = Arc::new(AtomicU64::new(0));
        let finished = Arc::new(AtomicBool::new(false));
        let killed = Arc::new(AtomicBool::new(false));
        let pid = run.child.id();
        // wall-clock backstop: firing alone is inconclusive
        let (p2, f2, k2) = (progress.clone(), finished.clone(), killed.clone());
        let t0 = Instant::now();
        let watchdog = std::thread::spawn(move || {
            let mut last = (0u64, Instant::now());
            while !f2.load(Ordering::Relaxed) {
                std::thread::park_timeout(Duration::from_millis(250));
                if f2.load(Ordering::Relaxed) {
                    return;
                }
                let p = p2.load(Ordering::Relaxed);
                if p != last.0 {
                    last = (p, Instant::now());
                } else if last.1.elapsed() > Duration::from_secs(WALL_BACKSTOP_S) {
                    k2.store(true, Ordering::SeqCst);
                    unsafe {
                        libc::kill(pid as i32, libc::SIGKILL);
                    }
                    return;
                }
            }
            let _ = t0;
        });
        let verdicts = std::thread::scope(|sc| {
            let slice = &cases[pos..stop];
            let base = pos;
            let writer = sc.spawn(move || {
                for (k, c) in slice.iter().enumerate() {
                    let header = format!("{} {} {}\n", c.kind as char, base + k, c.text.len());
                    if stdin.write_all(header.as_bytes()).is_err() || stdin.write_all(&c.text).is_err() {
                        break;
                    }
                }
                drop(stdin);
            });
            let mut reader = BufReader::new(stdout);
            let mut line = String::new();
            let mut current: Option<usize> = None;
            let mut next_expected = pos;
            let mut abnormal: Option<(usize, Verdict)> = None;
            loop {
                line.clear();
                match reader.read_line(&mut line) {
                    Ok(0) | Err(_) => break,
                    _ => {}
                }
                progress.fetch_add(1, Ordering::Relaxed);
                let l = line.trim_end();
                let mut it = l.splitn(10, ' ');
                match it.next() {
                    Some("B") => current = it.next().and_then(|x| x.parse().ok()),
                    Some("E") => {
                        let idx: usize = it.next().and_then(|x| x.parse().ok()).unwrap_or(usize::MAX);
                        let kind = it.next().unwrap_or("?").to_string();
                        let steps = it.next().and_then(|x| x.parse().ok()).unwrap_or(0);
                        let depth = it.next().and_then(|x| x.parse().ok()).unwrap_or(0);
                        let peak = it.next().and_then(|x| x.parse().ok()).unwrap_or(0);
                        let micros = it.next().and_then(|x| x.parse().ok()).unwrap_or(0);
                        let fp = it.next().and_then(|x| u64::from_str_radix(x, 16).ok()).unwrap_or(0);
                        let allocs = it.next().and_then(|x| x.parse().ok()).unwrap_or(0);
                        let msg = it.next().unwrap_or("").to_string();
                        sink(idx, &Verdict::Done { kind, steps, depth, peak, micros, fp, allocs, msg });
                        current = None;
                        next_expected = idx + 1;
                    }
                    Some("H") => {
                        let idx: usize = it.next().and_then(|x| x.parse().ok()).unwrap_or(usize::MAX);
                        let steps = it.next().and_then(|x| x.parse().ok()).unwrap_or(0);
                        abnormal = Some((idx, Verdict::Hang { steps }));
                    }
                    Some("A") => {
                        let idx: usize = it.next().and_then(|x| x.parse().ok()).unwrap_or(usize::MAX);
                        let calls = it.next().and_then(|x| x.parse().ok()).unwrap_or(0);
                        abnormal = Some((idx, Verdict::Churn { calls }));
                    }
                    Some("M") => {
                        let idx: usize = it.next().and_then(|x| x.parse().ok()).unwrap_or(usize::MAX);
                        let live = it.next().and_then(|x| x.parse().ok()).unwrap_or(0);
                        abnormal = Some((idx, Verdict::Memory { live }));
                    }
                    _ => {}
                }
            }
            let _ = writer.join();
            (current, next_expected, abnormal)
        });
        finished.store(true, Ordering::SeqCst);
        watchdog.thread().unpark();
        let status = run.child.wait();
        let stderr = run.stderr.join().unwrap_or_default();
        let _ = watchdog.join();
        let (current, next_expected, abnormal) = verdicts;
        if let Some((idx, v)) = abnormal {
            sink(idx, &v);
            pos = idx + 1;
            continue;
        }
        if let Some(idx) = current {
            // began but never ended
            if killed.load(Ordering::SeqCst) {
                sink(idx, &Verdict::Inconclusive(format!("wall-clock backstop ({} s) fired", WALL_BACKSTOP_S)));
            } else {
                use std::os::unix::process::ExitStatusExt;
                let how = match &status {
                    Ok(st) => match st.signal() {
                        Some(sig) => format!("signal {}", sig),
                        None => format!("exit status {:?}", st.code()),
                    },
                    Err(e) => format!("wait failed: {}", e),
                };
                let tail: String = stderr.chars().rev().take(400).collect::<String>().chars().rev().collect();
                sink(idx, &Verdict::Crash { how, stderr: tail });
            }
            pos = idx + 1;
            continue;
        }
        if next_expected < stop {
            // worker ended early without a begun case (should not happen): mark the rest inconclusive once
            if next_expected == pos {
                sink(pos, &Verdict::Inconclusive(format!("worker ended without processing (status {:?}, stderr {})", status, fw::clip(&stderr, 200))));
                pos += 1;
            } else {
                pos = next_expected;
            }
            continue;
        }
        pos = stop;
    }
}
