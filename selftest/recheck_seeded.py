#!/usr/bin/env python3
"""Run the quick check of a kept seed's property against that seed again and record the outcome.

  SELFTEST_SCR=/tmp/selftestN selftest/recheck_seeded.py <seeded-id> [<seeded-id> ...]

Updates seeded/<id>/meta.json["my_checks"] (and keeps the earlier outcome under "my_checks_before_strengthening"
when the seed was missed before)."""
import json, os, subprocess, sys
for sid in sys.argv[1:]:
    d = f"/verif/seeded/{sid}"
    prop = sid.split("-")[-1]
    r = subprocess.run(f"python3 /verif/selftest/run.py {d}/patch.diff {prop}", shell=True, capture_output=True, text=True)
    res = {}
    for l in r.stdout.splitlines():
        if l.startswith("RESULT-JSON "):
            res = json.loads(l[len("RESULT-JSON "):])
    if not res:
        print(sid, "NO RESULT", r.stdout[-300:], r.stderr[-300:]); continue
    m = json.load(open(f"{d}/meta.json"))
    old = m.get("my_checks", {})
    if old.get(prop, {}).get("exit") == 0 and res.get(prop, {}).get("exit") == 1:
        m["my_checks_before_strengthening"] = old
    m["my_checks"] = res
    json.dump(m, open(f"{d}/meta.json", "w"), indent=1)
    print(sid, "exit=%s violations=%s sigs=%s" % (res[prop]["exit"], res[prop]["violation_lines"], res[prop]["signatures"][:3]), flush=True)
