	nop
	nop
.org 0
	ldi r16, 1
